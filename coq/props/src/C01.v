(* C01 at source level: the complete honest exchange stated over the functions as TRANSLATED FROM
   src/server.rs, src/client.rs and src/key.rs on this run (registration, export/re-import of the
   account record, into_proof, SrpClientChallenge::new, PublicKey check, into_server,
   verify_server_proof), with no model function in the statement. *)
From Coq Require Import List NArith.
From WS Require Import lib.Bytes lib.Res lib.Tape Consts Steps model.Bigint model.Key model.Srp model.Server model.Client
  spec.Srp6 proofs.Srp proofs.Login primes.NFacts proofs.steps.ApiCtors proofs.steps.ApiIntoServer proofs.steps.ApiClientProof proofs.steps.KeyCheck.
Import ListNotations.

Theorem C01_source_honest_login : forall U P salt b a chal rest,
  length salt = 32%nat -> length b = 32%nat -> length a = 32%nat -> length chal = 16%nat ->
  forall u v s t1, tr_server_from_username_and_password Default U P (salt ++ b ++ a ++ chal ++ rest) = Some ((u, v, s), t1) ->
  forall acct', tr_server_from_database_values u v s = Some acct' ->
  let '(u0, v0, s0) := acct' in
  forall pu B ps pb pv t2, tr_server_into_proof Default u0 v0 s0 t1 = Some ((pu, B, ps, pb, pv), t2) ->
  exists cu M1 A K t3 su sK sc M2 t4,
    tr_client_new Default U P generator n_le B ps t2 = Some ((cu, M1, A, K), t3) /\
    tr_key_check_public_key A = Some (inl tt) /\
    tr_server_into_server Default pu B ps pb pv A M1 t3 = Some (inl ((su, sK, sc), M2), t4) /\
    tr_client_verify_server_proof cu K M1 A M2 = Some (inl (cu, K)) /\
    sK = K /\ length K = 40%nat /\ t4 = rest.
Proof.
  intros U P salt b a chal rest Hs Hb Ha Hc u v s t1 Hreg acct' Hdb.
  rewrite from_database_values_translated in Hdb. injection Hdb as <-. cbn [vf_tuple vf_user vf_v vf_salt from_database_values].
  intros pu B ps pb pv t2 Hpr.
  rewrite from_username_and_password_translated in Hreg.
  destruct (from_username_and_password Default U P _) as [[acct t1']|e|] eqn:Ereg; [|discriminate|discriminate].
  injection Hreg as Hu Hv Hs' <-.
  pose proof (into_proof_translated Default (from_database_values (username_of acct) (password_verifier_of acct) (salt_of acct)) t1') as Hip.
  cbn [from_database_values vf_user vf_v vf_salt] in Hip. unfold username_of, password_verifier_of, salt_of in Hip.
  rewrite Hu, Hv, Hs' in Hip. rewrite Hpr in Hip.
  destruct (into_proof Default _ t1') as [[pr t2']|e|] eqn:Epr; [|discriminate|discriminate].
  injection Hip as Hpu HB Hps Hpb Hpv <-.
  rewrite <- Hu, <- Hv, <- Hs' in Epr.
  destruct (honest_login U P salt b a chal rest Hs Hb Ha Hc acct t1' Ereg pr t2 Epr)
    as (cl & t3 & srv & M2 & t4 & cli & Hcl & Hck & Hsrv & Hver & HK & HlenK & Ht4).
  exists (cc_user cl), (cc_M1 cl), (cc_A cl), (cc_K cl), t3, (ss_user srv), (ss_K srv), (ss_chal srv), M2, t4.
  subst pu B ps pb pv.
  split; [rewrite client_new_translated, Hcl; reflexivity|].
  split; [rewrite key_check_public_key_translated, Hck; reflexivity|].
  split; [rewrite server_into_server_translated, Hsrv; reflexivity|].
  assert (Hcli : sc_user cli = cc_user cl /\ sc_K cli = cc_K cl).
  { unfold verify_server_proof in Hver. destruct (list_eqb _ _); [|discriminate]. injection Hver as <-. split; reflexivity. }
  destruct Hcli as [Hcu HcK].
  split; [rewrite client_verify_server_proof_translated, Hver, Hcu, HcK; reflexivity|].
  split; [congruence|]. split; [congruence|exact Ht4].
Qed.

(* non-vacuity of the first premise, for every text and salt: the translated registration never fails
   and stores (U, LE32 (g^x mod N), salt) *)
Theorem C01_source_registration : forall U P salt rest, length salt = 32%nat ->
  tr_server_from_username_and_password Default U P (salt ++ rest)
  = Some ((U, LE32 (spec.Srp6.sp_v 7 Nz (spec.Srp6.sp_x U P salt)), salt), rest).
Proof.
  intros U P salt rest Hs. rewrite from_username_and_password_translated.
  unfold from_username_and_password. change (N.to_nat salt_length) with 32%nat.
  rewrite draw_app_exact by exact Hs. unfold with_specific_salt. rewrite proofs.Srp.verifier_spec. reflexivity.
Qed.

Print Assumptions C01_source_honest_login.
Print Assumptions C01_source_registration.
