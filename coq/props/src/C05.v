(* C05 at source level: SrpServer::verify_reconnection_attempt and SrpClient::calculate_reconnect_values
   as TRANSLATED FROM src/server.rs / src/client.rs on this run.  One attempt; the statements about
   whole histories are in props/C05.v (the model they are about is this translated function by
   proofs/steps/ApiServerReconnect.v). *)
From WS Require Import lib.Bytes lib.Res lib.Tape lib.Sha1 Consts Steps model.Srp model.Server model.Client
  proofs.steps.ApiServerReconnect proofs.steps.ApiClientReconnect.
Local Open Scope N_scope.

(* the verdict is exactly (proof = SHA1(U | client data | challenge on offer | K)); whatever the
   verdict, the challenge is replaced by the next 16 bytes of the random source, drawn AFTER the
   comparison; name and session key stay *)
Theorem C05_source_attempt : forall u K chal cd cp t,
  tr_server_verify_reconnection_attempt u K chal cd cp t =
  Some (list_eqb (sha1 (u ++ cd ++ chal ++ K)) cp, (u, K, firstn 16 t), skipn 16 t).
Proof. intros. reflexivity. Qed.

(* the client draws a fresh 16-byte challenge per call and proves knowledge of K for the pair *)
Theorem C05_source_client_values : forall u K sd t,
  tr_client_calculate_reconnect_values u K sd t =
  Some ((firstn 16 t, sha1 (u ++ firstn 16 t ++ sd ++ K)), skipn 16 t).
Proof. intros. reflexivity. Qed.

(* the translated function is the model's, on every server state *)
Theorem C05_source_is_model : forall s cd cp t,
  tr_server_verify_reconnection_attempt (ss_user s) (ss_K s) (ss_chal s) cd cp t
  = let '(verdict, s', t') := verify_reconnection_attempt s cd cp t in Some (verdict, server_view s', t').
Proof. exact server_verify_reconnection_attempt_translated. Qed.

Print Assumptions C05_source_attempt.
Print Assumptions C05_source_client_values.
Print Assumptions C05_source_is_model.
