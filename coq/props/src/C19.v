(* C19 at source level: the wrapper bodies of src/bigint.rs as TRANSLATED on this run for the two back ends
   (coq/BigintShim.v: the cfg blocks compiled under srp-fast-math resp. srp-default-math, library calls kept as the
   modelled dependencies of model/BigLib.v) give identical results. *)
From Coq Require Import List ZArith NArith Lia.
From WS Require Import lib.Bytes lib.Res model.Bigint model.BigLib BigintShim proofs.Bigint proofs.Backends proofs.steps.BigintShim.
Local Open Scope Z_scope.

(* modular exponentiation as translated: equal for every non-negative exponent and modulus (negative bases and a
   zero modulus - both panic - included), and equal to b^e mod m where that is defined *)
Theorem C19_source_modpow_agree : forall b e m, 0 <= e -> 0 <= m ->
  tr_bigint_modpow_fast b e m = tr_bigint_modpow_default b e m.
Proof.
  intros b e m He Hm. destruct (bigint_modpow_translated b e m) as [-> ->]. apply modpow_backends_agree; assumption.
Qed.
Theorem C19_source_modpow_value : forall b e m, 0 < m -> 0 <= e ->
  tr_bigint_modpow_default b e m = Ok ((b ^ e) mod m) /\ tr_bigint_modpow_fast b e m = Ok ((b ^ e) mod m).
Proof.
  intros b e m Hm He. destruct (bigint_modpow_translated b e m) as [-> ->].
  split; [apply modpow_default | apply modpow_fast]; assumption.
Qed.

(* everything else as translated is literally the same function of its arguments on both back ends, except the byte
   export, which differs exactly in the encoding of zero ([0] against []) - invisible after padding (C19_padding_agree) *)
Theorem C19_source_wrappers_agree : forall a b (v : N) (bs : list N) z,
  tr_bigint_is_zero_fast z = tr_bigint_is_zero_default z /\
  tr_bigint_mod_large_safe_prime_is_zero_fast a b = tr_bigint_mod_large_safe_prime_is_zero_default a b /\
  tr_bigint_from_bytes_le_fast bs = tr_bigint_from_bytes_le_default bs /\
  tr_bigint_mul_fast a b = tr_bigint_mul_default a b /\ tr_bigint_add_fast a b = tr_bigint_add_default a b /\
  tr_bigint_sub_fast a b = tr_bigint_sub_default a b /\ tr_bigint_rem_fast a b = tr_bigint_rem_default a b /\
  tr_bigint_from_u8_fast v = tr_bigint_from_u8_default v /\
  (z <> 0 -> tr_bigint_to_bytes_le_fast z = tr_bigint_to_bytes_le_default z) /\
  tr_bigint_to_bytes_le_fast 0 = Ok [] /\ tr_bigint_to_bytes_le_default 0 = Ok [0%N].
Proof.
  intros a b v bs z. repeat split.
  intros Hz. unfold tr_bigint_to_bytes_le_fast, tr_bigint_to_bytes_le_default, gmp_to_digits, gmp_digits, nb_to_bytes_le.
  cbn [snd]. destruct (Z.abs z =? 0) eqn:E; [|reflexivity].
  apply Z.eqb_eq in E. lia.
Qed.

(* the key checks of C04 read the same two tests on either back end: zero, and zero modulo the prime *)
Theorem C19_source_zero_tests : forall be z n, n <> 0 ->
  be_pick be (tr_bigint_mod_large_safe_prime_is_zero_default z n) (tr_bigint_mod_large_safe_prime_is_zero_fast z n)
    = Ok (Z.rem z n =? 0) /\
  be_pick be (tr_bigint_is_zero_default z) (tr_bigint_is_zero_fast z) = Ok (z =? 0).
Proof.
  intros be z n Hn. destruct (bigint_zero_tests_translated be z n) as [-> ->]. unfold rem, is_zero.
  destruct (n =? 0) eqn:E; [apply Z.eqb_eq in E; exfalso; exact (Hn E)|]. split; reflexivity.
Qed.

Print Assumptions C19_source_modpow_agree.
Print Assumptions C19_source_modpow_value.
Print Assumptions C19_source_wrappers_agree.
Print Assumptions C19_source_zero_tests.
