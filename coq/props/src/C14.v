(* C14 at source level: SKey::as_equal_slice as TRANSLATED FROM src/key.rs on this run.
   Only statements; every proof is `exact` of a lemma from proofs/steps/. *)
From WS Require Import lib.Bytes lib.Res lib.StepLoop Consts Steps spec.Srp6 proofs.steps.Key.
Local Open Scope N_scope.

(* the all-zero secret a hostile server can force (B = 3v mod N) gives the empty slice: the scan is
   bounded by the length and nothing panics *)
Theorem C14_source_zero_secret : tr_skey_as_equal_slice 33 (repeat 0 32) = Some [].
Proof. exact skey_source_zero_secret. Qed.

(* and so does every other 32-byte secret *)
Theorem C14_source_strip_total : forall s : list N, length s = 32%nat ->
  exists t, tr_skey_as_equal_slice 33 s = Some t.
Proof. intros s H. exists (strip s). exact (skey_source_strip s H). Qed.

Print Assumptions C14_source_zero_secret.
Print Assumptions C14_source_strip_total.
