(* C09 at source level: Rc4::pseudo_random_generation and Rc4::apply_keystream as TRANSLATED FROM
   src/rc4.rs on this run (the key schedule and the HMAC key derivation are covered by the model-level
   theorems, the layout obligation and the constants). *)
From WS Require Import lib.Bytes lib.Res lib.Hmac lib.StepLoop Consts Steps spec.Rc4 model.Rc4 proofs.Rc4 proofs.steps.Rc4
  proofs.Wrath proofs.steps.Ctors.
Local Open Scope N_scope.

(* from the state the key schedule produces for a non-empty key, the translated keystream loop yields
   the RC4 stream of that key: a prefix (e.g. the 1024 dropped bytes) and then any data, in any
   chunking, at the right offset *)
Theorem C09_source_stream : forall key, key <> [] ->
  exists r0, rc4_new key = Ok r0 /\
  forall pre data, exists t1 t2,
    slice_loop tr_rc4_apply_keystream_step (rc4_triple r0) pre = Some (t1, rc4_crypt key 0 pre) /\
    slice_loop tr_rc4_apply_keystream_step t1 data = Some (t2, rc4_crypt key (length pre) data).
Proof. exact rc4_source_stream. Qed.

Theorem C09_source_is_model : forall data r,
  slice_loop tr_rc4_apply_keystream_step (rc4_triple r) data = ks_view (apply_keystream r data).
Proof. exact rc4_apply_keystream_translated. Qed.

(* the whole key-setup path as translated (InnerCrypto::new: HMAC-SHA1 keyed by the direction constant
   over the session key, Rc4::new with its key schedule, 1024 keystream bytes dropped): for EVERY session
   key and direction constant the translated constructor succeeds, and the translated keystream loop run
   from its state outputs  data xor RC4(HMAC-SHA1(constant, K)) bytes 1024 .. 1024+|data| *)
Theorem C09_source_key_setup : forall K dk data, exists t0 t1,
  tr_wrath_inner_new K dk = Some t0 /\
  slice_loop tr_rc4_apply_keystream_step t0 data = Some (t1, rc4_crypt (hmac_sha1 dk K) 1024 data).
Proof.
  intros K dk data. destruct (inner_new_spec K dk) as (E & _ & _ & _ & Hs).
  exists (rc4_triple (inner_state K dk)), (rc4_triple (adv (inner_state K dk) (length data))). split.
  - rewrite wrath_inner_new_translated, E. reflexivity.
  - rewrite rc4_apply_keystream_translated, Hs. reflexivity.
Qed.

(* the four translated half constructors start from those states: client-encrypt / server-decrypt from
   the S state, server-encrypt / client-decrypt from the R state, with zeroed header buffers *)
Theorem C09_source_halves : forall K, exists tS tR,
  tr_wrath_inner_new K wrath_S = Some tS /\ tr_wrath_inner_new K wrath_R = Some tR /\
  tr_wrath_client_enc_new K = Some tS /\ tr_wrath_server_dec_new K = Some tS /\
  tr_wrath_server_enc_new K = Some (tR, [0;0;0;0;0]) /\ tr_wrath_client_dec_new K = Some (tR, [0;0;0;0]) /\
  tr_wrath_client_crypto_new K = Some ((tR, [0;0;0;0]), tS) /\
  tr_wrath_server_crypto_new K = Some (tS, (tR, [0;0;0;0;0])).
Proof.
  intros K. exists (rc4_triple (inner_state K wrath_S)), (rc4_triple (inner_state K wrath_R)).
  rewrite !wrath_inner_new_translated, wrath_client_enc_new_translated, wrath_server_dec_new_translated,
    wrath_server_enc_new_translated, wrath_client_dec_new_translated, wrath_client_crypto_new_translated,
    wrath_server_crypto_new_translated.
  unfold model.Wrath.client_crypto_new, model.Wrath.server_crypto_new.
  rewrite !inner_new_eq, client_enc_new_eq, server_dec_new_eq, server_enc_new_eq, client_dec_new_eq.
  repeat split.
Qed.

(* Rc4::new as translated is the model's key schedule (and so never panics: C09_rc4_new_total) *)
Theorem C09_source_rc4_new : forall key, exists r, rc4_new key = Ok r /\ tr_rc4_new key = Some (rc4_triple r).
Proof.
  intros key. destruct (rc4_new_ok key) as (r & E & _). exists r. split; [exact E|].
  rewrite rc4_new_translated, E. reflexivity.
Qed.

Print Assumptions C09_source_stream.
Print Assumptions C09_source_key_setup.
Print Assumptions C09_source_halves.
Print Assumptions C09_source_rc4_new.
Print Assumptions C09_source_is_model.
