(* C09 at source level: Rc4::pseudo_random_generation and Rc4::apply_keystream as TRANSLATED FROM
   src/rc4.rs on this run (the key schedule and the HMAC key derivation are covered by the model-level
   theorems, the layout obligation and the constants). *)
From WS Require Import lib.Bytes lib.Res lib.StepLoop Consts Steps spec.Rc4 model.Rc4 proofs.Rc4 proofs.steps.Rc4.
Local Open Scope N_scope.

(* from the state the key schedule produces for a non-empty key, the translated keystream loop yields
   the RC4 stream of that key: a prefix (e.g. the 1024 dropped bytes) and then any data, in any
   chunking, at the right offset *)
Theorem C09_source_stream : forall key, key <> [] ->
  exists r0, rc4_new key = Ok r0 /\
  forall pre data, exists t1 t2,
    slice_loop tr_rc4_apply_keystream_step (rc4_triple r0) pre = Some (t1, rc4_crypt key 0 pre) /\
    slice_loop tr_rc4_apply_keystream_step t1 data = Some (t2, rc4_crypt key (length pre) data).
Proof. exact rc4_source_stream. Qed.

Theorem C09_source_is_model : forall data r,
  slice_loop tr_rc4_apply_keystream_step (rc4_triple r) data = ks_view (apply_keystream r data).
Proof. exact rc4_apply_keystream_translated. Qed.

Print Assumptions C09_source_stream.
Print Assumptions C09_source_is_model.
