(* C10 at source level: ServerEncrypterHalf::encrypt_server_header as TRANSLATED FROM
   src/wrath_header/encrypt.rs on this run, with InnerCrypto::apply as the external call.
   Only statements; every proof is `exact` of a lemma from proofs/steps/. *)
From WS Require Import lib.Bytes lib.Res lib.StepLoop Consts Steps spec.Rc4 model.Rc4 model.Wrath proofs.Rc4 proofs.Wrath proofs.steps.Wrath.
Local Open Scope N_scope.

Theorem C10_source_layout : forall se size opcode, wf_se se -> size <= 0x7FFFFF -> opcode < 65536 ->
  let plain := if size <=? 0x7FFF then [size / 256; size mod 256; opcode mod 256; opcode / 256]
               else [N.lor (size / 65536) 128; (size / 256) mod 256; size mod 256; opcode mod 256; opcode / 256] in
  exists r' buf' wire,
    tr_wrath_encrypt_server_header apply_view (se_rc4 se) (se_buf se) size opcode = Some ((r', buf'), wire) /\
    length wire = length plain /\
    xor_bytes wire (ks (se_rc4 se) (length wire)) = plain /\
    r' = adv (se_rc4 se) (length wire).
Proof. exact wrath_source_layout. Qed.

Print Assumptions C10_source_layout.
