(* C10 at source level: ServerEncrypterHalf::encrypt_server_header as TRANSLATED FROM
   src/wrath_header/encrypt.rs on this run, with InnerCrypto::apply as the external call.
   Only statements; every proof is `exact` of a lemma from proofs/steps/. *)
From WS Require Import lib.Bytes lib.Res lib.StepLoop Consts Steps spec.Rc4 model.Rc4 model.Wrath proofs.Rc4 proofs.Wrath proofs.steps.Wrath.
Local Open Scope N_scope.

Theorem C10_source_layout : forall se size opcode, wf_se se -> size <= 0x7FFFFF -> opcode < 65536 ->
  let plain := if size <=? 0x7FFF then [size / 256; size mod 256; opcode mod 256; opcode / 256]
               else [N.lor (size / 65536) 128; (size / 256) mod 256; size mod 256; opcode mod 256; opcode / 256] in
  exists r' buf' wire,
    tr_wrath_encrypt_server_header apply_view (se_rc4 se) (se_buf se) size opcode = Some ((r', buf'), wire) /\
    length wire = length plain /\
    xor_bytes wire (ks (se_rc4 se) (length wire)) = plain /\
    r' = adv (se_rc4 se) (length wire).
Proof. exact wrath_source_layout. Qed.

(* the decode side, as translated: the attempt on four wire bytes (decrypt first, then the marker test;
   the stash written on the long path only) and the completion with the fifth byte are the model's
   functions, which C10_decode_attempt and C10_sequence are about *)
Theorem C10_source_decode_is_model : forall h,
  length (cd_hdr h) = 4%nat ->
  (forall buf, length buf = 4%nat ->
     tr_wrath_attempt_decrypt_server_header apply_view (cd_rc4 h) (cd_hdr h) buf = attempt_view (attempt_decrypt_server_header h buf)) /\
  (forall byte,
     tr_wrath_decrypt_large_server_header apply_view (cd_rc4 h) (cd_hdr h) byte = large_view (decrypt_large_server_header h byte)).
Proof.
  intros h Hh. split; [intros buf Hb; apply wrath_attempt_translated; assumption | intro byte; apply wrath_decrypt_large_translated; exact Hh].
Qed.

(* the two header parsers: big-endian size (with the marker bit cleared on the long form), little-endian opcode *)
Theorem C10_source_parsers : forall b0 b1 b2 b3 b4,
  tr_wrath_from_small_array [b0; b1; b2; b3] = Some (b0 * 256 + b1, b2 + 256 * b3) /\
  tr_wrath_from_large_array [b0; b1; b2; b3; b4] = Some (N.land b0 127 * 65536 + b1 * 256 + b2, b3 + 256 * b4).
Proof. intros. split; [apply from_small_array_translated | apply from_large_array_translated]. Qed.

Print Assumptions C10_source_layout.
Print Assumptions C10_source_decode_is_model.
Print Assumptions C10_source_parsers.
