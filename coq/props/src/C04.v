(* C04 at source level: check_public_key as TRANSLATED FROM src/key.rs on this run. *)
From Coq Require Import ZArith.
From WS Require Import lib.Bytes lib.Res Consts Steps model.Bigint model.Key primes.NFacts proofs.Key proofs.steps.KeyCheck.

Theorem C04_source_check_iff : forall key, bytesn 32 key ->
  (tr_key_check_public_key key = Some (inl tt) <-> (le_to_Z key mod Nz <> 0)%Z).
Proof. exact key_source_check_iff. Qed.

Theorem C04_source_is_model : forall key,
  tr_key_check_public_key key = check_view (check_public_key key).
Proof. exact key_check_public_key_translated. Qed.

Print Assumptions C04_source_check_iff.
Print Assumptions C04_source_is_model.
