(* C04 at source level: check_public_key as TRANSLATED FROM src/key.rs on this run. *)
From Coq Require Import ZArith.
From WS Require Import lib.Bytes lib.Res Consts Steps model.Bigint model.Key primes.NFacts proofs.Key proofs.steps.KeyCheck.

Theorem C04_source_check_iff : forall key, bytesn 32 key ->
  (tr_key_check_public_key key = Some (inl tt) <-> (le_to_Z key mod Nz <> 0)%Z).
Proof. exact key_source_check_iff. Qed.

Theorem C04_source_is_model : forall key,
  tr_key_check_public_key key = check_view (check_public_key key).
Proof. exact key_check_public_key_translated. Qed.

(* PublicKey::from_le_bytes as translated: a 32-byte key is accepted, and handed back unchanged, exactly
   when it is not congruent to zero modulo N; otherwise the result is an error (never a panic) *)
Theorem C04_source_from_le_bytes_iff : forall key, bytesn 32 key ->
  (tr_key_public_from_le_bytes key = Some (inl key) <-> (le_to_Z key mod Nz <> 0)%Z) /\
  ((le_to_Z key mod Nz = 0)%Z -> exists e, tr_key_public_from_le_bytes key = Some (inr e)).
Proof.
  intros key Hk. rewrite key_public_from_le_bytes_translated. unfold pk_from_le_bytes.
  pose proof (check_iff key Hk) as [H1 H2]. split; [split|].
  - intro H. apply H1. destruct (check_public_key key) as [[]|e|]; [reflexivity|discriminate|discriminate].
  - intro H. rewrite (H2 H). reflexivity.
  - intro H0. destruct (check_public_key key) as [[]|e|] eqn:E.
    + exfalso. exact (H1 eq_refl H0).
    + exists e. reflexivity.
    + exfalso. destruct (check_cases key) as [[_ C]|[[_ C]|[_ [_ C]]]]; rewrite C in E; discriminate.
Qed.

(* the key each side generates for itself, as translated (the padded copy out of the big integer), on
   either back end: the server's own key already reduced mod N, the client's relative to the announced
   modulus *)
Theorem C04_source_own_keys : forall be z,
  (0 <= z < Nz -> z <> 0 -> tr_key_try_from_bigint be z = Some (inl (LE32 z)))%Z /\
  (0 <= z < Nz -> z = 0 -> tr_key_try_from_bigint be z = Some (inr PublicKeyIsZero))%Z /\
  (forall n', 0 < le_to_Z n' -> 0 <= z < 2 ^ 256 ->
     (z mod le_to_Z n' <> 0 -> tr_key_client_try_from_bigint be z n' = Some (inl (LE32 z))) /\
     (z = 0 -> tr_key_client_try_from_bigint be z n' = Some (inr PublicKeyIsZero)) /\
     (z <> 0 -> z mod le_to_Z n' = 0 -> tr_key_client_try_from_bigint be z n' = Some (inr PublicKeyModLargeSafePrimeIsZero)))%Z.
Proof.
  intros be z. split; [|split].
  - intros Hz Hnz. rewrite key_try_from_bigint_translated, (proj1 (try_from_bigint_spec be z Hz) Hnz). reflexivity.
  - intros Hz H0. rewrite key_try_from_bigint_translated, (proj2 (try_from_bigint_spec be z Hz) H0). reflexivity.
  - intros n' Hn Hz. destruct (client_try_from_bigint_spec be z n' Hn Hz) as (A & B & C). split; [|split].
    + intro H. rewrite key_client_try_from_bigint_translated, (A H). reflexivity.
    + intro H. rewrite key_client_try_from_bigint_translated, (B H). reflexivity.
    + intros H H'. rewrite key_client_try_from_bigint_translated, (C H H'). reflexivity.
Qed.

Print Assumptions C04_source_check_iff.
Print Assumptions C04_source_from_le_bytes_iff.
Print Assumptions C04_source_own_keys.
Print Assumptions C04_source_is_model.
