(* C02 at source level: SrpProof::into_server and SrpClientChallenge::verify_server_proof as TRANSLATED
   FROM src/server.rs / src/client.rs on this run. *)
From WS Require Import lib.Bytes lib.Res lib.Tape lib.Sha1 Consts Steps model.Bigint model.Srp model.Server model.Client
  proofs.steps.ApiIntoServer proofs.steps.ApiClientProof proofs.steps.Digests proofs.Srp proofs.Handshake.
Local Open Scope N_scope.

(* the server: whenever the session key can be computed, the presented proof is accepted exactly when
   it equals the proof determined by name, key, A, B and salt; on refusal the error carries
   (presented, expected), nothing is drawn and no session object exists; on acceptance the session
   carries the name, the key and a challenge drawn after the comparison, and M2 = H(A | M1 | K) *)
Theorem C02_source_server_iff : forall be u B salt b v A m t K,
  calculate_session_key be A B v b = Ok K ->
  let expected := calculate_client_proof u K A B salt in
  (m = expected ->
     tr_server_into_server be u B salt b v A m t =
     Some (inl ((u, K, firstn 16 t), sha1 (A ++ expected ++ K)), skipn 16 t)) /\
  (m <> expected ->
     tr_server_into_server be u B salt b v A m t = Some (inr (m, expected), t)).
Proof.
  intros be u B salt b v A m t K HK. cbv zeta. unfold tr_server_into_server. rewrite HK. split.
  - intros ->. rewrite list_eqb_refl. reflexivity.
  - intros Hne. destruct (list_eqb m (calculate_client_proof u K A B salt)) eqn:E; [|reflexivity].
    apply list_eqb_spec in E. contradiction.
Qed.

(* the client: M2 is accepted exactly when it is H(A | M1 | K); the error carries (computed, presented) *)
Theorem C02_source_client_iff : forall u K m1 A m,
  (m = sha1 (A ++ m1 ++ K) -> tr_client_verify_server_proof u K m1 A m = Some (inl (u, K))) /\
  (m <> sha1 (A ++ m1 ++ K) -> tr_client_verify_server_proof u K m1 A m = Some (inr (sha1 (A ++ m1 ++ K), m))).
Proof.
  intros u K m1 A m. unfold tr_client_verify_server_proof, calculate_server_proof. split.
  - intros ->. rewrite list_eqb_refl. reflexivity.
  - intros Hne. destruct (list_eqb m (sha1 (A ++ m1 ++ K))) eqn:E; [|reflexivity].
    apply list_eqb_spec in E. contradiction.
Qed.

(* what acceptance by the translated server means for whoever produced the proof: if the presented value is
   the translated calculate_client_proof of ANY (name, key, A, B, salt) - e.g. a client that typed another
   password and so derived another key - and the translated into_server accepts it, then all five values are
   the server's own, or an explicit SHA-1 collision has been exhibited *)
Theorem C02_source_accept_binds : forall be u B salt b v A m t K r t' U' K' A' B' salt',
  length salt = 32%nat -> length salt' = 32%nat -> length A = 32%nat -> length A' = 32%nat ->
  length B = 32%nat -> length B' = 32%nat ->
  calculate_session_key be A B v b = Ok K ->
  tr_srp_calculate_client_proof U' K' A' B' salt' = Some m ->
  tr_server_into_server be u B salt b v A m t = Some (inl r, t') ->
  (u = U' /\ salt = salt' /\ A = A' /\ B = B' /\ K = K') \/ proofs.Handshake.collision.
Proof.
  intros be u B salt b v A m t K r t' U' K' A' B' salt' Hs Hs' HA HA' HB HB' HK Hm Hacc.
  rewrite proofs.steps.Digests.calculate_client_proof_translated in Hm. injection Hm as <-.
  destruct (C02_source_server_iff be u B salt b v A (calculate_client_proof U' K' A' B' salt') t K HK) as [_ Hne].
  destruct (list_eqb (calculate_client_proof U' K' A' B' salt') (calculate_client_proof u K A B salt)) eqn:E.
  - apply list_eqb_spec in E. rewrite !proofs.Srp.client_proof_spec in E. symmetry in E.
    exact (proofs.Handshake.M1_binding _ _ _ _ _ _ _ _ _ _ _ _ Hs Hs' HA HA' HB HB' E).
  - exfalso. assert (Hd : calculate_client_proof U' K' A' B' salt' <> calculate_client_proof u K A B salt).
    { intro H. rewrite H, list_eqb_refl in E. discriminate. }
    rewrite (Hne Hd) in Hacc. discriminate.
Qed.

Print Assumptions C02_source_server_iff.
Print Assumptions C02_source_accept_binds.
Print Assumptions C02_source_client_iff.
