(* C02 at source level: SrpProof::into_server and SrpClientChallenge::verify_server_proof as TRANSLATED
   FROM src/server.rs / src/client.rs on this run. *)
From WS Require Import lib.Bytes lib.Res lib.Tape lib.Sha1 Consts Steps model.Bigint model.Srp model.Server model.Client
  proofs.steps.ApiIntoServer proofs.steps.ApiClientProof.
Local Open Scope N_scope.

(* the server: whenever the session key can be computed, the presented proof is accepted exactly when
   it equals the proof determined by name, key, A, B and salt; on refusal the error carries
   (presented, expected), nothing is drawn and no session object exists; on acceptance the session
   carries the name, the key and a challenge drawn after the comparison, and M2 = H(A | M1 | K) *)
Theorem C02_source_server_iff : forall be u B salt b v A m t K,
  calculate_session_key be A B v b = Ok K ->
  let expected := calculate_client_proof u K A B salt in
  (m = expected ->
     tr_server_into_server be u B salt b v A m t =
     Some (inl ((u, K, firstn 16 t), sha1 (A ++ expected ++ K)), skipn 16 t)) /\
  (m <> expected ->
     tr_server_into_server be u B salt b v A m t = Some (inr (m, expected), t)).
Proof.
  intros be u B salt b v A m t K HK. cbv zeta. unfold tr_server_into_server. rewrite HK. split.
  - intros ->. rewrite list_eqb_refl. reflexivity.
  - intros Hne. destruct (list_eqb m (calculate_client_proof u K A B salt)) eqn:E; [|reflexivity].
    apply list_eqb_spec in E. contradiction.
Qed.

(* the client: M2 is accepted exactly when it is H(A | M1 | K); the error carries (computed, presented) *)
Theorem C02_source_client_iff : forall u K m1 A m,
  (m = sha1 (A ++ m1 ++ K) -> tr_client_verify_server_proof u K m1 A m = Some (inl (u, K))) /\
  (m <> sha1 (A ++ m1 ++ K) -> tr_client_verify_server_proof u K m1 A m = Some (inr (sha1 (A ++ m1 ++ K), m))).
Proof.
  intros u K m1 A m. unfold tr_client_verify_server_proof, calculate_server_proof. split.
  - intros ->. rewrite list_eqb_refl. reflexivity.
  - intros Hne. destruct (list_eqb m (sha1 (A ++ m1 ++ K))) eqn:E; [|reflexivity].
    apply list_eqb_spec in E. contradiction.
Qed.

Print Assumptions C02_source_server_iff.
Print Assumptions C02_source_client_iff.
