(* C11 at source level: the typed header helpers of the Vanilla and TBC halves and the two header parsers
   as TRANSLATED FROM src/{vanilla,tbc}_header/{encrypt,decrypt,mod}.rs on this run, with the raw encrypt /
   decrypt of the half as the external call: each helper is ONE raw call on exactly the wire layout
   (big-endian size, little-endian opcode), so it returns the same bytes and leaves the same state. *)
From WS Require Import lib.Bytes lib.Res lib.StepLoop Consts Steps model.HeaderCipher model.HeaderIo
  proofs.steps.HelpersCommon proofs.steps.HelpersVanilla proofs.steps.HelpersTbc.
From WS Require model.Vanilla model.Tbc.
Local Open Scope N_scope.

Theorem C11_source_helpers_vanilla : forall h size opcode d4 d6, length d4 = 4%nat -> length d6 = 6%nat ->
  tr_vanilla_encrypt_server_header (fun h d => nview (V.encrypt h d)) h size opcode = nview (V.encrypt h (be16 size ++ le16 opcode)) /\
  tr_vanilla_encrypt_client_header (fun h d => nview (V.encrypt h d)) h size opcode = nview (V.encrypt h (be16 size ++ le32 opcode)) /\
  tr_vanilla_decrypt_server_header (fun h d => nview (V.decrypt h d)) h d4 = nview (V.decrypt_server_header h d4) /\
  tr_vanilla_decrypt_client_header (fun h d => nview (V.decrypt h d)) h d6 = nview (V.decrypt_client_header h d6).
Proof.
  intros h size opcode d4 d6 H4 H6.
  split; [exact (vanilla_encrypt_server_header_translated h size opcode)|].
  split; [exact (vanilla_encrypt_client_header_translated h size opcode)|].
  split; [exact (vanilla_decrypt_server_header_translated h d4 H4) | exact (vanilla_decrypt_client_header_translated h d6 H6)].
Qed.

Theorem C11_source_helpers_tbc : forall h size opcode d4 d6, length d4 = 4%nat -> length d6 = 6%nat ->
  tr_tbc_encrypt_server_header (fun h d => nview (T.encrypt h d)) h size opcode = nview (T.encrypt h (be16 size ++ le16 opcode)) /\
  tr_tbc_encrypt_client_header (fun h d => nview (T.encrypt h d)) h size opcode = nview (T.encrypt h (be16 size ++ le32 opcode)) /\
  tr_tbc_decrypt_server_header (fun h d => nview (T.decrypt h d)) h d4 = nview (t_decrypt_server_header h d4) /\
  tr_tbc_decrypt_client_header (fun h d => nview (T.decrypt h d)) h d6 = nview (t_decrypt_client_header h d6).
Proof.
  intros h size opcode d4 d6 H4 H6.
  split; [exact (tbc_encrypt_server_header_translated h size opcode)|].
  split; [exact (tbc_encrypt_client_header_translated h size opcode)|].
  split; [exact (tbc_decrypt_server_header_translated h d4 H4) | exact (tbc_decrypt_client_header_translated h d6 H6)].
Qed.

Print Assumptions C11_source_helpers_vanilla.
Print Assumptions C11_source_helpers_tbc.
