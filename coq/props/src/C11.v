(* C11 at source level: the typed header helpers of the Vanilla and TBC halves and the two header parsers
   as TRANSLATED FROM src/{vanilla,tbc}_header/{encrypt,decrypt,mod}.rs on this run, with the raw encrypt /
   decrypt of the half as the external call: each helper is ONE raw call on exactly the wire layout
   (big-endian size, little-endian opcode), so it returns the same bytes and leaves the same state. *)
From WS Require Import lib.Bytes lib.Res lib.StepLoop Consts Steps model.HeaderCipher model.HeaderIo
  lib.IoScript proofs.steps.HelpersCommon proofs.steps.HelpersVanilla proofs.steps.HelpersTbc proofs.steps.IoWrappers.
From WS Require Import model.Rc4 model.Wrath proofs.steps.Wrath proofs.steps.IoWrath.
From WS Require model.Vanilla model.Tbc.
Local Open Scope N_scope.

Theorem C11_source_helpers_vanilla : forall h size opcode d4 d6, length d4 = 4%nat -> length d6 = 6%nat ->
  tr_vanilla_encrypt_server_header (fun h d => nview (V.encrypt h d)) h size opcode = nview (V.encrypt h (be16 size ++ le16 opcode)) /\
  tr_vanilla_encrypt_client_header (fun h d => nview (V.encrypt h d)) h size opcode = nview (V.encrypt h (be16 size ++ le32 opcode)) /\
  tr_vanilla_decrypt_server_header (fun h d => nview (V.decrypt h d)) h d4 = nview (V.decrypt_server_header h d4) /\
  tr_vanilla_decrypt_client_header (fun h d => nview (V.decrypt h d)) h d6 = nview (V.decrypt_client_header h d6).
Proof.
  intros h size opcode d4 d6 H4 H6.
  split; [exact (vanilla_encrypt_server_header_translated h size opcode)|].
  split; [exact (vanilla_encrypt_client_header_translated h size opcode)|].
  split; [exact (vanilla_decrypt_server_header_translated h d4 H4) | exact (vanilla_decrypt_client_header_translated h d6 H6)].
Qed.

Theorem C11_source_helpers_tbc : forall h size opcode d4 d6, length d4 = 4%nat -> length d6 = 6%nat ->
  tr_tbc_encrypt_server_header (fun h d => nview (T.encrypt h d)) h size opcode = nview (T.encrypt h (be16 size ++ le16 opcode)) /\
  tr_tbc_encrypt_client_header (fun h d => nview (T.encrypt h d)) h size opcode = nview (T.encrypt h (be16 size ++ le32 opcode)) /\
  tr_tbc_decrypt_server_header (fun h d => nview (T.decrypt h d)) h d4 = nview (t_decrypt_server_header h d4) /\
  tr_tbc_decrypt_client_header (fun h d => nview (T.decrypt h d)) h d6 = nview (t_decrypt_client_header h d6).
Proof.
  intros h size opcode d4 d6 H4 H6.
  split; [exact (tbc_encrypt_server_header_translated h size opcode)|].
  split; [exact (tbc_encrypt_client_header_translated h size opcode)|].
  split; [exact (tbc_decrypt_server_header_translated h d4 H4) | exact (tbc_decrypt_client_header_translated h d6 H6)].
Qed.

(* The Read wrappers, as translated: when read_exact fails before the header is complete - whatever the
   offset, the error kind or the fragmentation that led there - the wrapper returns that error and the
   half is EXACTLY as it was: the cipher (any cipher: the statement holds for every raw function) is not
   even called.  When read_exact succeeds, the result is the typed helper on the bytes delivered. *)
Theorem C11_source_read_failure : forall (ST : Type) (ext : ST -> list N -> option (ST * list N)) (h : ST) s kd,
  (read_exact 4 s = Err kd ->
     tr_vanilla_read_and_decrypt_server_header ext h s = Some (h, inr kd, s) /\
     tr_tbc_read_and_decrypt_server_header ext h s = Some (h, inr kd, s)) /\
  (read_exact 6 s = Err kd ->
     tr_vanilla_read_and_decrypt_client_header ext h s = Some (h, inr kd, s) /\
     tr_tbc_read_and_decrypt_client_header ext h s = Some (h, inr kd, s)).
Proof.
  intros ST ext h s kd. split; intro E;
  unfold tr_vanilla_read_and_decrypt_server_header, tr_tbc_read_and_decrypt_server_header,
         tr_vanilla_read_and_decrypt_client_header, tr_tbc_read_and_decrypt_client_header;
  rewrite !repeat_length;
  [change (N.to_nat vanilla_server_header_length) with 4%nat; change (N.to_nat tbc_server_header_length) with 4%nat
  |change (N.to_nat vanilla_client_header_length) with 6%nat; change (N.to_nat tbc_client_header_length) with 6%nat];
  rewrite E; split; reflexivity.
Qed.

(* all eight wrappers are the model's functions (which the fragmentation / failure-offset / write-error
   theorems of props/C11.v are about) *)
Theorem C11_source_wrappers_are_model : forall hv ht s w size opcode,
  tr_vanilla_read_and_decrypt_server_header (fun h d => nview (V.decrypt h d)) hv s = rview (v_read_and_decrypt_server_header hv s) s /\
  tr_vanilla_read_and_decrypt_client_header (fun h d => nview (V.decrypt h d)) hv s = rview (v_read_and_decrypt_client_header hv s) s /\
  tr_vanilla_write_encrypted_server_header (fun h d => nview (V.encrypt h d)) hv ([], w) size opcode = wview (v_write_encrypted_server_header hv w size opcode) /\
  tr_vanilla_write_encrypted_client_header (fun h d => nview (V.encrypt h d)) hv ([], w) size opcode = wview (v_write_encrypted_client_header hv w size opcode) /\
  tr_tbc_read_and_decrypt_server_header (fun h d => nview (T.decrypt h d)) ht s = rview (t_read_and_decrypt_server_header ht s) s /\
  tr_tbc_read_and_decrypt_client_header (fun h d => nview (T.decrypt h d)) ht s = rview (t_read_and_decrypt_client_header ht s) s /\
  tr_tbc_write_encrypted_server_header (fun h d => nview (T.encrypt h d)) ht ([], w) size opcode = wview (t_write_encrypted_server_header ht w size opcode) /\
  tr_tbc_write_encrypted_client_header (fun h d => nview (T.encrypt h d)) ht ([], w) size opcode = wview (t_write_encrypted_client_header ht w size opcode).
Proof.
  intros.
  split; [apply vanilla_read_server_translated|]. split; [apply vanilla_read_client_translated|].
  split; [apply vanilla_write_server_translated|]. split; [apply vanilla_write_client_translated|].
  split; [apply tbc_read_server_translated|]. split; [apply tbc_read_client_translated|].
  split; [apply tbc_write_server_translated | apply tbc_write_client_translated].
Qed.

(* Wrath client: the Read wrapper for server headers, as translated.  A failure of the FIRST read leaves
   the half untouched (for every cipher function); the whole wrapper is the model's function, about
   which C11_wrath_fifth_byte_failure and C11_wrath_resume speak (after a failure while fetching the
   fifth byte the state is the one after the attempt, stash written, and the header can be completed) *)
Theorem C11_source_wrath_first_read_failure : forall (ST : Type) (ext : ST -> list N -> option (ST * list N)) (d : ST) hdr s kd,
  read_exact 4 s = Err kd ->
  tr_wrath_read_and_decrypt_server_header ext d hdr s = Some ((d, hdr), inr kd, s).
Proof.
  intros ST ext d hdr s kd E. unfold tr_wrath_read_and_decrypt_server_header.
  rewrite repeat_length. change (N.to_nat 4) with 4%nat. rewrite E. reflexivity.
Qed.

Theorem C11_source_wrath_read_is_model : forall h s, length (cd_hdr h) = 4%nat ->
  drop_reader (tr_wrath_read_and_decrypt_server_header apply_view (cd_rc4 h) (cd_hdr h) s)
  = wr_view (w_read_and_decrypt_server_header h s) s.
Proof. exact wrath_read_server_translated. Qed.

(* the remaining Wrath entry points are the model's functions: the Write wrappers hand the writer exactly
   the bytes the typed helper returns (4 or 5 for a server header, 6 for a client header) and return the
   writer's error; the server's Read wrapper reads 6 bytes before it touches the cipher *)
Theorem C11_source_wrath_wrappers_are_model : forall (ce : client_enc) (se : server_enc) (sd : server_dec) w s size opcode,
  length (se_buf se) = 5%nat ->
  tr_wrath_write_encrypted_client_header apply_view (ce_rc4 ce) ([], w) size opcode = wwview ce_rc4 (w_write_encrypted_client_header ce w size opcode) /\
  tr_wrath_write_encrypted_server_header apply_view (se_rc4 se) (se_buf se) ([], w) size opcode
    = wwview (fun h => (se_rc4 h, se_buf h)) (w_write_encrypted_server_header se w size opcode) /\
  tr_wrath_read_and_decrypt_client_header apply_view (sd_rc4 sd) s = srview (w_read_and_decrypt_client_header sd s) s.
Proof.
  intros ce se sd w s size opcode Hb.
  split; [apply wrath_write_client_translated|]. split; [apply wrath_write_server_translated; exact Hb | apply wrath_read_client_translated].
Qed.

Print Assumptions C11_source_helpers_vanilla.
Print Assumptions C11_source_wrath_wrappers_are_model.
Print Assumptions C11_source_wrath_first_read_failure.
Print Assumptions C11_source_wrath_read_is_model.
Print Assumptions C11_source_read_failure.
Print Assumptions C11_source_wrappers_are_model.
Print Assumptions C11_source_helpers_tbc.
