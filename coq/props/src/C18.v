(* C18 at source level: MatrixCard::get_number_at_coordinates and
   MatrixCardVerifier::get_matrix_coordinates as TRANSLATED FROM src/matrix_card.rs on this run.
   Only statements; every proof is `exact` of a lemma from proofs/steps/. *)
From WS Require Import lib.Bytes lib.Res lib.StepLoop Consts Steps spec.Select model.Arr model.MatrixCard model.MatrixProof spec.MatrixProof proofs.MatrixCard proofs.MatrixProof proofs.steps.Matrix proofs.steps.MatrixProof.
Local Open Scope N_scope.

(* the lookup returns the digits printed at row y, column x *)
Theorem C18_source_lookup : forall d w h data x y,
  1 <= d -> d < 256 -> w < 256 -> 1 <= w * h <= 255 -> length data = N.to_nat (d * h * w) -> x < w -> y < h ->
  exists cells cell,
    printer_cells {| c_digits := d; c_width := w; c_height := h; c_data := data |} = Ok cells /\
    tr_matrix_get_number_at_coordinates d w h data x y = Some cell /\
    nth_error cells (N.to_nat (y * w + x)) = Some cell /\
    cell = firstn (N.to_nat d) (skipn (N.to_nat ((y * w + x) * d)) data).
Proof. exact matrix_source_lookup. Qed.

(* round decoding: None from round = challenge_count on (never a panic when the table has at least
   challenge_count entries), otherwise (coordinate mod width, coordinate / width) *)
Theorem C18_source_round : forall cc h w coords round,
  tr_matrix_get_matrix_coordinates cc h w coords round = res_opt (get_matrix_coordinates cc w h coords round).
Proof. exact matrix_get_matrix_coordinates_translated. Qed.

(* the challenged cells, as computed by the translated generate_coordinates *)
Theorem C18_source_coordinates : forall w h count seed,
  1 <= w * h <= 255 -> 1 <= count <= w * h -> seed < 2 ^ 64 ->
  exists cs, tr_matrix_generate_coordinates w h count seed = Some cs /\
             cs = select (N.to_nat count) seed (iota (N.to_nat (w * h))) /\
             length cs = N.to_nat count /\ NoDup cs /\ Forall (fun c => c < w * h) cs.
Proof. exact matrix_source_coordinates. Qed.

(* the server-side check as TRANSLATED (MatrixCardVerifier::new with MD5 / HMAC objects, Rc4::new, the
   two loops, enter_value, into_proof): it never panics and returns true exactly when the presented proof
   is the proof of the digits of the cells printed at the challenged coordinates, in round order *)
Theorem C18_source_verify_iff : forall d w h data count seed K p,
  1 <= d -> d < 256 -> w < 256 -> 1 <= w * h <= 255 -> length data = N.to_nat (d * h * w) ->
  1 <= count <= w * h -> seed < 2 ^ 64 ->
  exists cells cs picked b,
    printer_cells {| c_digits := d; c_width := w; c_height := h; c_data := data |} = Ok cells /\
    tr_matrix_generate_coordinates w h count seed = Some cs /\
    Forall2 (fun co cell => nth_error cells (N.to_nat co) = Some cell) cs picked /\
    tr_matrix_verify_matrix_card_hash d w h data count seed K p = Some b /\
    (b = true <-> p = matrix_proof seed K (concat picked)).
Proof.
  intros d w h data count seed K p Hd Hd' Hw Hwh Hl Hc Hs.
  destruct (proofs.MatrixProof.verify_iff d w h data count seed K p Hd Hwh Hl Hc Hs) as (c & cells & cs & picked & b & Hfd & Hpc & Hg & Hf & Hv & Hb).
  assert (Ec : c = {| c_digits := d; c_width := w; c_height := h; c_data := data |}).
  { unfold from_data in Hfd. destruct (_ =? _)%N in Hfd; [|discriminate]. now injection Hfd as <-. }
  subst c. exists cells, cs, picked, b. split; [exact Hpc|]. split; [rewrite matrix_generate_coordinates_translated, Hg; reflexivity|].
  split; [exact Hf|]. split; [|exact Hb].
  pose proof (matrix_verify_matrix_card_hash_translated {| c_digits := d; c_width := w; c_height := h; c_data := data |} count seed K p Hd' Hw) as T.
  cbn [c_digits c_width c_height c_data] in T. rewrite T, Hv. reflexivity.
Qed.

(* what a user reads off the card: the translated printer (to_printer, then next until None) yields exactly
   the printed strings of the model, one per cell in row-major order, each digit in decimal; never a panic
   for digit_count >= 1 (digit_count = 0 is the known finding F5) *)
Theorem C18_source_printer : forall c, 1 <= c_digits c ->
  exists st, tr_matrix_to_printer (c_digits c) (c_width c) (c_height c) (c_data c) = Some st /\
             printer_strings c = Ok (match drain (S (length (c_data c))) st with Some r => r | None => [] end) /\
             drain (S (length (c_data c))) st <> None.
Proof. exact matrix_source_printer. Qed.

Print Assumptions C18_source_lookup.
Print Assumptions C18_source_printer.
Print Assumptions C18_source_verify_iff.
Print Assumptions C18_source_coordinates.
Print Assumptions C18_source_round.
