(* C17 at source level: the integrity functions as TRANSLATED FROM src/integrity.rs on this run. *)
From Coq Require Import List NArith.
From WS Require Import lib.Bytes lib.Res lib.Sha1 lib.Hmac Consts Steps proofs.steps.Integrity.
Import ListNotations.
Local Open Scope N_scope.

(* the three login checks depend only on the concatenation of the files, the salt and the key: any way
   of distributing the same bytes over the five arguments (or one buffer) gives the same 20 bytes,
   SHA1(key | HMAC-SHA1(salt, files)); no call can panic *)
Theorem C17_source_values : forall f1 f2 f3 f4 f5 salt key,
  tr_integrity_login_windows f1 f2 f3 f4 f5 salt key = Some (sha1 (key ++ hmac_sha1 salt (f1 ++ f2 ++ f3 ++ f4 ++ f5))) /\
  tr_integrity_login_mac f1 f2 f3 f4 f5 salt key = Some (sha1 (key ++ hmac_sha1 salt (f1 ++ f2 ++ f3 ++ f4 ++ f5))) /\
  tr_integrity_login_generic (f1 ++ f2 ++ f3 ++ f4 ++ f5) salt key = Some (sha1 (key ++ hmac_sha1 salt (f1 ++ f2 ++ f3 ++ f4 ++ f5))).
Proof. exact integrity_source_values. Qed.

Theorem C17_source_split_invariant : forall f1 f2 f3 f4 f5 g1 g2 g3 g4 g5 salt key,
  f1 ++ f2 ++ f3 ++ f4 ++ f5 = g1 ++ g2 ++ g3 ++ g4 ++ g5 ->
  tr_integrity_login_windows f1 f2 f3 f4 f5 salt key = tr_integrity_login_windows g1 g2 g3 g4 g5 salt key /\
  tr_integrity_login_mac f1 f2 f3 f4 f5 salt key = tr_integrity_login_windows g1 g2 g3 g4 g5 salt key /\
  tr_integrity_login_generic (f1 ++ f2 ++ f3 ++ f4 ++ f5) salt key = tr_integrity_login_windows g1 g2 g3 g4 g5 salt key.
Proof.
  intros f1 f2 f3 f4 f5 g1 g2 g3 g4 g5 salt key E.
  destruct (integrity_source_values f1 f2 f3 f4 f5 salt key) as (A & B & C).
  destruct (integrity_source_values g1 g2 g3 g4 g5 salt key) as (A' & _ & _).
  rewrite A, B, C, A', E. repeat split.
Qed.

Theorem C17_source_reconnect : forall salt, tr_integrity_reconnect salt = Some (sha1 (salt ++ repeat 0 20)).
Proof. exact integrity_source_reconnect. Qed.

Print Assumptions C17_source_values.
Print Assumptions C17_source_split_invariant.
Print Assumptions C17_source_reconnect.
