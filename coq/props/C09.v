(* C09 — Wrath streams are RC4-drop1024 under direction-specific HMAC-SHA1 keys.
   Only statements; every proof is `exact` of a lemma from proofs/.
   [adv r n] / [ks r n] (proofs/Rc4.v) are the model's own state after n bytes and its next n
   keystream bytes (what apply_keystream does to n zero bytes); [rc4_inv] is
   length state = 256, state bytes < 256, i < 256, j < 256. *)
From WS Require Import lib.Bytes lib.Res lib.Calls lib.Hmac Consts spec.Rc4 model.Rc4 model.Wrath
  proofs.Rc4 proofs.Wrath.
Local Open Scope N_scope.

(* Rc4::new never panics, for any key (the empty key leaves the identity permutation) *)
Theorem C09_rc4_new_total : forall key, exists r, rc4_new key = Ok r /\ rc4_inv r.
Proof. exact rc4_new_ok. Qed.

Theorem C09_rc4_new_empty_key : rc4_new [] = Ok {| st := identity_state; ri := 0; rj := 0 |}.
Proof. exact rc4_new_empty. Qed.

(* from ANY state with a 256-byte array, apply_keystream returns, keeps the invariant and the length *)
Theorem C09_rc4_inv : forall r xs, rc4_inv r ->
  exists r' o, apply_keystream r xs = Ok (r', o) /\ rc4_inv r' /\ length o = length xs /\ (bytes xs -> bytes o).
Proof. exact apply_ok. Qed.

(* For every non-empty key the model is textbook RC4: after any prefix [pre] the state satisfies the
   invariant, the next keystream bytes are bytes |pre| .. of the textbook keystream, and the output
   on [data] is data xor those bytes.  No panic anywhere (all results are Ok). *)
Theorem C09_rc4_refines_spec : forall key, key <> [] ->
  exists r0, rc4_new key = Ok r0 /\ rc4_inv r0 /\
  forall pre data, exists r1 r2,
    apply_keystream r0 pre = Ok (r1, rc4_crypt key 0 pre) /\ rc4_inv r1 /\
    ks r1 (length data) = keystream_from key (length pre) (length data) /\
    apply_keystream r1 data = Ok (r2, rc4_crypt key (length pre) data) /\ rc4_inv r2 /\
    r2 = adv r0 (length pre + length data).
Proof. exact rc4_refines_spec. Qed.

(* Any partition of a stream into calls equals one call on the concatenation; the output is the
   stream xor the keystream; the final state is [adv r (byte count)], whatever the bytes and the
   partition were. *)
Theorem C09_apply_calls : forall r chunks, rc4_inv r ->
  run_calls apply_keystream r chunks = apply_keystream r (concat chunks) /\
  apply_keystream r (concat chunks) =
    Ok (adv r (length (concat chunks)), xor_bytes (concat chunks) (ks r (length (concat chunks)))) /\
  rc4_inv (adv r (length (concat chunks))) /\
  (forall chunks', length (concat chunks') = length (concat chunks) ->
     exists o', run_calls apply_keystream r chunks' = Ok (adv r (length (concat chunks)), o')).
Proof. exact apply_calls. Qed.

(* Each of the four halves, freshly created from K, outputs  data xor keystream bytes
   1024 .. 1024+|data|  of RC4 keyed with HMAC-SHA1(key = direction constant, message = K),
   for any partition of the data into calls. *)
Theorem C09_stream_is_drop1024 : forall K chunks,
  (exists h h', client_enc_new K = Ok h /\
     run_calls ce_encrypt h chunks = Ok (h', rc4_crypt (hmac_sha1 Consts.wrath_S K) 1024 (concat chunks))) /\
  (exists h h', server_dec_new K = Ok h /\
     run_calls sd_decrypt h chunks = Ok (h', rc4_crypt (hmac_sha1 Consts.wrath_S K) 1024 (concat chunks))) /\
  (exists h h', server_enc_new K = Ok h /\
     run_calls se_encrypt h chunks = Ok (h', rc4_crypt (hmac_sha1 Consts.wrath_R K) 1024 (concat chunks))) /\
  (exists h h', client_dec_new K = Ok h /\
     run_calls cd_decrypt h chunks = Ok (h', rc4_crypt (hmac_sha1 Consts.wrath_R K) 1024 (concat chunks))).
Proof. exact stream_is_drop1024. Qed.

(* The two ends of each direction start in the same cipher state, keyed by that direction's
   constant, and the two constants differ. *)
Theorem C09_pairing : forall K,
  (exists r, client_enc_new K = Ok {| ce_rc4 := r |} /\ server_dec_new K = Ok {| sd_rc4 := r |} /\
             inner_new K Consts.wrath_S = Ok r /\ rc4_inv r) /\
  (exists r, server_enc_new K = Ok {| se_rc4 := r; se_buf := [0;0;0;0;0] |} /\
             client_dec_new K = Ok {| cd_rc4 := r; cd_hdr := [0;0;0;0] |} /\
             inner_new K Consts.wrath_R = Ok r /\ rc4_inv r) /\
  Consts.wrath_S <> Consts.wrath_R.
Proof. exact pairing. Qed.

(* Per direction: sender and receiver chunk independently; the receiver recovers the plaintext and
   the two cipher states are equal afterwards. *)
Theorem C09_roundtrip : forall K xs cs1 cs2, concat cs1 = xs ->
  (concat cs2 = rc4_crypt (hmac_sha1 Consts.wrath_S K) 1024 xs ->
   exists he hd he' hd', client_enc_new K = Ok he /\ server_dec_new K = Ok hd /\
     run_calls ce_encrypt he cs1 = Ok (he', rc4_crypt (hmac_sha1 Consts.wrath_S K) 1024 xs) /\
     run_calls sd_decrypt hd cs2 = Ok (hd', xs) /\ sd_rc4 hd' = ce_rc4 he') /\
  (concat cs2 = rc4_crypt (hmac_sha1 Consts.wrath_R K) 1024 xs ->
   exists he hd he' hd', server_enc_new K = Ok he /\ client_dec_new K = Ok hd /\
     run_calls se_encrypt he cs1 = Ok (he', rc4_crypt (hmac_sha1 Consts.wrath_R K) 1024 xs) /\
     run_calls cd_decrypt hd cs2 = Ok (hd', xs) /\ cd_rc4 hd' = se_rc4 he').
Proof. exact roundtrip. Qed.

(* the same from ANY two halves whose cipher states are equal (not only fresh ones) *)
Theorem C09_roundtrip_instep_c2s : forall he hd xs cs1 cs2,
  ce_rc4 he = sd_rc4 hd -> rc4_inv (ce_rc4 he) -> concat cs1 = xs ->
  exists he' ys, run_calls ce_encrypt he cs1 = Ok (he', ys) /\ length ys = length xs /\
    (concat cs2 = ys -> exists hd', run_calls sd_decrypt hd cs2 = Ok (hd', xs) /\ sd_rc4 hd' = ce_rc4 he' /\
                                    rc4_inv (sd_rc4 hd')).
Proof. exact roundtrip_c2s. Qed.

Theorem C09_roundtrip_instep_s2c : forall he hd xs cs1 cs2,
  se_rc4 he = cd_rc4 hd -> rc4_inv (se_rc4 he) -> concat cs1 = xs ->
  exists he' ys, run_calls se_encrypt he cs1 = Ok (he', ys) /\ length ys = length xs /\
    (concat cs2 = ys -> exists hd', run_calls cd_decrypt hd cs2 = Ok (hd', xs) /\ cd_rc4 hd' = se_rc4 he' /\
                                    rc4_inv (cd_rc4 hd')).
Proof. exact roundtrip_s2c. Qed.

(* constructors and raw encrypt / decrypt never panic: any K (any length), any data, any state
   satisfying the invariant *)
Theorem C09_new_no_panic : forall K,
  exists ce sd se cd, client_enc_new K = Ok ce /\ server_dec_new K = Ok sd /\
    server_enc_new K = Ok se /\ client_dec_new K = Ok cd /\
    rc4_inv (ce_rc4 ce) /\ rc4_inv (sd_rc4 sd) /\ wf_se se /\ wf_cd cd /\
    exists cc sc, client_crypto_new K = Ok cc /\ cc_split cc = (ce, cd) /\
                  server_crypto_new K = Ok sc /\ sc_split sc = (se, sd).
Proof. exact new_no_panic. Qed.

Theorem C09_stream_no_panic : forall data,
  (forall h, rc4_inv (ce_rc4 h) -> exists h' out, ce_encrypt h data = Ok (h', out) /\
      rc4_inv (ce_rc4 h') /\ length out = length data) /\
  (forall h, rc4_inv (sd_rc4 h) -> exists h' out, sd_decrypt h data = Ok (h', out) /\
      rc4_inv (sd_rc4 h') /\ length out = length data) /\
  (forall h, wf_se h -> exists h' out, se_encrypt h data = Ok (h', out) /\ wf_se h' /\ length out = length data) /\
  (forall h, wf_cd h -> exists h' out, cd_decrypt h data = Ok (h', out) /\ wf_cd h' /\ length out = length data /\
      cd_hdr h' = cd_hdr h).
Proof. exact stream_no_panic. Qed.

(* non-vacuity: RFC 6229 (key 0102030405, offset 0) through the spec and through the model over a
   chunking with an empty call *)
Example C09_nonvacuous :
  keystream [1;2;3;4;5] 16 = [0xb2;0x39;0x63;0x05;0xf0;0x3d;0xc0;0x27;0xcc;0xc3;0x52;0x4a;0x0a;0x11;0x18;0xa8] /\
  match rc4_new [1;2;3;4;5] with
  | Ok r => match run_calls apply_keystream r [[0;0;0]; []; repeat 0 13] with Ok (_, o) => o | _ => [] end
  | _ => []
  end = [0xb2;0x39;0x63;0x05;0xf0;0x3d;0xc0;0x27;0xcc;0xc3;0x52;0x4a;0x0a;0x11;0x18;0xa8].
Proof. split; vm_compute; reflexivity. Qed.

Print Assumptions C09_rc4_new_total.
Print Assumptions C09_rc4_new_empty_key.
Print Assumptions C09_rc4_inv.
Print Assumptions C09_rc4_refines_spec.
Print Assumptions C09_apply_calls.
Print Assumptions C09_stream_is_drop1024.
Print Assumptions C09_pairing.
Print Assumptions C09_roundtrip.
Print Assumptions C09_roundtrip_instep_c2s.
Print Assumptions C09_roundtrip_instep_s2c.
Print Assumptions C09_new_no_panic.
Print Assumptions C09_stream_no_panic.
