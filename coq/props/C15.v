(* C15 — every ephemeral secret, salt, challenge and seed is freshly random per use.
   PARTIAL by nature: what a proof can say is the DATA FLOW of the drawn bytes - how many are
   drawn by each documented call, in which order, where they end up, that nothing is cached and
   nothing else in any output depends on the tape.  The statistical quality of rand::thread_rng
   is tested by the harness, not proved. *)
From WS Require Import lib.Bytes lib.Res lib.Tape Consts model.Bigint model.Key model.Srp model.Server model.Client
  model.WorldProof model.Random model.Integrity spec.Srp6 proofs.Srp proofs.Handshake proofs.Login proofs.WorldProof proofs.Random primes.NFacts.
From Coq Require Import ZifyN ZifyNat ZifyBool.
Local Open Scope N_scope.

(* registration: the salt IS the next 32 tape bytes; the verifier depends on them only through x *)
Theorem C15_registration : forall U P t,
  exists v, from_username_and_password Default U P t =
            Ok ({| vf_user := U; vf_v := v; vf_salt := fst (draw 32 t) |}, snd (draw 32 t)).
Proof.
  intros. unfold from_username_and_password. change (N.to_nat salt_length) with 32%nat.
  unfold draw. unfold with_specific_salt. rewrite verifier_spec. eexists. reflexivity.
Qed.

(* into_proof: the private key b IS the next 32 bytes (kept in the proof object), nothing else drawn *)
Theorem C15_server_private_key : forall vf t pr t',
  into_proof Default vf t = Ok (pr, t') -> pr_b pr = fst (draw 32 t) /\ t' = snd (draw 32 t).
Proof.
  intros vf t pr t' H. unfold into_proof in H. change (N.to_nat private_key_length) with 32%nat in H.
  unfold draw in *. cbn [fst snd]. unfold with_specific_private_key in H.
  destruct (calculate_server_public_key Default (vf_v vf) (firstn 32 t)); inversion H; subst. split; reflexivity.
Qed.

(* client: a IS the next 32 bytes; A = g^a mod N is a function of exactly those bytes *)
Theorem C15_client_private_key : forall U P B salt t,
  exists cl, client_new Default U P generator n_le B salt t = Ok (cl, snd (draw 32 t)) /\
             cc_A cl = honest_A (fst (draw 32 t)).
Proof. intros. destruct (client_new_total U P B salt t) as (cl & H & HA & _). exists cl. auto. Qed.

(* login: the reconnect challenge IS the next 16 bytes, drawn only when the proof is accepted;
   a refused proof draws nothing *)
Theorem C15_login_challenge : forall pr A m t, length A = 32%nat ->
  (m = server_M1 pr A -> exists srv m2, into_server Default pr A m t = Ok (srv, m2, snd (draw 16 t)) /\ ss_chal srv = fst (draw 16 t)) /\
  (m <> server_M1 pr A -> exists e, into_server Default pr A m t = Err e).
Proof.
  intros pr A m t HA. rewrite into_server_spec by exact HA. split; intros H.
  - subst m. rewrite list_eqb_refl. eexists; eexists. split; reflexivity.
  - apply list_eqb_neq in H. rewrite H. eexists; reflexivity.
Qed.

(* every reconnect attempt, accepted or not, replaces the challenge by the next 16 bytes *)
Theorem C15_reconnect_refresh : forall s cd pf t,
  let '(_, s', t') := verify_reconnection_attempt s cd pf t in
  ss_chal s' = fst (draw 16 t) /\ t' = snd (draw 16 t).
Proof. intros. rewrite verify_step. split; reflexivity. Qed.

(* the client's reconnect challenge IS the next 16 bytes, per call *)
Theorem C15_client_challenge : forall c sd t,
  fst (fst (calculate_reconnect_values c sd t)) = fst (draw 16 t) /\ snd (calculate_reconnect_values c sd t) = snd (draw 16 t).
Proof. intros. split; reflexivity. Qed.

(* u32 / u64 seeds: all 4 (8) drawn bytes, little-endian, no masking or reduction; salts verbatim *)
Theorem C15_seeds : forall t,
  proof_seed_new t = (le_to_N (fst (draw 4 t)), snd (draw 4 t)) /\
  get_pin_grid_seed t = (le_to_N (fst (draw 4 t)), snd (draw 4 t)) /\
  get_matrix_card_seed t = (le_to_N (fst (draw 8 t)), snd (draw 8 t)) /\
  get_pin_salt t = draw 16 t /\ get_integrity_salt t = draw 16 t /\ Integrity.get_salt_value t = draw 16 t.
Proof. intros. repeat split; reflexivity. Qed.

(* the little-endian reading is injective on the drawn bytes: every byte of the draw matters *)
Theorem C15_seed_injective : forall a b, bytes a -> bytes b -> length a = length b -> le_to_N a = le_to_N b -> a = b.
Proof.
  intros a b Ha Hb Hl E. rewrite <- (le_to_N_to_le a Ha), <- (le_to_N_to_le b Hb), Hl, E. reflexivity.
Qed.

(* draws are consecutive and disjoint: splitting the tape by any list of widths loses and repeats nothing *)
Fixpoint draws (ws : list nat) (t : tape) : list (list N) * tape :=
  match ws with [] => ([], t) | w :: r => let '(x, t') := draw w t in let '(xs, t'') := draws r t' in (x :: xs, t'') end.
Theorem C15_tape_linear : forall ws t, concat (fst (draws ws t)) ++ snd (draws ws t) = t.
Proof.
  induction ws as [|w r IH]; intros t; cbn [draws]; [reflexivity|].
  unfold draw. specialize (IH (skipn w t)). destruct (draws r (skipn w t)) as [xs t''].
  cbn [fst snd concat] in *. rewrite <- app_assoc, IH. apply firstn_skipn.
Qed.

(* card digits: the rejection sampler returns a digit 0..9 for EVERY 32-bit word it accepts, and the
   whole card stays within 0..9 and consumes whole 4-byte words only *)
Theorem C15_digit_range : forall fuel t d t', bytes t ->
  uniform_sample fuel 0 10 6 t = Some (d, t') -> d < 10 /\ exists k, t' = skipn (4 * k) t.
Proof. exact uniform_sample_range. Qed.

Theorem C15_card_digits : forall n t ds t', bytes t ->
  fill_matrix_card_values n t = Some (ds, t') -> length ds = n /\ Forall (fun d => d < 10) ds.
Proof. exact fill_range. Qed.

Print Assumptions C15_registration.
Print Assumptions C15_server_private_key.
Print Assumptions C15_client_private_key.
Print Assumptions C15_login_challenge.
Print Assumptions C15_reconnect_refresh.
Print Assumptions C15_client_challenge.
Print Assumptions C15_seeds.
Print Assumptions C15_seed_injective.
Print Assumptions C15_tape_linear.
Print Assumptions C15_digit_range.
Print Assumptions C15_card_digits.
