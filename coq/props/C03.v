(* C03 — every handshake value is byte-exact WoW SRP6, for any announced group. *)
From WS Require Import lib.Bytes lib.Res lib.Tape lib.Sha1 Consts model.Bigint model.Key model.Srp model.Server model.Client
  spec.Srp6 proofs.Srp proofs.Handshake proofs.Login primes.NFacts.
Local Open Scope Z_scope.
Local Opaque sha1.

Theorem C03_verifier : forall U P salt,
  calculate_password_verifier Default U P salt = Ok (LE32 (sp_v 7 Nz (sp_x U P salt))).
Proof. exact verifier_spec. Qed.

Theorem C03_server_B : forall v b,
  let B := sp_B 3 7 Nz (le_to_Z v) (le_to_Z b) in
  (B <> 0 -> calculate_server_public_key Default v b = Ok (LE32 B)) /\
  (B = 0 -> calculate_server_public_key Default v b = Err PublicKeyIsZero).
Proof. exact server_public_key_spec. Qed.

Theorem C03_u : forall A B, le_to_Z (calculate_u A B) = sp_u A B.
Proof. exact calculate_u_value. Qed.

Theorem C03_server_S : forall A v u b,
  calculate_S Default A v u b = Ok (LE32 (sp_S_server Nz (le_to_Z A) (le_to_Z v) (le_to_Z u) (le_to_Z b))).
Proof. exact S_spec. Qed.

(* every 32-byte secret, i.e. every count 0..32 of low-order zero bytes, zero included *)
Theorem C03_interleave : forall s, length s = 32%nat -> calculate_interleaved s = Ok (interleave (strip s)).
Proof. exact calculate_interleaved_spec. Qed.

Theorem C03_session_key : forall A B v b, length A = 32%nat ->
  calculate_session_key Default A B v b =
  Ok (sp_K (sp_S_server Nz (le_to_Z A) (le_to_Z v) (sp_u A B) (le_to_Z b))).
Proof. exact session_key_spec. Qed.

(* the precomputed constant is H(N) xor H(g) of the built-in pair (closed SHA-1 computation) *)
Theorem C03_xor_hash : xor_hash = calculate_xor_hash n_le generator /\
  forall n g, calculate_xor_hash n g = xor_bytes (sha1 n) (sha1 [g]).
Proof. split; [exact xor_hash_correct | reflexivity]. Qed.

Theorem C03_M1_builtin : forall U K A B salt,
  calculate_client_proof U K A B salt = sp_M1 generator n_le U salt A B K.
Proof. exact client_proof_spec. Qed.

Theorem C03_M2 : forall A M1 K, calculate_server_proof A M1 K = sp_M2 A M1 K.
Proof. exact server_proof_spec. Qed.

(* client, ANY announced generator and ANY modulus 0 < N' < 2^256 (primality not needed) *)
Theorem C03_client_A : forall a g n', 0 < le_to_Z n' -> le_to_Z n' < 2 ^ 256 ->
  let A := sp_A (Z.of_N g) (le_to_Z n') (le_to_Z a) in
  (A <> 0 -> calculate_client_public_key Default a g n' = Ok (LE32 A)) /\
  (A = 0 -> calculate_client_public_key Default a g n' = Err PublicKeyIsZero).
Proof. exact client_public_key_spec. Qed.

Theorem C03_client_S : forall B x a u g n', 0 < le_to_Z n' -> le_to_Z n' < 2 ^ 256 ->
  calculate_client_S Default B x a u g n' =
  Ok (LE32 (sp_S_client 3 (Z.of_N g) (le_to_Z n') (le_to_Z B) (le_to_Z x) (le_to_Z a) (le_to_Z u))).
Proof. exact client_S_spec. Qed.

Theorem C03_client_M1 : forall U K A B salt n' g,
  calculate_client_proof_with_custom_value U K A B salt n' g = sp_M1 g n' U salt A B K.
Proof. exact client_proof_custom_spec. Qed.

(* the values that leave the public typestate API, as functions of (U, P, announced group, tape) *)
Theorem C03_public_api_client : forall U P g n' B salt t, 0 < le_to_Z n' -> le_to_Z n' < 2 ^ 256 ->
  let a := fst (draw 32 t) in
  let Az := sp_A (Z.of_N g) (le_to_Z n') (le_to_Z a) in
  (Az <> 0 ->
     client_new Default U P g n' B salt t =
     Ok ({| cc_user := U;
            cc_M1 := sp_M1 g n' U salt (LE32 Az) B (client_K U P g n' B salt a (LE32 Az));
            cc_A := LE32 Az;
            cc_K := client_K U P g n' B salt a (LE32 Az) |}, snd (draw 32 t))) /\
  (Az = 0 -> client_new Default U P g n' B salt t = Panic).
Proof. exact client_new_spec. Qed.

Theorem C03_public_api_server : forall pr A m t, length A = 32%nat ->
  into_server Default pr A m t =
  if list_eqb m (server_M1 pr A)
  then Ok ({| ss_user := pr_user pr; ss_K := server_K pr A; ss_chal := fst (draw 16 t) |},
           sp_M2 A (server_M1 pr A) (server_K pr A), snd (draw 16 t))
  else Err {| me_client_proof := m; me_server_proof := server_M1 pr A |}.
Proof. exact into_server_spec. Qed.

(* non-vacuity: the test-suite vector of src/server.rs (user "A"/"A", known salt and b) *)
Example C03_known_vector :
  let salt := unhex "3c817155ed2215bf1623b08ae339977c294e590a39c8f64e9fea0bb3131e7765"%hex in
  let b := rev (unhex "291BD2A76AAB9E7CDD702AFE1D07FDB316158BC2E4218FFDC32989AD3AF5026E"%hex) in
  match calculate_password_verifier Default [65%N] [65%N] salt with
  | Ok v => calculate_server_public_key Default v b =
            Ok (rev (unhex "13ed2108a7c50c4aa451c05e3c8ba779c2201a9dbccc0841041c2466c5e24000"%hex))
  | _ => False
  end.
Proof. vm_compute. reflexivity. Qed.

Print Assumptions C03_verifier.
Print Assumptions C03_server_B.
Print Assumptions C03_u.
Print Assumptions C03_server_S.
Print Assumptions C03_interleave.
Print Assumptions C03_session_key.
Print Assumptions C03_xor_hash.
Print Assumptions C03_M1_builtin.
Print Assumptions C03_M2.
Print Assumptions C03_client_A.
Print Assumptions C03_client_S.
Print Assumptions C03_client_M1.
Print Assumptions C03_public_api_client.
Print Assumptions C03_public_api_server.
