(* C17 — integrity hashes depend only on the concatenated files, salt and key. *)
From WS Require Import lib.Bytes lib.Res lib.Sha1 lib.Hmac Consts model.Integrity proofs.Handshake proofs.Integrity.
Local Open Scope N_scope.

(* integrity_spec files salt key = SHA-1(key | HMAC-SHA1(salt, files)) *)
Theorem C17_windows : forall f1 f2 f3 f4 f5 salt key,
  login_integrity_check_windows f1 f2 f3 f4 f5 salt key = sha1 (key ++ hmac_sha1 salt (f1 ++ f2 ++ f3 ++ f4 ++ f5)).
Proof. exact windows_spec. Qed.
Theorem C17_mac : forall f1 f2 f3 f4 f5 salt key,
  login_integrity_check_mac f1 f2 f3 f4 f5 salt key = sha1 (key ++ hmac_sha1 salt (f1 ++ f2 ++ f3 ++ f4 ++ f5)).
Proof. exact mac_spec. Qed.
Theorem C17_generic : forall files salt key,
  login_integrity_check_generic files salt key = sha1 (key ++ hmac_sha1 salt files).
Proof. exact generic_spec. Qed.

(* any way of distributing the same bytes over the five arguments, or one buffer: same 20 bytes *)
Theorem C17_split_invariant : forall f1 f2 f3 f4 f5 g1 g2 g3 g4 g5 salt key,
  f1 ++ f2 ++ f3 ++ f4 ++ f5 = g1 ++ g2 ++ g3 ++ g4 ++ g5 ->
  login_integrity_check_windows f1 f2 f3 f4 f5 salt key = login_integrity_check_windows g1 g2 g3 g4 g5 salt key /\
  login_integrity_check_mac f1 f2 f3 f4 f5 salt key = login_integrity_check_windows g1 g2 g3 g4 g5 salt key /\
  login_integrity_check_generic (f1 ++ f2 ++ f3 ++ f4 ++ f5) salt key = login_integrity_check_windows g1 g2 g3 g4 g5 salt key.
Proof. exact split_invariant. Qed.

Theorem C17_reconnect : forall salt, reconnect_integrity_check salt = sha1 (salt ++ repeat 0 20).
Proof. exact reconnect_spec. Qed.

(* changing any byte of the files, the salt or the key changes the result, or exhibits a SHA-1 collision *)
Theorem C17_binding : forall files salt key files' salt' key',
  length salt = 16%nat -> length salt' = 16%nat -> length key = 32%nat -> length key' = 32%nat ->
  integrity_spec files salt key = integrity_spec files' salt' key' ->
  (files = files' /\ salt = salt' /\ key = key') \/ collision.
Proof. exact integrity_binding. Qed.

Theorem C17_length : forall files salt key, length (login_integrity_check_generic files salt key) = 20%nat.
Proof. intros. rewrite generic_spec. apply sha1_length. Qed.

Print Assumptions C17_windows.
Print Assumptions C17_mac.
Print Assumptions C17_generic.
Print Assumptions C17_split_invariant.
Print Assumptions C17_reconnect.
Print Assumptions C17_binding.
Print Assumptions C17_length.
