(* C04 — public keys are refused exactly when they are congruent to zero modulo N. *)
From WS Require Import lib.Bytes lib.Res Consts model.Bigint model.Key model.LegacyKey primes.NFacts proofs.Key.
Local Open Scope Z_scope.

(* of the 2^256 encodings exactly those congruent to 0 mod N are refused ... *)
Theorem C04_check_iff : forall key, bytesn 32 key ->
  (check_public_key key = Ok tt <-> le_to_Z key mod Nz <> 0).
Proof. exact check_iff. Qed.

(* ... and these are exactly two: zero and N itself (2N does not fit in 32 bytes) *)
Theorem C04_only_two : forall key, bytesn 32 key ->
  (le_to_Z key mod Nz = 0 <-> key = zeros32 \/ key = n_le).
Proof. exact only_two. Qed.

(* each with its own error kind, and nothing else is ever refused *)
Theorem C04_error_kinds :
  check_public_key zeros32 = Err PublicKeyIsZero /\
  check_public_key n_le = Err PublicKeyModLargeSafePrimeIsZero.
Proof. exact error_kinds. Qed.

Theorem C04_cases : forall key,
  (key = zeros32 /\ check_public_key key = Err PublicKeyIsZero) \/
  (key = n_le /\ check_public_key key = Err PublicKeyModLargeSafePrimeIsZero) \/
  (key <> zeros32 /\ key <> n_le /\ check_public_key key = Ok tt).
Proof. exact check_cases. Qed.

(* an accepted key is handed back unchanged; a refused one yields the checker's error *)
Theorem C04_roundtrip : forall key,
  (check_public_key key = Ok tt -> pk_from_le_bytes key = Ok key) /\
  (forall e, check_public_key key = Err e -> pk_from_le_bytes key = Err e).
Proof. intros key; split; [apply from_le_bytes_roundtrip | intros e; apply from_le_bytes_err]. Qed.

(* the key the server generates for itself (a value already reduced mod N), either back end *)
Theorem C04_server_own_key : forall be z, 0 <= z < Nz ->
  (z <> 0 -> pk_try_from_bigint be z = Ok (LE32 z)) /\
  (z = 0 -> pk_try_from_bigint be z = Err PublicKeyIsZero).
Proof. exact try_from_bigint_spec. Qed.

(* the client's own key relative to whatever modulus the server announced *)
Theorem C04_client_own_key : forall be z n', 0 < le_to_Z n' -> 0 <= z < 2 ^ 256 ->
  (z mod le_to_Z n' <> 0 -> pk_client_try_from_bigint be z n' = Ok (LE32 z)) /\
  (z = 0 -> pk_client_try_from_bigint be z n' = Err PublicKeyIsZero) /\
  (z <> 0 -> z mod le_to_Z n' = 0 -> pk_client_try_from_bigint be z n' = Err PublicKeyModLargeSafePrimeIsZero).
Proof. exact client_try_from_bigint_spec. Qed.

(* The pinned 0.7.0 byte-wise shortcut violated the property: 183 = [0xb7,0,..,0] was refused as
   "mod N is zero" and 0x9b00 as "zero" (finding F1, repaired by commit a367a59). *)
Theorem C04_check_v070_refuted :
  let k183 := 183%N :: repeat 0%N 31 in
  let k9b00 := 0%N :: 155%N :: repeat 0%N 30 in
  bytesn 32 k183 /\ le_to_Z k183 mod Nz <> 0 /\
  check_public_key_v070 k183 = Err PublicKeyModLargeSafePrimeIsZero /\
  bytesn 32 k9b00 /\ le_to_Z k9b00 mod Nz <> 0 /\
  check_public_key_v070 k9b00 = Err PublicKeyIsZero /\
  check_public_key k183 = Ok tt /\ check_public_key k9b00 = Ok tt.
Proof.
  cbn zeta. repeat split; try reflexivity; try (apply bytesb_spec; reflexivity); vm_compute; discriminate.
Qed.

(* non-vacuity: N+1 and N-1 are accepted 32-byte keys *)
Example C04_neighbours :
  check_public_key (LE32 (Nz + 1)) = Ok tt /\ check_public_key (LE32 (Nz - 1)) = Ok tt /\
  check_public_key (LE32 1) = Ok tt /\ check_public_key (LE32 (2 ^ 256 - 1)) = Ok tt.
Proof. repeat split; vm_compute; reflexivity. Qed.

Print Assumptions C04_check_iff.
Print Assumptions C04_only_two.
Print Assumptions C04_error_kinds.
Print Assumptions C04_cases.
Print Assumptions C04_roundtrip.
Print Assumptions C04_server_own_key.
Print Assumptions C04_client_own_key.
Print Assumptions C04_check_v070_refuted.
