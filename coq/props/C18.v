(* C18 — matrix card (src/matrix_card.rs), geometric part: cell lookup, printing order, coordinate
   generation, round bound.  Only statements; every proof is `exact` of a lemma from proofs/.
   Models: model/MatrixCard.v (from_data, get_number_at_coordinates, printer_cells / printer_strings,
           generate_coordinates, get_matrix_coordinates, verifier_coordinates);
           model/Legacy.v (the pinned v0.7.0 code before the two repairs, for the refutations only).
   Spec:   spec/Select.v (selection without replacement).
   Domain: 1 <= digit_count (digit_count = 0 makes to_printer panic: known finding F5),
           1 <= width * height <= 255, 1 <= challenge_count <= width * height. *)
From WS Require Import lib.Bytes lib.Res Consts model.Arr model.MatrixCard model.Legacy spec.Select
  proofs.Arr proofs.MatrixCard.
From Coq Require Import Permutation.
Local Open Scope N_scope.

(* The cell the library returns for (x, y) is the cell printed at row y, column x, i.e. printed
   cell number y * width + x, which is the digits [(y*w + x) * d, (y*w + x + 1) * d) of the data. *)
Theorem C18_lookup : forall d w h data x y,
  1 <= d -> 1 <= w * h <= 255 -> length data = N.to_nat (d * h * w) -> x < w -> y < h ->
  exists c cells cell,
    from_data d h w data = Some c /\
    printer_cells c = Ok cells /\
    get_number_at_coordinates c x y = Ok cell /\
    nth_error cells (N.to_nat (y * w + x)) = Some cell /\
    cell = firstn (N.to_nat d) (skipn (N.to_nat ((y * w + x) * d)) data) /\
    length cell = N.to_nat d.
Proof. exact lookup. Qed.

(* The printer yields exactly width * height cells of exactly digit_count digits each, their
   concatenation in printing order is the card data (so they do not overlap and cover the card),
   row-major numbering stays on the card, and distinct coordinates address disjoint index ranges. *)
Theorem C18_cells_disjoint : forall d w h data,
  1 <= d -> 1 <= w * h <= 255 -> length data = N.to_nat (d * h * w) ->
  exists c cells,
    from_data d h w data = Some c /\
    printer_cells c = Ok cells /\
    length cells = N.to_nat (w * h) /\
    Forall (fun cell => length cell = N.to_nat d) cells /\
    concat cells = data /\
    (forall x y, x < w -> y < h -> y * w + x < w * h) /\
    (forall x y x' y', x < w -> y < h -> x' < w -> y' < h -> (x, y) <> (x', y') ->
       (y * w + x + 1) * d <= (y' * w + x') * d \/ (y' * w + x' + 1) * d <= (y * w + x) * d).
Proof. exact cells_layout. Qed.

(* The String the printer yields for a cell: every byte in decimal; for card values 0..9 that is
   the digits of the cell in ASCII. *)
Theorem C18_printed_string : forall c cells j cell,
  printer_cells c = Ok cells -> nth_error cells j = Some cell ->
  (exists strs, printer_strings c = Ok strs /\ nth_error strs j = Some (print_cell cell) /\
                length strs = length cells) /\
  (Forall (fun b => b <= max_matrix_card_value) cell -> print_cell cell = map (fun b => 48 + b) cell).
Proof.
  intros c cells j cell Hc Hj. split; [exact (printer_strings_nth c cells j cell Hc Hj) | apply print_cell_digits].
Qed.

(* The challenged coordinates: no panic (all u8 arithmetic in range), exactly count of them,
   pairwise distinct, all on the card; they are the selection without replacement driven by the
   mixed-radix digits of the seed (radices w*h, w*h - 1, ...). *)
Theorem C18_coordinates : forall w h count seed,
  1 <= w * h <= 255 -> 1 <= count <= w * h -> seed < 2 ^ 64 ->
  exists cs, generate_coordinates w h count seed = Ok cs /\
             cs = select (N.to_nat count) seed (iota (N.to_nat (w * h))) /\
             length cs = N.to_nat count /\ NoDup cs /\ Forall (fun c => c < w * h) cs.
Proof. exact coordinates. Qed.

(* Challenging every cell visits every cell exactly once. *)
Theorem C18_coordinates_all : forall w h seed, 1 <= w * h <= 255 ->
  exists cs, generate_coordinates w h (w * h) seed = Ok cs /\ Permutation cs (iota (N.to_nat (w * h))).
Proof. exact coordinates_all. Qed.

(* For every round 0..255: never a panic; a round outside 0..count-1 yields no coordinates; a round
   inside yields (c mod w, c / w) for the round-th coordinate c, which lies on the card and is the
   cell number c = y * w + x in printing order. *)
Theorem C18_round : forall w h count seed round,
  1 <= w * h <= 255 -> 1 <= count <= w * h -> seed < 2 ^ 64 -> round < 256 ->
  exists cs, generate_coordinates w h count seed = Ok cs /\
    no_panic (verifier_coordinates count h seed w round) /\
    verifier_coordinates count h seed w round = get_matrix_coordinates count w h cs round /\
    (count <= round -> get_matrix_coordinates count w h cs round = Ok None) /\
    (round < count -> exists c, nth_error cs (N.to_nat round) = Some c /\
                                get_matrix_coordinates count w h cs round = Ok (Some (c mod w, c / w)) /\
                                c mod w < w /\ c / w < h /\ (c / w) * w + c mod w = c).
Proof. exact round_spec. Qed.

(* LEGACY: on the pinned v0.7.0 code (start = x * y) the coordinates (1,0), (0,1) and (0,0) of a
   4 x 3 card with two digits per cell all return printed cell 0, while the printed cells at those
   places are 1, 4 and 0 — which is what the repaired function returns. *)
Theorem C18_lookup_v070_refuted :
  from_data 2 3 4 (c_data card_4x3) = Some card_4x3 /\
  printer_cells card_4x3 = Ok (map (fun i => [i; i]) (iota 12)) /\
  get_number_at_coordinates_v070 card_4x3 1 0 = Ok [0; 0] /\
  get_number_at_coordinates_v070 card_4x3 0 1 = Ok [0; 0] /\
  get_number_at_coordinates_v070 card_4x3 0 0 = Ok [0; 0] /\
  get_number_at_coordinates card_4x3 1 0 = Ok [1; 1] /\
  get_number_at_coordinates card_4x3 0 1 = Ok [4; 4] /\
  get_number_at_coordinates card_4x3 0 0 = Ok [0; 0].
Proof. exact lookup_v070_refuted. Qed.

(* LEGACY: on the pinned v0.7.0 code (round > challenge_count) asking for round = challenge_count
   indexes past the end of the coordinates and panics; the repaired function returns None. *)
Theorem C18_round_v070_refuted :
  exists cs, generate_coordinates 4 3 2 0 = Ok cs /\
    get_matrix_coordinates_v070 2 4 3 cs 2 = Panic /\
    get_matrix_coordinates 2 4 3 cs 2 = Ok None.
Proof. exact round_v070_refuted. Qed.

(* ---- the coordinate vectors of the two tests at the end of src/matrix_card.rs ---- *)
Example C18_test_real_3_3_5_client : verifier_coordinates 1 10 0 8 0 = Ok (Some (0, 0)).
Proof. vm_compute. reflexivity. Qed.
Example C18_test_multiple_challenges :
  map (verifier_coordinates 3 10 14574472801782155463 8) [0; 1; 2; 3] =
  [Ok (Some (7, 2)); Ok (Some (0, 0)); Ok (Some (4, 1)); Ok None].
Proof. vm_compute. reflexivity. Qed.
(* outside the domain the model panics like the code: 16 x 16 cells (u8 overflow, debug build),
   an empty card, more challenges than cells (count reaches 0: division by zero) *)
Example C18_outside_domain :
  generate_coordinates 16 16 1 0 = Panic /\ generate_coordinates 0 5 1 0 = Panic /\
  generate_coordinates 3 2 7 12345 = Panic.
Proof. vm_compute. repeat split. Qed.

Print Assumptions C18_lookup.
Print Assumptions C18_cells_disjoint.
Print Assumptions C18_printed_string.
Print Assumptions C18_coordinates.
Print Assumptions C18_coordinates_all.
Print Assumptions C18_round.
Print Assumptions C18_lookup_v070_refuted.
Print Assumptions C18_round_v070_refuted.
