(* C18 — matrix card (src/matrix_card.rs): cell lookup, printing order, coordinate generation, round
   bound (geometric part) and the proof value, the server-side check, the honest client and the
   binding of the proof to the digits (cryptographic part).
   Only statements; every proof is `exact` of a lemma from proofs/.
   Models: model/MatrixCard.v (from_data, get_number_at_coordinates, printer_cells / printer_strings,
           generate_coordinates, get_matrix_coordinates, verifier_coordinates);
           model/MatrixProof.v (MatrixCardVerifier::new / enter_value / into_proof,
           verify_matrix_card_hash; the honest-client scenario);  model/Rc4.v (Rc4);
           model/Legacy.v (the pinned v0.7.0 code before the two repairs, for the refutations only).
   Spec:   spec/Select.v (selection without replacement), spec/Rc4.v (textbook RC4),
           spec/MatrixProof.v (matrix_key = MD5(seed LE | K), matrix_proof = HMAC-SHA1 over RC4(digits)).
   Domain: 1 <= digit_count (digit_count = 0 makes to_printer panic: known finding F5),
           1 <= width * height <= 255, 1 <= challenge_count <= width * height. *)
From WS Require Import lib.Bytes lib.Res lib.Md5 lib.Hmac Consts model.Arr model.Rc4 model.MatrixCard
  model.MatrixProof model.Legacy spec.Select spec.Rc4 spec.MatrixProof
  proofs.Arr proofs.Rc4 proofs.MatrixCard proofs.MatrixProof.
From Coq Require Import Permutation.
Local Open Scope N_scope.

(* The cell the library returns for (x, y) is the cell printed at row y, column x, i.e. printed
   cell number y * width + x, which is the digits [(y*w + x) * d, (y*w + x + 1) * d) of the data. *)
Theorem C18_lookup : forall d w h data x y,
  1 <= d -> 1 <= w * h <= 255 -> length data = N.to_nat (d * h * w) -> x < w -> y < h ->
  exists c cells cell,
    from_data d h w data = Some c /\
    printer_cells c = Ok cells /\
    get_number_at_coordinates c x y = Ok cell /\
    nth_error cells (N.to_nat (y * w + x)) = Some cell /\
    cell = firstn (N.to_nat d) (skipn (N.to_nat ((y * w + x) * d)) data) /\
    length cell = N.to_nat d.
Proof. exact lookup. Qed.

(* The printer yields exactly width * height cells of exactly digit_count digits each, their
   concatenation in printing order is the card data (so they do not overlap and cover the card),
   row-major numbering stays on the card, and distinct coordinates address disjoint index ranges. *)
Theorem C18_cells_disjoint : forall d w h data,
  1 <= d -> 1 <= w * h <= 255 -> length data = N.to_nat (d * h * w) ->
  exists c cells,
    from_data d h w data = Some c /\
    printer_cells c = Ok cells /\
    length cells = N.to_nat (w * h) /\
    Forall (fun cell => length cell = N.to_nat d) cells /\
    concat cells = data /\
    (forall x y, x < w -> y < h -> y * w + x < w * h) /\
    (forall x y x' y', x < w -> y < h -> x' < w -> y' < h -> (x, y) <> (x', y') ->
       (y * w + x + 1) * d <= (y' * w + x') * d \/ (y' * w + x' + 1) * d <= (y * w + x) * d).
Proof. exact cells_layout. Qed.

(* The String the printer yields for a cell: every byte in decimal; for card values 0..9 that is
   the digits of the cell in ASCII. *)
Theorem C18_printed_string : forall c cells j cell,
  printer_cells c = Ok cells -> nth_error cells j = Some cell ->
  (exists strs, printer_strings c = Ok strs /\ nth_error strs j = Some (print_cell cell) /\
                length strs = length cells) /\
  (Forall (fun b => b <= max_matrix_card_value) cell -> print_cell cell = map (fun b => 48 + b) cell).
Proof.
  intros c cells j cell Hc Hj. split; [exact (printer_strings_nth c cells j cell Hc Hj) | apply print_cell_digits].
Qed.

(* The challenged coordinates: no panic (all u8 arithmetic in range), exactly count of them,
   pairwise distinct, all on the card; they are the selection without replacement driven by the
   mixed-radix digits of the seed (radices w*h, w*h - 1, ...). *)
Theorem C18_coordinates : forall w h count seed,
  1 <= w * h <= 255 -> 1 <= count <= w * h -> seed < 2 ^ 64 ->
  exists cs, generate_coordinates w h count seed = Ok cs /\
             cs = select (N.to_nat count) seed (iota (N.to_nat (w * h))) /\
             length cs = N.to_nat count /\ NoDup cs /\ Forall (fun c => c < w * h) cs.
Proof. exact coordinates. Qed.

(* Challenging every cell visits every cell exactly once. *)
Theorem C18_coordinates_all : forall w h seed, 1 <= w * h <= 255 ->
  exists cs, generate_coordinates w h (w * h) seed = Ok cs /\ Permutation cs (iota (N.to_nat (w * h))).
Proof. exact coordinates_all. Qed.

(* For every round 0..255: never a panic; a round outside 0..count-1 yields no coordinates; a round
   inside yields (c mod w, c / w) for the round-th coordinate c, which lies on the card and is the
   cell number c = y * w + x in printing order. *)
Theorem C18_round : forall w h count seed round,
  1 <= w * h <= 255 -> 1 <= count <= w * h -> seed < 2 ^ 64 -> round < 256 ->
  exists cs, generate_coordinates w h count seed = Ok cs /\
    no_panic (verifier_coordinates count h seed w round) /\
    verifier_coordinates count h seed w round = get_matrix_coordinates count w h cs round /\
    (count <= round -> get_matrix_coordinates count w h cs round = Ok None) /\
    (round < count -> exists c, nth_error cs (N.to_nat round) = Some c /\
                                get_matrix_coordinates count w h cs round = Ok (Some (c mod w, c / w)) /\
                                c mod w < w /\ c / w < h /\ (c / w) * w + c mod w = c).
Proof. exact round_spec. Qed.

(* LEGACY: on the pinned v0.7.0 code (start = x * y) the coordinates (1,0), (0,1) and (0,0) of a
   4 x 3 card with two digits per cell all return printed cell 0, while the printed cells at those
   places are 1, 4 and 0 — which is what the repaired function returns. *)
Theorem C18_lookup_v070_refuted :
  from_data 2 3 4 (c_data card_4x3) = Some card_4x3 /\
  printer_cells card_4x3 = Ok (map (fun i => [i; i]) (iota 12)) /\
  get_number_at_coordinates_v070 card_4x3 1 0 = Ok [0; 0] /\
  get_number_at_coordinates_v070 card_4x3 0 1 = Ok [0; 0] /\
  get_number_at_coordinates_v070 card_4x3 0 0 = Ok [0; 0] /\
  get_number_at_coordinates card_4x3 1 0 = Ok [1; 1] /\
  get_number_at_coordinates card_4x3 0 1 = Ok [4; 4] /\
  get_number_at_coordinates card_4x3 0 0 = Ok [0; 0].
Proof. exact lookup_v070_refuted. Qed.

(* LEGACY: on the pinned v0.7.0 code (round > challenge_count) asking for round = challenge_count
   indexes past the end of the coordinates and panics; the repaired function returns None. *)
Theorem C18_round_v070_refuted :
  exists cs, generate_coordinates 4 3 2 0 = Ok cs /\
    get_matrix_coordinates_v070 2 4 3 cs 2 = Panic /\
    get_matrix_coordinates 2 4 3 cs 2 = Ok None.
Proof. exact round_v070_refuted. Qed.

(* ================================================================ cryptographic part ==== *)

(* The proof of an entered digit sequence ds: HMAC-SHA1 keyed by MD5(seed as 8 LE bytes | K) over the
   textbook-RC4 encryption (same key, keystream offset 0) of ds.  MatrixCardVerifier::new does not
   panic; entering the digits one enter_value call at a time, cell by cell, or in any other
   partition [chunks] gives the same verifier state, hence the same proof. *)
Theorem C18_proof_value : forall count h seed w K ds,
  1 <= w * h <= 255 -> 1 <= count <= w * h -> seed < 2 ^ 64 -> bytesn 40 K -> bytes ds ->
  exists v v', verifier_new count h seed w K = Ok v /\
    enter_values v ds = Ok v' /\
    into_proof v' = hmac_sha1 (md5 (le64 seed ++ K)) (rc4_crypt (md5 (le64 seed ++ K)) 0 ds) /\
    into_proof v' = matrix_proof seed K ds /\
    (forall chunks, concat chunks = ds -> enter_chunks v chunks = Ok v') /\
    client_proof_of count h seed w K ds = Ok (matrix_proof seed K ds) /\
    bytesn 20 (into_proof v').
Proof. intros count h seed w K ds Hwh Hc Hs _ _. exact (proof_value count h seed w K ds Hwh Hc Hs). Qed.

(* verify_matrix_card_hash never panics (in particular the unwrap of get_matrix_coordinates and the
   slice in get_number_at_coordinates) and returns true exactly when the presented proof is the proof
   of the digits of the cells printed at the challenged coordinates, in round order: [picked] lists,
   for every round, the printed cell number cs[round] = y * w + x (C18_round, C18_lookup). *)
Theorem C18_verify_iff : forall d w h data count seed K p,
  1 <= d -> 1 <= w * h <= 255 -> length data = N.to_nat (d * h * w) ->
  1 <= count <= w * h -> seed < 2 ^ 64 -> bytes data -> bytesn 40 K -> bytesn 20 p ->
  exists c cells cs picked b,
    from_data d h w data = Some c /\ printer_cells c = Ok cells /\
    generate_coordinates w h count seed = Ok cs /\
    Forall2 (fun co cell => nth_error cells (N.to_nat co) = Some cell) cs picked /\
    verify_matrix_card_hash c count seed K p = Ok b /\
    (b = true <-> p = matrix_proof seed K (concat picked)).
Proof.
  intros d w h data count seed K p Hd Hwh Hl Hc Hs _ _ _. exact (verify_iff d w h data count seed K p Hd Hwh Hl Hc Hs).
Qed.

(* A client with a fresh verifier over the same (count, height, seed, width, K) that, round by
   round, enters the digits of the cell printed at the coordinates it is asked for, produces a proof
   that the server-side check accepts. *)
Theorem C18_honest_client : forall d w h data count seed K,
  1 <= d -> 1 <= w * h <= 255 -> length data = N.to_nat (d * h * w) ->
  1 <= count <= w * h -> seed < 2 ^ 64 -> bytes data -> bytesn 40 K ->
  exists c cells p,
    from_data d h w data = Some c /\ printer_cells c = Ok cells /\
    honest_client cells count h seed w K = Ok p /\
    verify_matrix_card_hash c count seed K p = Ok true.
Proof.
  intros d w h data count seed K Hd Hwh Hl Hc Hs _ _. exact (honest_client_accepted d w h data count seed K Hd Hwh Hl Hc Hs).
Qed.

(* Binding form of "any other digit sequence is rejected" (HMAC-SHA1 is not injective, so refusal
   cannot be unconditional): a client that enters ANY digit sequence ds (any length) other than the
   printed digits gets a proof p'; the server refuses p', or else the two RC4-encrypted messages
   are different byte strings (RC4 with one keystream is injective) with the same HMAC-SHA1 under
   the same key: an explicit collision. *)
Theorem C18_other_digits_rejected : forall d w h data count seed K ds,
  1 <= d -> 1 <= w * h <= 255 -> length data = N.to_nat (d * h * w) ->
  1 <= count <= w * h -> seed < 2 ^ 64 -> bytes data -> bytesn 40 K -> bytes ds ->
  exists c cells cs picked p',
    from_data d h w data = Some c /\ printer_cells c = Ok cells /\
    generate_coordinates w h count seed = Ok cs /\
    Forall2 (fun co cell => nth_error cells (N.to_nat co) = Some cell) cs picked /\
    client_proof_of count h seed w K ds = Ok p' /\
    (ds <> concat picked ->
       verify_matrix_card_hash c count seed K p' = Ok false \/
       exists m m', m <> m' /\ hmac_sha1 (matrix_key seed K) m = hmac_sha1 (matrix_key seed K) m').
Proof.
  intros d w h data count seed K ds Hd Hwh Hl Hc Hs _ _ _. exact (other_digits_rejected d w h data count seed K ds Hd Hwh Hl Hc Hs).
Qed.

(* RC4 encryption under one key and offset is injective (used above) *)
Theorem C18_rc4_injective : forall k off a b, rc4_crypt k off a = rc4_crypt k off b -> a = b.
Proof. exact rc4_crypt_inj. Qed.

(* ---- the coordinate vectors of the two tests at the end of src/matrix_card.rs ---- *)
Example C18_test_real_3_3_5_client : verifier_coordinates 1 10 0 8 0 = Ok (Some (0, 0)).
Proof. vm_compute. reflexivity. Qed.
Example C18_test_multiple_challenges :
  map (verifier_coordinates 3 10 14574472801782155463 8) [0; 1; 2; 3] =
  [Ok (Some (7, 2)); Ok (Some (0, 0)); Ok (Some (4, 1)); Ok None].
Proof. vm_compute. reflexivity. Qed.
(* ---- the proof vectors of the same two tests (real 3.3.5 client), evaluated on the model ---- *)
Definition test_key_1 : list N :=
  [46; 167; 52; 11; 179; 156; 220; 26; 87; 175; 253; 222; 115; 66; 233; 19; 167; 238; 19; 84;
   138; 175; 136; 247; 241; 239; 119; 140; 15; 202; 125; 85; 137; 178; 159; 127; 134; 58; 46; 126].
Definition test_key_2 : list N :=
  [102; 94; 221; 27; 188; 90; 39; 16; 200; 68; 41; 48; 224; 105; 1; 102; 18; 212; 59; 119;
   207; 76; 237; 37; 240; 225; 148; 192; 63; 31; 65; 98; 142; 197; 217; 88; 34; 85; 72; 158].
Definition test_proof_1 : list N :=
  [241; 196; 101; 128; 135; 11; 160; 192; 252; 108; 209; 242; 49; 157; 119; 131; 135; 191; 181; 153].
Definition test_proof_2 : list N :=
  [193; 75; 79; 43; 182; 117; 141; 123; 100; 155; 172; 137; 139; 67; 215; 195; 187; 55; 30; 231].

Example C18_test_real_3_3_5_client_proof :
  client_proof_of 1 10 0 8 test_key_1 [0; 0] = Ok test_proof_1 /\
  matrix_proof 0 test_key_1 [0; 0] = test_proof_1.
Proof. vm_compute. split; reflexivity. Qed.
Example C18_test_multiple_challenges_proof :
  client_proof_of 3 10 14574472801782155463 8 test_key_2 [0; 0; 0; 0; 0; 0] = Ok test_proof_2 /\
  matrix_proof 14574472801782155463 test_key_2 [0; 0; 0; 0; 0; 0] = test_proof_2.
Proof. vm_compute. split; reflexivity. Qed.
(* the server side on an all-zero 8 x 10 card with two digits per cell accepts that proof, refuses a
   flipped one, and the honest client reading the printed card produces it (non-vacuity of
   C18_verify_iff / C18_honest_client) *)
Example C18_test_verify :
  let c := {| c_digits := 2; c_width := 8; c_height := 10; c_data := repeat 0 160 |} in
  verify_matrix_card_hash c 3 14574472801782155463 test_key_2 test_proof_2 = Ok true /\
  verify_matrix_card_hash c 3 14574472801782155463 test_key_2 (flip_bit 5 test_proof_2) = Ok false /\
  verify_matrix_card_hash c 2 14574472801782155463 test_key_2 test_proof_2 = Ok false /\
  (match printer_cells c with
   | Ok cells => honest_client cells 3 10 14574472801782155463 8 test_key_2
   | _ => Panic end) = Ok test_proof_2.
Proof. vm_compute. repeat split. Qed.
(* outside the domain the model panics like the code: 16 x 16 cells (u8 overflow, debug build),
   an empty card, more challenges than cells (count reaches 0: division by zero) *)
Example C18_outside_domain :
  generate_coordinates 16 16 1 0 = Panic /\ generate_coordinates 0 5 1 0 = Panic /\
  generate_coordinates 3 2 7 12345 = Panic.
Proof. vm_compute. repeat split. Qed.

Print Assumptions C18_lookup.
Print Assumptions C18_cells_disjoint.
Print Assumptions C18_printed_string.
Print Assumptions C18_coordinates.
Print Assumptions C18_coordinates_all.
Print Assumptions C18_round.
Print Assumptions C18_lookup_v070_refuted.
Print Assumptions C18_round_v070_refuted.
Print Assumptions C18_proof_value.
Print Assumptions C18_verify_iff.
Print Assumptions C18_honest_client.
Print Assumptions C18_other_digits_rejected.
Print Assumptions C18_rc4_injective.
