(* C19 — both big-integer back ends produce identical results.
   `Fast` is the model of the srp-fast-math bodies of bigint.rs (rug/GMP primitives), `Default` of
   the num-bigint ones.  Stated for ALL inputs, with no side condition: after repair of finding F6
   (the GMP body now falls back to pow_mod when secure_pow_mod's preconditions fail) the two
   models agree everywhere, including negative bases, zero results and zero exponents. *)
From WS Require Import lib.Bytes lib.Res lib.Tape Consts model.Bigint model.Key model.Srp model.Server model.Client
  proofs.Bigint proofs.Backends.
Local Open Scope Z_scope.

Theorem C19_modpow_agree : forall b e m, 0 <= e -> 0 <= m -> modpow Fast b e m = modpow Default b e m.
Proof. exact modpow_backends_agree. Qed.

Theorem C19_modpow_value : forall b e m, 0 < m -> 0 <= e ->
  modpow Default b e m = Ok ((b ^ e) mod m) /\ modpow Fast b e m = Ok ((b ^ e) mod m).
Proof. intros b e m Hm He; split; [apply modpow_default | apply modpow_fast]; assumption. Qed.

Theorem C19_padding_agree : forall n z, (1 <= n)%nat -> pad_to n (to_bytes_le Fast z) = pad_to n (to_bytes_le Default z).
Proof. exact pad_to_backend. Qed.

Theorem C19_padded_value : forall be z, 0 <= z < 2 ^ 256 -> to_padded_32_byte_array_le be z = Ok (LE32 z).
Proof. exact to_padded_32. Qed.

(* every function of the authentication API model, either back end *)
Theorem C19_api_agree :
  (forall U P salt, calculate_password_verifier Fast U P salt = calculate_password_verifier Default U P salt) /\
  (forall v b, calculate_server_public_key Fast v b = calculate_server_public_key Default v b) /\
  (forall A v u b, calculate_S Fast A v u b = calculate_S Default A v u b) /\
  (forall a g n', calculate_client_public_key Fast a g n' = calculate_client_public_key Default a g n') /\
  (forall B x a u g n', calculate_client_S Fast B x a u g n' = calculate_client_S Default B x a u g n') /\
  (forall U P t, from_username_and_password Fast U P t = from_username_and_password Default U P t) /\
  (forall vf t, into_proof Fast vf t = into_proof Default vf t) /\
  (forall p A m t, into_server Fast p A m t = into_server Default p A m t) /\
  (forall U P g n' B salt t, client_new Fast U P g n' B salt t = client_new Default U P g n' B salt t) /\
  (forall z, pk_try_from_bigint Fast z = pk_try_from_bigint Default z) /\
  (forall z n', pk_client_try_from_bigint Fast z n' = pk_client_try_from_bigint Default z n').
Proof.
  repeat split; intros.
  - apply verifier_agree. - apply server_public_key_agree. - apply S_agree. - apply client_public_key_agree.
  - apply client_S_agree. - apply register_agree. - apply into_proof_agree. - apply into_server_agree.
  - apply client_new_agree. - apply try_from_bigint_agree. - apply client_try_from_bigint_agree.
Qed.

(* the pinned 0.7.0 GMP body panicked where the default one returned (finding F6) *)
Theorem C19_zero_exponent_v070_refuted :
  modpow_fast_v070 7 0 11 = Panic /\ modpow Default 7 0 11 = Ok 1 /\ modpow Fast 7 0 11 = Ok 1 /\
  modpow_fast_v070 7 5 10 = Panic /\ modpow Default 7 5 10 = Ok 7 /\ modpow Fast 7 5 10 = Ok 7.
Proof. exact modpow_fast_v070_refuted. Qed.

Print Assumptions C19_modpow_agree.
Print Assumptions C19_modpow_value.
Print Assumptions C19_padding_agree.
Print Assumptions C19_padded_value.
Print Assumptions C19_api_agree.
Print Assumptions C19_zero_exponent_v070_refuted.
