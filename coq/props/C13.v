(* C13 — credential strings: accepted iff 1..16 bytes of ASCII 0x20..0x7E; stored text is the input
   with a..z mapped to A..Z; idempotent, case-insensitive; all constructors agree; equality,
   ordering, hashing and display follow the text; length error first, else the first offending
   character; no input panics.
   A Rust string is a list [s] of code points with [Forall scalar s].  (The lemmas in proofs/ hold
   for every list of numbers; the hypothesis is kept here because the property is about strings.)
   Only statements; every proof is `exact` of a lemma from proofs/. *)
From WS Require Import lib.Bytes lib.Res Consts model.NormalizedString spec.NormalizedString
  proofs.NormalizedString.
Local Open Scope N_scope.

(* The constructor is the spec function, on every string: one equation that contains all clauses. *)
Theorem C13_new_is_spec : forall s, Forall scalar s -> ns_new s = ns_spec s.
Proof. intros s _. exact (new_spec s). Qed.

Theorem C13_accept_iff : forall s, Forall scalar s ->
  ((exists t, ns_new s = Ok t) <-> ((1 <= length s <= 16)%nat /\ Forall printable s)).
Proof. intros s _. exact (accept_iff s). Qed.

(* stored text = upper-cased input; the array has 16 cells, zero after the text; the length field is
   the number of characters = number of bytes; the text is printable ASCII without a..z *)
Theorem C13_text : forall s t, Forall scalar s -> ns_new s = Ok t ->
  ns_text t = map upper s /\ length (ns_arr t) = 16%nat /\ ns_len t = N.of_nat (length s) /\
  skipn (length s) (ns_arr t) = repeat 0 (16 - length s) /\
  str_bytes s = length s /\ bytes (ns_arr t) /\
  Forall (fun b => printable b /\ ~ (97 <= b <= 122)) (ns_text t).
Proof. intros s t _. exact (text_spec s t). Qed.

(* the length error comes first, even when the string also contains forbidden characters;
   otherwise the first forbidden character is reported, unchanged *)
Theorem C13_errors : forall s, Forall scalar s ->
  (str_bytes s = 0%nat \/ (16 < str_bytes s)%nat -> ns_new s = Err StringTooLong) /\
  ((1 <= str_bytes s <= 16)%nat -> forall c, first_bad s = Some c ->
     ns_new s = Err (CharacterNotAllowed c)).
Proof. intros s _. exact (errors_spec s). Qed.

(* what [first_bad] is: the character is forbidden and everything before it is permitted *)
Theorem C13_first_bad : forall s c, first_bad s = Some c ->
  exists pre post, s = pre ++ c :: post /\ Forall printable pre /\ ~ printable c.
Proof. exact first_bad_some. Qed.

(* there is no fourth outcome *)
Theorem C13_outcomes : forall s, Forall scalar s ->
  (exists t, ns_new s = Ok t) \/ ns_new s = Err StringTooLong \/
  (exists c, first_bad s = Some c /\ ns_new s = Err (CharacterNotAllowed c)).
Proof. intros s _. exact (outcomes s). Qed.

(* The indexed write `array[i]` never goes out of range: i < #characters <= #bytes <= 16, and a
   string with multi-byte characters at the limit is refused at its first such character. *)
Theorem C13_no_panic : forall s, Forall scalar s -> no_panic (ns_new s).
Proof. intros s _. exact (no_panic_spec s). Qed.

Theorem C13_chars_le_bytes : forall s, (length s <= str_bytes s)%nat.
Proof. exact length_le_str_bytes. Qed.

Theorem C13_idempotent : forall s t, ns_new s = Ok t -> ns_new (ns_text t) = Ok t.
Proof. exact idempotent. Qed.

(* Two spellings that differ only in the case of ASCII letters give the same result in full: the
   same value when accepted, and also the same error, because upper-casing identifies only a..z
   with A..Z, which are all permitted, so the reported character is the same in both. *)
Theorem C13_case_insensitive : forall s s', Forall scalar s -> Forall scalar s' ->
  map upper s = map upper s' -> ns_new s = ns_new s'.
Proof. intros s s' _ _. exact (case_insensitive s s'). Qed.

Theorem C13_upper_first : forall s, ns_new (map upper s) = ns_new s.
Proof. exact new_upper. Qed.

Theorem C13_constructors_agree : forall s,
  ns_from_str s = ns_new s /\ ns_from_string s = ns_new s /\
  ns_try_from_str s = ns_new s /\ ns_try_from_string s = ns_new s.
Proof. exact constructors_agree. Qed.

(* derived Ord on (array, length) = byte-string ordering of the texts; derived Eq = equality of the
   texts; the two are consistent *)
Theorem C13_eq_ord : forall s1 s2 t1 t2, ns_new s1 = Ok t1 -> ns_new s2 = Ok t2 ->
  ns_cmp t1 t2 = lex_cmp (ns_text t1) (ns_text t2) /\
  (t1 = t2 <-> ns_text t1 = ns_text t2) /\
  (ns_eqb t1 t2 = true <-> ns_text t1 = ns_text t2) /\
  (ns_cmp t1 t2 = Eq <-> ns_eqb t1 t2 = true).
Proof. exact eq_ord. Qed.

(* the lemma behind it: padding with a byte below every text byte, then the length as tie-breaker *)
Theorem C13_padding_order : forall n a b, (length a <= n)%nat -> (length b <= n)%nat ->
  Forall (fun x => 0 < x) a -> Forall (fun x => 0 < x) b ->
  match lex_cmp (a ++ repeat 0 (n - length a)) (b ++ repeat 0 (n - length b)) with
  | Eq => (length a ?= length b)%nat
  | c => c
  end = lex_cmp a b.
Proof. exact pad_cmp. Qed.

(* as_ref and Display yield the text; neither the slice nor the from_utf8 unwrap panics *)
Theorem C13_display : forall s t, ns_new s = Ok t ->
  ns_display t = Ok (ns_text t) /\ ns_as_ref t = Ok (ns_text t).
Proof. exact display_spec. Qed.

(* Hash (and any other function of the struct): the struct is determined by its text *)
Theorem C13_text_injective : forall s1 s2 t1 t2, ns_new s1 = Ok t1 -> ns_new s2 = Ok t2 ->
  ns_text t1 = ns_text t2 -> t1 = t2.
Proof. exact text_injective. Qed.

Theorem C13_function_of_text : forall (X : Type) (h : nstr -> X) s t, ns_new s = Ok t ->
  h t = (fun txt => h (ns_of_text txt)) (ns_text t).
Proof. exact @function_of_text. Qed.

(* ---- evaluated instances ---- *)
Definition euro : N := 0x20AC.     (* 3 bytes *)
Definition eacute : N := 0xE9.     (* 2 bytes *)
Definition ascii16 : list N := [49;54;98;121;116;101;108;111;110;103;115;116;114;105;110;103].

(* Alice -> ALICE *)
Example C13_ex_alice :
  ns_new [65;108;105;99;101] = Ok {| ns_arr := [65;76;73;67;69;0;0;0;0;0;0;0;0;0;0;0]; ns_len := 5 |}.
Proof. reflexivity. Qed.

(* 16bytelongstring: accepted at the limit; one more byte: refused *)
Example C13_ex_16 :
  ns_new ascii16 = Ok {| ns_arr := [49;54;66;89;84;69;76;79;78;71;83;84;82;73;78;71]; ns_len := 16 |} /\
  ns_new (ascii16 ++ [65]) = Err StringTooLong /\ ns_new [] = Err StringTooLong.
Proof. repeat split. Qed.

(* five 3-byte characters and one 2-byte character: 6 characters, 17 bytes -> length error;
   with a 1-byte character instead: 6 characters, 16 bytes -> passes the gate, first character
   reported; four 4-byte characters: 16 bytes; sixteen 1-byte controls + 1: length error first *)
Example C13_ex_multibyte :
  str_bytes (repeat euro 5 ++ [eacute]) = 17%nat /\
  ns_new (repeat euro 5 ++ [eacute]) = Err StringTooLong /\
  str_bytes (repeat euro 5 ++ [65]) = 16%nat /\
  ns_new (repeat euro 5 ++ [65]) = Err (CharacterNotAllowed euro) /\
  ns_new (repeat 65 15 ++ [0x7FF]) = Err StringTooLong /\
  ns_new (repeat 65 14 ++ [0x7FF]) = Err (CharacterNotAllowed 0x7FF) /\
  ns_new (repeat 0x10FFFF 4) = Err (CharacterNotAllowed 0x10FFFF) /\
  ns_new (repeat 0x10FFFF 4 ++ [65]) = Err StringTooLong /\
  ns_new (repeat 0 17) = Err StringTooLong /\
  Forall scalar (repeat euro 5 ++ [eacute; 0x7FF; 0x10FFFF]).
Proof. repeat split; repeat constructor; unfold scalar, euro, eacute; lia. Qed.

Example C13_ex_forbidden :
  ns_new [eacute] = Err (CharacterNotAllowed eacute) /\
  ns_new [0x7F] = Err (CharacterNotAllowed 0x7F) /\
  ns_new [0x1F] = Err (CharacterNotAllowed 0x1F) /\
  ns_new [0x80] = Err (CharacterNotAllowed 0x80) /\
  ns_new [97; eacute; 0x7F] = Err (CharacterNotAllowed eacute).
Proof. repeat split. Qed.

(* double quote, colon, semicolon, backslash, space, tilde, and the neighbours of a..z *)
Example C13_ex_punctuation :
  exists t, ns_new [34;58;59;92;32;126;96;123;97;122] = Ok t /\
            ns_text t = [34;58;59;92;32;126;96;123;65;90].
Proof. eexists. split; reflexivity. Qed.

(* AB before ABC (prefix, decided by the length field); b after AZ (compared as B) *)
Example C13_ex_order :
  exists t1 t2 t3 t4, ns_new [65;66] = Ok t1 /\ ns_new [97;98;99] = Ok t2 /\
    ns_new [98] = Ok t3 /\ ns_new [65;90] = Ok t4 /\
    ns_cmp t1 t2 = Lt /\ ns_cmp t2 t1 = Gt /\ ns_cmp t3 t4 = Gt /\ ns_cmp t1 t1 = Eq /\
    ns_eqb t1 t2 = false /\ ns_eqb t2 t2 = true.
Proof. do 4 eexists. repeat split. Qed.

Print Assumptions C13_new_is_spec.
Print Assumptions C13_accept_iff.
Print Assumptions C13_text.
Print Assumptions C13_errors.
Print Assumptions C13_first_bad.
Print Assumptions C13_outcomes.
Print Assumptions C13_no_panic.
Print Assumptions C13_chars_le_bytes.
Print Assumptions C13_idempotent.
Print Assumptions C13_case_insensitive.
Print Assumptions C13_upper_first.
Print Assumptions C13_constructors_agree.
Print Assumptions C13_eq_ord.
Print Assumptions C13_padding_order.
Print Assumptions C13_display.
Print Assumptions C13_text_injective.
Print Assumptions C13_function_of_text.
