(* C01 — honest client and server always authenticate and agree on the session key. *)
From WS Require Import lib.Bytes lib.Res lib.Tape Consts model.Bigint model.Key model.Srp model.Server model.Client
  model.NormalizedString spec.NormalizedString spec.Srp6 proofs.Login proofs.Srp proofs.NormalizedString primes.NFacts.
Local Open Scope Z_scope.

(* The complete exchange on the API model, for EVERY username/password text, salt, server key b,
   client key a and reconnect challenge (the tape), through an export/re-import of the account
   record.  The only excluded case is the documented panic of into_proof (B = 0 mod N).
   Rare classes (S with low-order zero bytes, high-order zero bytes, B - k*v negative) are
   covered because the statement has no side condition on them. *)
Theorem C01_honest_login : forall U P salt b a chal rest,
  length salt = 32%nat -> length b = 32%nat -> length a = 32%nat -> length chal = 16%nat ->
  forall acct t1, from_username_and_password Default U P (salt ++ b ++ a ++ chal ++ rest) = Ok (acct, t1) ->
  let acct' := from_database_values (username_of acct) (password_verifier_of acct) (salt_of acct) in
  forall pr t2, into_proof Default acct' t1 = Ok (pr, t2) ->
  exists cl t3 srv M2 t4 cli,
    client_new Default U P generator n_le (pr_B pr) (pr_salt pr) t2 = Ok (cl, t3) /\
    check_public_key (cc_A cl) = Ok tt /\
    into_server Default pr (cc_A cl) (cc_M1 cl) t3 = Ok (srv, M2, t4) /\
    verify_server_proof cl M2 = Ok cli /\
    ss_K srv = sc_K cli /\ length (ss_K srv) = 40%nat /\ t4 = rest.
Proof. exact honest_login. Qed.

(* registration never fails, and the stored record is (U, LE32 (g^x mod N), salt) *)
Theorem C01_registration : forall U P salt rest, length salt = 32%nat ->
  from_username_and_password Default U P (salt ++ rest) =
  Ok ({| vf_user := U; vf_v := LE32 (sp_v 7 Nz (sp_x U P salt)); vf_salt := salt |}, rest).
Proof.
  intros U P salt rest Hs. unfold from_username_and_password. change (N.to_nat salt_length) with 32%nat.
  rewrite draw_app_exact by exact Hs. unfold with_specific_salt. rewrite verifier_spec. reflexivity.
Qed.

(* the algebraic core: client and server secrets agree for all a, b, x, u >= 0, any modulus > 1 *)
Theorem C01_secrets_agree : forall n g k a b x u, 1 < n -> 0 <= a -> 0 <= b -> 0 <= x -> 0 <= u ->
  sp_S_client k g n (sp_B k g n (sp_v g n x) b) x a u = sp_S_server n (sp_A g n a) (sp_v g n x) u b.
Proof. intros; apply secrets_agree; assumption. Qed.

(* credentials typed in any letter case normalise to the same NormalizedString, hence to the same
   texts fed to the exchange above *)
Theorem C01_case_variants : forall s s', Forall scalar s -> Forall scalar s' ->
  map upper s = map upper s' -> ns_new s = ns_new s'.
Proof. intros s s' _ _. exact (case_insensitive s s'). Qed.

(* end to end from the strings a user types: any accepted username/password, typed by the client in
   any letter case, normalise to the same texts on both sides and the exchange above completes *)
Theorem C01_honest_login_strings : forall u p u' p' Un Pn salt b a chal rest,
  Forall scalar u -> Forall scalar p -> Forall scalar u' -> Forall scalar p' ->
  ns_new u = Ok Un -> ns_new p = Ok Pn -> map upper u' = map upper u -> map upper p' = map upper p ->
  length salt = 32%nat -> length b = 32%nat -> length a = 32%nat -> length chal = 16%nat ->
  ns_new u' = Ok Un /\ ns_new p' = Ok Pn /\
  forall acct t1, from_username_and_password Default (ns_text Un) (ns_text Pn) (salt ++ b ++ a ++ chal ++ rest) = Ok (acct, t1) ->
  forall pr t2, into_proof Default (from_database_values (username_of acct) (password_verifier_of acct) (salt_of acct)) t1 = Ok (pr, t2) ->
  exists cl t3 srv M2 t4 cli,
    client_new Default (ns_text Un) (ns_text Pn) generator n_le (pr_B pr) (pr_salt pr) t2 = Ok (cl, t3) /\
    check_public_key (cc_A cl) = Ok tt /\
    into_server Default pr (cc_A cl) (cc_M1 cl) t3 = Ok (srv, M2, t4) /\
    verify_server_proof cl M2 = Ok cli /\
    ss_K srv = sc_K cli /\ length (ss_K srv) = 40%nat.
Proof.
  intros u p u' p' Un Pn salt b a chal rest _ _ _ _ Hu Hp Eu Ep Hs Hb Ha Hc.
  split; [rewrite <- Hu; apply case_insensitive; exact Eu|].
  split; [rewrite <- Hp; apply case_insensitive; exact Ep|].
  intros acct t1 Hreg pr t2 Hpr.
  destruct (honest_login (ns_text Un) (ns_text Pn) salt b a chal rest Hs Hb Ha Hc acct t1 Hreg pr t2 Hpr)
    as (cl & t3 & srv & M2 & t4 & cli & H1 & H2 & H3 & H4 & H5 & H6 & _).
  exists cl, t3, srv, M2, t4, cli. repeat split; assumption.
Qed.

(* the honest client's public key is never refused by the server *)
Theorem C01_client_key_accepted : forall a, check_public_key (honest_A a) = Ok tt.
Proof. exact honest_A_accepted. Qed.

Print Assumptions C01_honest_login.
Print Assumptions C01_registration.
Print Assumptions C01_secrets_agree.
Print Assumptions C01_case_variants.
Print Assumptions C01_client_key_accepted.
Print Assumptions C01_honest_login_strings.
