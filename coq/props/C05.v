(* C05 — reconnect proofs verify only against the current, single-use challenge. *)
From WS Require Import lib.Bytes lib.Res lib.Tape lib.Sha1 Consts model.Bigint model.Key model.Srp model.Server model.Client
  spec.Srp6 proofs.Handshake.

(* For ALL finite histories of attempts: the i-th verdict is true iff the presented proof equals
   H(U | cd_i | chal_i | K), where chal_0 is the login challenge and chal_(i+1) is the i-th
   16-byte tape segment - whatever the earlier verdicts were. *)
Theorem C05_verdict : forall att s t i cd pf, nth_error att i = Some (cd, pf) ->
  nth_error (fst (fst (run_attempts s t att))) i =
  Some (list_eqb (sp_reconnect_proof (ss_user s) cd (chal_at s t i) (ss_K s)) pf, chal_at s t i).
Proof. exact attempts_verdicts. Qed.

(* every attempt, accepted or not, replaces the challenge by the next 16 drawn bytes; user and
   session key never change *)
Theorem C05_refresh : forall att s t,
  let '(_, s', t') := run_attempts s t att in
  ss_user s' = ss_user s /\ ss_K s' = ss_K s /\ ss_chal s' = chal_at s t (length att) /\
  t' = skipn (16 * length att) t.
Proof. exact attempts_state. Qed.

(* the legitimate client is accepted n times in a row, for every n *)
Theorem C05_legit_forever : forall cds s t,
  Forall (fun v => fst v = true)
         (fst (fst (run_attempts s t (honest_attempts (ss_user s) (ss_K s) (ss_chal s) t cds)))).
Proof. exact legit_forever. Qed.

(* a captured pair accepted at step i is accepted again at step j only if the two challenges
   coincide, or an explicit SHA-1 collision is exhibited *)
Theorem C05_replay : forall att s t i j cd pf,
  length cd = 16%nat -> length (chal_at s t i) = 16%nat -> length (chal_at s t j) = 16%nat ->
  nth_error att i = Some (cd, pf) -> nth_error att j = Some (cd, pf) ->
  nth_error (fst (fst (run_attempts s t att))) i = Some (true, chal_at s t i) ->
  nth_error (fst (fst (run_attempts s t att))) j = Some (true, chal_at s t j) ->
  chal_at s t i = chal_at s t j \/ collision.
Proof. exact replay_needs_same_challenge. Qed.

(* the proof binds username, client data, server challenge and session key *)
Theorem C05_binding : forall U cd c1 K U' cd' c2 K' pf,
  length cd = 16%nat -> length cd' = 16%nat -> length c1 = 16%nat -> length c2 = 16%nat ->
  length U = length U' ->
  list_eqb (sp_reconnect_proof U cd c1 K) pf = true ->
  list_eqb (sp_reconnect_proof U' cd' c2 K') pf = true ->
  (U = U' /\ cd = cd' /\ c1 = c2 /\ K = K') \/ collision.
Proof. exact reconnect_binding. Qed.

(* the client draws a fresh 16-byte challenge per call and proves against the server's data *)
Theorem C05_client_values : forall c sd t,
  calculate_reconnect_values c sd t =
  ((firstn 16 t, sp_reconnect_proof (sc_user c) (firstn 16 t) sd (sc_K c)), skipn 16 t).
Proof. reflexivity. Qed.

(* end to end: what the client computes for the challenge on offer is accepted by a server sharing its
   user and session key, whatever the tapes hold *)
Theorem C05_honest_reconnect : forall s c tc ts, ss_user s = sc_user c -> ss_K s = sc_K c ->
  let '((cd, pf), _) := calculate_reconnect_values c (ss_chal s) tc in
  fst (fst (verify_reconnection_attempt s cd pf ts)) = true.
Proof.
  intros s c tc ts HU HK. unfold calculate_reconnect_values, draw. cbv beta iota.
  rewrite verify_step. cbn [fst]. rewrite HU, HK. apply list_eqb_refl.
Qed.

Print Assumptions C05_honest_reconnect.
Print Assumptions C05_verdict.
Print Assumptions C05_refresh.
Print Assumptions C05_legit_forever.
Print Assumptions C05_replay.
Print Assumptions C05_binding.
Print Assumptions C05_client_values.
