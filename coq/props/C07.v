(* C07 — Vanilla header cipher follows its recurrence and decrypts what it encrypts.
   Only statements; every proof is `exact` of a lemma from proofs/. *)
From WS Require Import lib.Bytes lib.Res lib.Calls Consts spec.HeaderCipher model.HeaderCipher model.Vanilla
  proofs.HeaderCipher proofs.Vanilla.
Local Open Scope N_scope.

(* Any partition of a plaintext stream into encrypt calls (empty calls and calls longer than the
   key included) yields the whole-stream recurrence c_n = ((x_n xor key[n mod 40]) + c_(n-1)) mod 256,
   c_(-1) = 0, never panics, and leaves (index, previous) = (length mod 40, last ciphertext byte). *)
Theorem C07_enc_calls : forall K chunks, length K = 40%nat ->
  run_calls encrypt (half_new K) chunks =
  Ok (mk_half K (N.of_nat (length (concat chunks) mod 40)) (last (encrypt_stream K (concat chunks)) 0),
      encrypt_stream K (concat chunks)).
Proof. exact enc_calls. Qed.

Theorem C07_dec_calls : forall K chunks, length K = 40%nat ->
  run_calls decrypt (half_new K) chunks =
  Ok (mk_half K (N.of_nat (length (concat chunks) mod 40)) (last (concat chunks) 0),
      decrypt_stream K (concat chunks)).
Proof. exact dec_calls. Qed.

(* The decrypter is the exact inverse for every stream, with sender and receiver chunking
   independently, and both halves end in the same (index, previous). *)
Theorem C07_roundtrip : forall K xs cs1 cs2, bytesn 40 K -> bytes xs ->
  concat cs1 = xs -> concat cs2 = encrypt_stream K xs ->
  exists he hd,
    run_calls encrypt (half_new K) cs1 = Ok (he, encrypt_stream K xs) /\
    run_calls decrypt (half_new K) cs2 = Ok (hd, xs) /\
    h_st hd = h_st he /\ h_key hd = K /\ h_key he = K.
Proof. exact roundtrip. Qed.

Theorem C07_stream_inverse : forall key n c xs, bytes key -> bytes xs -> c < 256 -> key <> [] ->
  dec_stream key n c (enc_stream key n c xs) = xs /\ enc_stream key n c (dec_stream key n c xs) = xs.
Proof. intros; split; [apply dec_enc_stream | apply enc_dec_stream]; assumption. Qed.

Theorem C07_empty_call : forall h, encrypt h [] = Ok (h, []) /\ decrypt h [] = Ok (h, []).
Proof. exact empty_call. Qed.

(* every cipher state (position 0..39, previous byte) crossed with every input byte *)
Theorem C07_step_table : forall K i p x, length K = 40%nat -> (i < 40)%nat ->
  encrypt (mk_half K (N.of_nat i) p) [x] =
    Ok (mk_half K (N.of_nat (S i mod 40)) ((N.lxor x (nth i K 0) + p) mod 256),
        [(N.lxor x (nth i K 0) + p) mod 256]) /\
  decrypt (mk_half K (N.of_nat i) p) [x] =
    Ok (mk_half K (N.of_nat (S i mod 40)) x, [N.lxor ((x + 256 - p) mod 256) (nth i K 0)]).
Proof. exact step_table. Qed.

Theorem C07_no_panic_inv : forall h data, length (h_key h) = 40%nat -> c_idx (h_st h) < 40 ->
  (exists h' out, encrypt h data = Ok (h', out) /\ h_key h' = h_key h /\ c_idx (h_st h') < 40 /\
                  length out = length data /\ bytes out) /\
  (exists h' out, decrypt h data = Ok (h', out) /\ h_key h' = h_key h /\ c_idx (h_st h') < 40 /\
                  length out = length data).
Proof. exact no_panic_inv. Qed.

(* non-vacuity: a concrete key and chunking, evaluated *)
Example C07_nonvacuous :
  let K := map N.of_nat (seq 1 40) in
  bytesn 40 K /\
  run_calls encrypt (half_new K) [[1;2;3]; []; [255;0]] = Ok (mk_half K 5 0, [0; 0; 0; 251; 0]).
Proof. cbn zeta. split; [split; [reflexivity|apply bytesb_spec; reflexivity]|]. vm_compute. reflexivity. Qed.

Print Assumptions C07_enc_calls.
Print Assumptions C07_dec_calls.
Print Assumptions C07_roundtrip.
Print Assumptions C07_stream_inverse.
Print Assumptions C07_empty_call.
Print Assumptions C07_step_table.
Print Assumptions C07_no_panic_inv.
