(* C14 — peer-controlled bytes can never crash the server or the client.
   Every model function returns an explicit outcome; the theorems say it is never Panic, for ALL
   values of the peer-controlled arguments. *)
From WS Require Import lib.Bytes lib.Res lib.Tape lib.Sha1 Consts model.Bigint model.Key model.Srp model.Server model.Client
  model.Vanilla model.Tbc model.Rc4 model.Wrath model.WorldProof
  spec.Srp6 proofs.Key proofs.Srp proofs.Handshake proofs.Login proofs.WorldProof proofs.Rc4 proofs.Wrath primes.NFacts.
From WS Require proofs.Vanilla proofs.Tbc.
From Coq Require Import Znumtheory.
Local Open Scope Z_scope.

(* ---- server: login ---- *)
(* for EVERY stored verifier, private key, username, salt (after repair 0562141 not only for
   v <> 0 mod N), every accepted 32-byte A and every presented proof *)
Theorem C14_into_server : forall pr A m t, length A = 32%nat -> into_server Default pr A m t <> Panic.
Proof. exact into_server_no_panic. Qed.

(* reconnect: a total function of its arguments (bool verdict), any bytes *)
Theorem C14_reconnect : forall s cd pf t, exists b s' t', verify_reconnection_attempt s cd pf t = (b, s', t').
Proof. intros. unfold verify_reconnection_attempt, draw. eexists; eexists; eexists. reflexivity. Qed.

(* why K is never derived from a zero secret on the server: N is prime (certificate chain checked
   in primes/PockZ.v), so for a proper verifier and an accepted A the secret is non-zero *)
Theorem C14_server_S_nonzero : forall A v u b, 0 <= u -> 0 <= b -> A mod Nz <> 0 -> v mod Nz <> 0 ->
  sp_S_server Nz A v u b <> 0.
Proof. exact server_S_nonzero. Qed.
Theorem C14_N_prime : prime Nz.
Proof. exact Nz_prime. Qed.

(* ---- client, built-in group: every B, salt, tape ---- *)
Theorem C14_client_new : forall U P B salt t,
  exists cl, client_new Default U P generator n_le B salt t = Ok (cl, snd (draw 32 t)) /\
             cc_A cl = honest_A (fst (draw 32 t)) /\ length (cc_K cl) = 40%nat /\ length (cc_M1 cl) = 20%nat.
Proof. exact client_new_total. Qed.

Theorem C14_verify_server_proof : forall c m, exists r, verify_server_proof c m = r /\ r <> Panic.
Proof. exact verify_server_proof_total. Qed.

(* the degenerate secret a hostile server can force (B = k*v mod N gives S = 0) is handled:
   the strip of an all-zero secret is the empty slice ... *)
Theorem C14_zero_secret : calculate_interleaved (repeat 0%N 32) = Ok (interleave []).
Proof. exact calculate_interleaved_zero. Qed.

Theorem C14_hostile_B_gives_zero_secret : forall x a u, 0 <= x -> 0 < a + u * x ->
  sp_S_client 3 7 Nz ((3 * sp_v 7 Nz x) mod Nz) x a u = 0.
Proof.
  intros x a u Hx He. unfold sp_S_client, sp_v. pose proof Nz_pos.
  replace (((3 * (7 ^ x mod Nz)) mod Nz - 3 * (7 ^ x mod Nz)) mod Nz) with 0.
  - rewrite Z.pow_0_l by lia. apply Z.mod_0_l. lia.
  - rewrite Zminus_mod, Z.mod_mod by lia. rewrite Z.sub_diag. now rewrite Z.mod_0_l by lia.
Qed.

(* ... whereas the pinned 0.7.0 scan indexed past the array (finding F2, repaired by 0562141) *)
Theorem C14_client_v070_refuted : as_equal_slice_v070 (LE32 0) = Panic /\ as_equal_slice (LE32 0) = Ok [].
Proof. split; reflexivity. Qed.

(* ---- world login ---- *)
Theorem C14_world_login : forall seed U K pf cseed,
  vanilla_server seed U K pf cseed <> Panic /\ tbc_server seed U K pf cseed <> Panic /\
  wrath_server seed U K pf cseed <> Panic.
Proof.
  intros. repeat split.
  - unfold vanilla_server, into_server_header_crypto. destruct (negb _); discriminate.
  - unfold tbc_server, into_server_header_crypto. destruct (negb _); [discriminate|].
    destruct (tbc_new_ok K) as [c ->]. discriminate.
  - unfold wrath_server, into_server_header_crypto. destruct (negb _); [discriminate|].
    destruct (new_no_panic K) as (ce & sd & se & cd & _ & _ & _ & _ & _ & _ & _ & _ & cc & sc & _ & _ & -> & _). discriminate.
Qed.

(* ---- header bytes, any sequence, any order, any amount ---- *)
Theorem C14_vanilla_headers : forall h data, length (Vanilla.h_key h) = 40%nat -> (HeaderCipher.c_idx (Vanilla.h_st h) < 40)%N ->
  (exists h' out, Vanilla.encrypt h data = Ok (h', out) /\ Vanilla.h_key h' = Vanilla.h_key h /\ (HeaderCipher.c_idx (Vanilla.h_st h') < 40)%N /\
                  length out = length data /\ bytes out) /\
  (exists h' out, Vanilla.decrypt h data = Ok (h', out) /\ Vanilla.h_key h' = Vanilla.h_key h /\ (HeaderCipher.c_idx (Vanilla.h_st h') < 40)%N /\
                  length out = length data).
Proof. exact WS.proofs.Vanilla.no_panic_inv. Qed.

Theorem C14_tbc_headers : forall h data, length (Tbc.h_key h) = 20%nat -> (HeaderCipher.c_idx (Tbc.h_st h) < 20)%N ->
  (exists h' out, Tbc.encrypt h data = Ok (h', out) /\ Tbc.h_key h' = Tbc.h_key h /\ (HeaderCipher.c_idx (Tbc.h_st h') < 20)%N /\ length out = length data) /\
  (exists h' out, Tbc.decrypt h data = Ok (h', out) /\ Tbc.h_key h' = Tbc.h_key h /\ (HeaderCipher.c_idx (Tbc.h_st h') < 20)%N /\ length out = length data).
Proof. exact WS.proofs.Tbc.no_panic_inv. Qed.

Theorem C14_wrath_headers :
  (forall h size opcode, wf_se h -> exists h' w, encrypt_server_header h size opcode = Ok (h', w) /\ wf_se h' /\
      length w = (if (0x7FFF <? size)%N then 5%nat else 4%nat) /\ bytes w) /\
  (forall h size opcode, rc4_inv (ce_rc4 h) -> exists h' w, encrypt_client_header h size opcode = Ok (h', w) /\
      rc4_inv (ce_rc4 h') /\ length w = 6%nat) /\
  (forall h data, rc4_inv (sd_rc4 h) -> length data = 6%nat ->
      exists h' hd, decrypt_client_header h data = Ok (h', hd) /\ rc4_inv (sd_rc4 h')) /\
  (forall h buf, wf_cd h -> length buf = 4%nat ->
      exists h' a, attempt_decrypt_server_header h buf = Ok (h', a) /\ wf_cd h') /\
  (forall h byte, wf_cd h ->
      exists h' hd, decrypt_large_server_header h byte = Ok (h', hd) /\ wf_cd h' /\ cd_hdr h' = cd_hdr h).
Proof. exact header_no_panic. Qed.

Print Assumptions C14_into_server.
Print Assumptions C14_reconnect.
Print Assumptions C14_server_S_nonzero.
Print Assumptions C14_N_prime.
Print Assumptions C14_client_new.
Print Assumptions C14_verify_server_proof.
Print Assumptions C14_zero_secret.
Print Assumptions C14_hostile_B_gives_zero_secret.
Print Assumptions C14_client_v070_refuted.
Print Assumptions C14_world_login.
Print Assumptions C14_vanilla_headers.
Print Assumptions C14_tbc_headers.
Print Assumptions C14_wrath_headers.
