(* C16 — PIN hashes (src/pin.rs).
   Only statements; every proof is `exact` of a lemma from proofs/ or a closed computation.
   Models: model/Pin.v (pin_to_bytes, remap_pin_grid, calculate_hash, verify_client_pin_hash).
   Spec:   spec/Pin.v  (digits, grid = select 10 (seed mod 10!) [0..9], index_of, pin_hash),
           spec/Select.v (selection without replacement = Lehmer decoding). *)
From WS Require Import lib.Bytes lib.Res lib.Sha1 Consts model.Arr model.Pin spec.Select spec.Pin
  proofs.Arr proofs.Pin.
From Coq Require Import Permutation.
Local Open Scope N_scope.

(* The keypad layout is a permutation of 0..9 for every seed (every u32, indeed every N),
   and remap_pin_grid never panics. *)
Theorem C16_grid_perm : forall seed,
  exists g, remap_pin_grid seed = Ok g /\ Permutation g [0; 1; 2; 3; 4; 5; 6; 7; 8; 9].
Proof. exact grid_perm. Qed.

(* It is determined by the seed modulo 10! = 3628800. *)
Theorem C16_grid_mod : forall seed, remap_pin_grid seed = remap_pin_grid (seed mod 3628800).
Proof. exact grid_mod. Qed.

Theorem C16_factorial : fact 10 = 3628800.
Proof. reflexivity. Qed.

(* It is the Lehmer (factorial-base) decoding of seed mod 10! applied to [0..9]: the in-place
   left shift of the Rust loop is the removal of the chosen entry from the pool. *)
Theorem C16_grid_spec : forall seed,
  remap_pin_grid seed = Ok (grid seed) /\ grid seed = select 10 (seed mod fact 10) (iota 10).
Proof. intros seed. split; [apply grid_spec | reflexivity]. Qed.

(* pin_to_bytes yields the decimal expansion, most significant digit first, never writes outside
   its 10-byte array for a u32, and the 4-digit gate is pin >= 1000. *)
Theorem C16_digits : forall pin out, pin < 2 ^ 32 -> length out = 10%nat ->
  pin_to_bytes pin out = Ok (digits pin) /\
  (length (digits pin) <= 10)%nat /\
  ((4 <= length (digits pin))%nat <-> 1000 <= pin).
Proof.
  intros pin out Hpin Hout. pose proof (digits_length_u32 pin Hpin) as Hle.
  split; [apply pin_to_bytes_spec; rewrite Hout; exact Hle|]. split; [exact Hle | apply digits_length_ge4].
Qed.

(* [digits] is the decimal expansion: it evaluates back to the number, every entry is a decimal
   digit and there is no leading zero (so it is empty exactly for 0). *)
Theorem C16_digits_decimal : forall n,
  undigits (digits n) = n /\ Forall (fun d => d < 10) (digits n) /\ (n <> 0 -> hd 0 (digits n) <> 0).
Proof. intros n. split; [apply undigits_digits|]. split; [apply digits_lt10 | apply digits_hd]. Qed.

(* The fuel of the model's digit loop is never the reason for a Panic. *)
Theorem C16_digit_loop_fuel : forall f pin arr i, (i <= length arr)%nat -> (length arr < f + i)%nat ->
  pin_loop f pin arr i = pin_loop (S f) pin arr i.
Proof. exact pin_loop_fuel. Qed.

(* find(..).unwrap() never panics and `+= 0x30` never overflows: both loops of calculate_hash on
   any string of decimal digits; the results are the ASCII digits '0'..'9'. *)
Theorem C16_lookup_total : forall seed ds, Forall (fun d => d < 10) ds ->
  exists idx, map_res (remap_digit (grid seed)) ds = Ok idx /\
              idx = map (fun d => index_of d (grid seed)) ds /\
              Forall (fun i => i < 10) idx /\
              map_res to_ascii idx = Ok (map (fun d => 48 + index_of d (grid seed)) ds) /\
              Forall (fun a => 48 <= a <= 57) (map (fun d => 48 + index_of d (grid seed)) ds).
Proof. exact lookup_total. Qed.

(* [index_of d] is the position of digit d in the layout. *)
Theorem C16_index_position : forall seed d, d < 10 ->
  nth_error (grid seed) (N.to_nat (index_of d (grid seed))) = Some d.
Proof. intros seed d Hd. apply index_of_nth, in_grid, Hd. Qed.

(* The hash, for every u32 PIN, every seed and every pair of salts. *)
Theorem C16_hash : forall pin seed ss cs, pin < 2 ^ 32 -> bytesn 16 ss -> bytesn 16 cs ->
  calculate_hash pin seed ss cs =
  Ok (if pin <? 1000 then None
      else Some (sha1 (cs ++ sha1 (ss ++ map (fun d => 48 + index_of d (grid seed)) (digits pin))))).
Proof. intros pin seed ss cs Hpin _ _. exact (calculate_hash_spec pin seed ss cs Hpin). Qed.

(* Verification returns true exactly when a hash exists and equals the presented one. *)
Theorem C16_verify_iff : forall pin seed ss cs h, pin < 2 ^ 32 -> bytesn 16 ss -> bytesn 16 cs -> bytesn 20 h ->
  exists b, verify_client_pin_hash pin seed ss cs h = Ok b /\
            (b = true <-> 1000 <= pin /\ h = pin_hash seed pin ss cs).
Proof. intros pin seed ss cs h Hpin _ _ _. exact (verify_iff pin seed ss cs h Hpin). Qed.

(* Any single-bit flip of an accepted hash is refused. *)
Theorem C16_bitflip : forall pin seed ss cs h i, pin < 2 ^ 32 -> (i < 160)%nat ->
  verify_client_pin_hash pin seed ss cs h = Ok true ->
  verify_client_pin_hash pin seed ss cs (flip_bit i h) = Ok false.
Proof. exact verify_bitflip. Qed.

(* ---- the vectors of `mod test` in src/pin.rs, evaluated on the model ---- *)
Definition test_client_salt : list N := [121; 62; 76; 125; 207; 0; 130; 51; 128; 244; 161; 24; 110; 245; 114; 57].
Definition test_server_salt : list N := repeat 0 16.

Example C16_test_remap_pin_grid_0 : remap_pin_grid 0 = Ok [0; 1; 2; 3; 4; 5; 6; 7; 8; 9].
Proof. vm_compute. reflexivity. Qed.
Example C16_test_remap_pin_grid_1 : remap_pin_grid 1 = Ok [1; 0; 2; 3; 4; 5; 6; 7; 8; 9].
Proof. vm_compute. reflexivity. Qed.
Example C16_test_remap_pin_grid_last : remap_pin_grid 3628799 = Ok [9; 8; 7; 6; 5; 4; 3; 2; 1; 0].
Proof. vm_compute. reflexivity. Qed.
Example C16_test_pin_to_bytes_max : pin_to_bytes 4294967295 (repeat 0 10) = Ok [4; 2; 9; 4; 9; 6; 7; 2; 9; 5].
Proof. vm_compute. reflexivity. Qed.
Example C16_test_pin_to_bytes_zero : pin_to_bytes 0 (repeat 0 10) = Ok [].
Proof. vm_compute. reflexivity. Qed.
(* test_pin_to_bytes: 1000 and u32::MAX give a hash, 999 gives none *)
Example C16_test_minimum_pin :
  is_ok (calculate_hash 1000 0 test_server_salt test_client_salt) = true /\
  calculate_hash 1000 0 test_server_salt test_client_salt <> Ok None /\
  calculate_hash 999 0 test_server_salt test_client_salt = Ok None /\
  calculate_hash 4294967295 0 test_server_salt test_client_salt <> Ok None.
Proof. vm_compute. repeat split; congruence. Qed.
(* no_remapping *)
Example C16_test_no_remapping :
  calculate_hash 1234 0 test_server_salt test_client_salt =
  Ok (Some [13; 132; 14; 117; 154; 168; 208; 143; 51; 176; 230; 6; 61; 161; 46; 249; 51; 210; 44; 204]).
Proof. vm_compute. reflexivity. Qed.
(* remap_1 *)
Example C16_test_remap_1 :
  calculate_hash 1234 1
    [60; 173; 61; 234; 37; 169; 6; 63; 59; 213; 23; 47; 63; 221; 103; 43]
    [3; 40; 23; 66; 122; 100; 117; 88; 223; 183; 228; 64; 77; 34; 48; 200] =
  Ok (Some [136; 112; 171; 81; 112; 16; 230; 239; 233; 104; 224; 107; 29; 5; 59; 117; 227; 167; 18; 188]).
Proof. vm_compute. reflexivity. Qed.
(* first two lines of tests/pin/regression.txt *)
Example C16_test_regression_1 :
  calculate_hash 1880510129 2979784221
    (unhex "b4e77bf25048482ea6c86c7f7f8a9668"%hex) (unhex "a84649b9259ed1017beb0ca6bdb7f2de"%hex) =
  Ok (Some (unhex "60f004fb1a524a28fde16c9ff4e2f1f5261e875f"%hex)).
Proof. vm_compute. reflexivity. Qed.
Example C16_test_regression_2 :
  calculate_hash 538383572 1693110222
    (unhex "2d0f6231bcd323b6fdb2d15f573e6e37"%hex) (unhex "1646ea634434175a6c4e55db35a17af6"%hex) =
  Ok (Some (unhex "515b7ea2108de13bcd8cd185cdf5050621c2265f"%hex)).
Proof. vm_compute. reflexivity. Qed.
(* an accepted hash and one refused flip, evaluated (non-vacuity of C16_verify_iff / C16_bitflip) *)
Example C16_test_verify :
  let h := [13; 132; 14; 117; 154; 168; 208; 143; 51; 176; 230; 6; 61; 161; 46; 249; 51; 210; 44; 204] in
  verify_client_pin_hash 1234 0 test_server_salt test_client_salt h = Ok true /\
  verify_client_pin_hash 1234 0 test_server_salt test_client_salt (flip_bit 77 h) = Ok false /\
  verify_client_pin_hash 999 0 test_server_salt test_client_salt h = Ok false.
Proof. vm_compute. repeat split. Qed.

Print Assumptions C16_grid_perm.
Print Assumptions C16_grid_mod.
Print Assumptions C16_factorial.
Print Assumptions C16_grid_spec.
Print Assumptions C16_digits.
Print Assumptions C16_digits_decimal.
Print Assumptions C16_digit_loop_fuel.
Print Assumptions C16_lookup_total.
Print Assumptions C16_index_position.
Print Assumptions C16_hash.
Print Assumptions C16_verify_iff.
Print Assumptions C16_bitflip.
Print Assumptions C16_test_no_remapping.
