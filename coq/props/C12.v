(* C12 -- the two directions are independent; split / unsplit / clone lose nothing.
   Only statements; every proof is `exact` of a lemma from proofs/Split.v.

   The object machine (model/HeaderIo.v, a driver, not repository code): an object is
   [Combined c] or [Halves e d]; an operation is [Enc bs] (encrypt this chunk), [Dec bs], [Split],
   [Unsplit], [Clone] (continue with the clone).  [run o ops] = Ok (final object, all bytes produced
   by the Enc operations in order, all bytes produced by the Dec operations in order).  Operations
   that do not apply (Split on halves, Unsplit on a combined object or in a module without
   unsplit) are skipped; an Unsplit that is refused ends the run with Err.
   v_run / t_run / wc_run / ws_run: Vanilla, TBC, Wrath client object, Wrath server object.
   [v_view o] etc. = the (encrypter half, decrypter half) the object consists of;
   [encs ops] / [decs ops] = the chunks of the Enc / Dec operations, in order;
   [run_calls f h chunks] = the calls f on ONE half, one per chunk (lib/Calls.v, as in C07 - C09).
   Invariants: [v_ok] both halves wf_v (key length 40, index < 40) and the same key; [t_ok] both
   halves wf_t; [wc_ok], [ws_ok] the RC4 / array-length invariants of C09 / C10.

   THREADS (not a theorem).  The model has no threads.  Two halves driven from two threads: after
   split each half owns its state by value; the crate is #![forbid(unsafe_code)] and the header
   modules have no interior mutability (no Cell, RefCell, Mutex, Atomic, static mut, thread_local:
   checked syntactically by the harness on every run), so by Rust's ownership rules the two threads
   share no memory, and every two-thread execution is observationally one of the interleavings
   [ops] quantified over below.  This reduction rests on Rust's ownership guarantees (trusted),
   and is additionally exercised by a real two-thread run in the harness (a test, not a proof). *)
From WS Require Import lib.Bytes lib.Res lib.Calls lib.IoScript Consts spec.HeaderCipher model.HeaderCipher
  model.Rc4 model.HeaderIo proofs.HeaderCipher proofs.Rc4 proofs.HeaderIo proofs.Split.
Local Open Scope N_scope.

(* Vanilla, from ANY well-formed object: any finite interleaving of encrypt / decrypt calls with split, unsplit and clone anywhere runs without panic or refusal, and per direction yields exactly the bytes (and the final half) of that direction's calls alone on that direction's half *)
Theorem C12_independent_vanilla : forall ops (o : v_obj),
 v_ok o ->
  exists o' oe od, v_run o ops = Ok (o', oe, od) /\ v_ok o' /\
    run_calls V.encrypt (fst (v_view o)) (encs ops) = Ok (fst (v_view o'), oe) /\
    run_calls V.decrypt (snd (v_view o)) (decs ops) = Ok (snd (v_view o'), od).
Proof. exact independent_vanilla. Qed.

(* ... hence from a fresh object (or its fresh halves): the C07 whole-stream recurrence of the concatenated chunks of each direction *)
Theorem C12_independent_vanilla_new : forall K ops (o : v_obj),
 length K = 40%nat ->
  v_view o = (V.half_new K, V.half_new K) ->
  exists o', v_run o ops =
    Ok (o', encrypt_stream K (concat (encs ops)), decrypt_stream K (concat (decs ops))) /\
    v_view o' = (PV.mk_half K (N.of_nat (length (concat (encs ops)) mod 40)) (last (encrypt_stream K (concat (encs ops))) 0),
                 PV.mk_half K (N.of_nat (length (concat (decs ops)) mod 40)) (last (concat (decs ops)) 0)).
Proof. exact independent_vanilla_new. Qed.

(* TBC: the same (no unsplit in this module: the operation is skipped) *)
Theorem C12_independent_tbc : forall ops (o : t_obj),
 t_ok o ->
  exists o' oe od, t_run o ops = Ok (o', oe, od) /\ t_ok o' /\
    run_calls T.encrypt (fst (t_view o)) (encs ops) = Ok (fst (t_view o'), oe) /\
    run_calls T.decrypt (snd (t_view o)) (decs ops) = Ok (snd (t_view o'), od).
Proof. exact independent_tbc. Qed.

(* ... from a fresh object: the C08 streams under the HMAC-derived key *)
Theorem C12_independent_tbc_new : forall K ops,
 exists e d,
  T.encrypter_new K = Ok e /\ T.decrypter_new K = Ok d /\ T.crypto_new K = Ok (t_mk e d) /\
  forall o : t_obj, t_view o = (e, d) ->
    exists o', t_run o ops =
      Ok (o', encrypt_stream (PT.tbc_key K) (concat (encs ops)), decrypt_stream (PT.tbc_key K) (concat (decs ops))).
Proof. exact independent_tbc_new. Qed.

(* Wrath ClientCrypto / ClientEncrypterHalf + ClientDecrypterHalf *)
Theorem C12_independent_wrath_client : forall ops (o : wc_obj),
 wc_ok o ->
  exists o' oe od, wc_run o ops = Ok (o', oe, od) /\ wc_ok o' /\
    run_calls W.ce_encrypt (fst (wc_view o)) (encs ops) = Ok (fst (wc_view o'), oe) /\
    run_calls W.cd_decrypt (snd (wc_view o)) (decs ops) = Ok (snd (wc_view o'), od).
Proof. exact independent_wrath_client. Qed.

(* Wrath ServerCrypto / ServerEncrypterHalf + ServerDecrypterHalf *)
Theorem C12_independent_wrath_server : forall ops (o : ws_obj),
 ws_ok o ->
  exists o' oe od, ws_run o ops = Ok (o', oe, od) /\ ws_ok o' /\
    run_calls W.se_encrypt (fst (ws_view o)) (encs ops) = Ok (fst (ws_view o'), oe) /\
    run_calls W.sd_decrypt (snd (ws_view o)) (decs ops) = Ok (snd (ws_view o'), od).
Proof. exact independent_wrath_server. Qed.

(* ... from fresh objects: each direction is RC4-drop1024 under its own direction key (C09) *)
Theorem C12_independent_wrath_new : forall K ops,
  (exists e d, W.client_enc_new K = Ok e /\ W.client_dec_new K = Ok d /\ W.client_crypto_new K = Ok (wc_mk e d) /\
     forall o : wc_obj, wc_view o = (e, d) ->
       exists o', wc_run o ops =
         Ok (o', spec.Rc4.rc4_crypt (lib.Hmac.hmac_sha1 Consts.wrath_S K) 1024 (concat (encs ops)),
                 spec.Rc4.rc4_crypt (lib.Hmac.hmac_sha1 Consts.wrath_R K) 1024 (concat (decs ops)))) /\
  (exists e d, W.server_enc_new K = Ok e /\ W.server_dec_new K = Ok d /\ W.server_crypto_new K = Ok (ws_mk e d) /\
     forall o : ws_obj, ws_view o = (e, d) ->
       exists o', ws_run o ops =
         Ok (o', spec.Rc4.rc4_crypt (lib.Hmac.hmac_sha1 Consts.wrath_R K) 1024 (concat (encs ops)),
                 spec.Rc4.rc4_crypt (lib.Hmac.hmac_sha1 Consts.wrath_S K) 1024 (concat (decs ops)))).
Proof. exact independent_wrath_new. Qed.

(* Vanilla re-joining succeeds exactly when both halves carry the same session key (all 40 bytes; in particular keys differing at any one position are refused), otherwise reports the error; never panics; is_pair_of decides the same *)
Theorem C12_unsplit_iff : forall e d,
  (V.unsplit e d = Ok {| V.cr_dec := d; V.cr_enc := e |} <-> V.h_key e = V.h_key d) /\
  (V.unsplit e d = Err tt <-> V.h_key e <> V.h_key d) /\
  (V.is_pair_of e d = true <-> V.h_key e = V.h_key d) /\
  (forall i, nth_error (V.h_key e) i <> nth_error (V.h_key d) i -> V.unsplit e d = Err tt) /\
  V.unsplit e d <> Panic.
Proof. exact unsplit_iff. Qed.

(* unsplit undoes split whenever the two halves of the object carry one key -- always for an object made by crypto_new -- and split undoes unsplit *)
Theorem C12_unsplit_split : 
  (forall c, V.h_key (V.cr_enc c) = V.h_key (V.cr_dec c) ->
     V.unsplit (fst (V.split c)) (snd (V.split c)) = Ok c) /\
  (forall K, V.unsplit (fst (V.split (V.crypto_new K))) (snd (V.split (V.crypto_new K))) = Ok (V.crypto_new K)) /\
  (forall c e d, V.unsplit e d = Ok c -> V.split c = (e, d)).
Proof. exact unsplit_split. Qed.

(* cloning is the identity on the value: clone operations anywhere in a history change neither the outputs nor the final object *)
Theorem C12_clone_transparent : 
  (forall ops (o : v_obj), v_run o ops = v_run o (filter (fun x => negb (is_clone x)) ops)) /\
  (forall ops (o : t_obj), t_run o ops = t_run o (filter (fun x => negb (is_clone x)) ops)) /\
  (forall ops (o : wc_obj), wc_run o ops = wc_run o (filter (fun x => negb (is_clone x)) ops)) /\
  (forall ops (o : ws_obj), ws_run o ops = ws_run o (filter (fun x => negb (is_clone x)) ops)).
Proof. exact clone_transparent. Qed.

(* a history can be cut at any point: the object reached there (equivalently its clone -- values are immutable, so whatever is done with a clone leaves the original as it was) continues exactly as the uncut run does *)
Theorem C12_history_cut : 
  (forall a b (o : v_obj), v_run o (a ++ b) = then_run v_run (v_run o a) b) /\
  (forall a b (o : t_obj), t_run o (a ++ b) = then_run t_run (t_run o a) b) /\
  (forall a b (o : wc_obj), wc_run o (a ++ b) = then_run wc_run (wc_run o a) b) /\
  (forall a b (o : ws_obj), ws_run o (a ++ b) = then_run ws_run (ws_run o a) b).
Proof. exact history_cut. Qed.

(* The Wrath client object driven at HEADER level on its receiving side (wch_run: a 4-byte Dec is
   attempt_decrypt_server_header, a 1-byte Dec is decrypt_large_server_header, which completes the
   header from the four bytes the attempt stashed).  The stash is state of the decrypter half: any
   interleaving with sends, split and clone gives, per direction, exactly the calls of that direction
   on that direction's half. *)
Theorem C12_wrath_client_headers_independent : forall ops (o : wc_obj),
  match wch_run o ops with
  | Ok (o', oe, od) =>
    run_calls W.ce_encrypt (fst (wc_view o)) (encs ops) = Ok (fst (wc_view o'), oe) /\
    run_calls cd_receive (snd (wc_view o)) (decs ops) = Ok (snd (wc_view o'), od)
  | Panic => run_calls W.ce_encrypt (fst (wc_view o)) (encs ops) = Panic \/
             run_calls cd_receive (snd (wc_view o)) (decs ops) = Panic
  | Err _ => False
  end.
Proof. exact wch_run_view_holds. Qed.

(* clones anywhere change nothing and a history can be cut anywhere, at header level too *)
Theorem C12_wrath_client_headers_clone_cut :
  (forall ops (o : wc_obj), wch_run o ops = wch_run o (filter (fun x => negb (is_clone x)) ops)) /\
  (forall a b (o : wc_obj), wch_run o (a ++ b) = then_run wch_run (wch_run o a) b).
Proof. exact wch_clone_and_cut. Qed.

(* a long header whose first four bytes have been received stays pending through anything that is not
   a receive call (sends, split, clones): the fifth byte then yields the same header and the same
   decrypter as the two steps back to back *)
Theorem C12_pending_header_survives : forall (o : wc_obj) buf byte mid,
  decs mid = [] ->
  match wch_run o (Dec buf :: mid ++ [Dec [byte]]) with
  | Ok (o', _, od) =>
    exists d1 out1 d2 out2,
      cd_receive (snd (wc_view o)) buf = Ok (d1, out1) /\ cd_receive d1 [byte] = Ok (d2, out2) /\
      snd (wc_view o') = d2 /\ od = out1 ++ out2
  | Panic =>
    run_calls W.ce_encrypt (fst (wc_view o)) (encs mid) = Panic \/
    cd_receive (snd (wc_view o)) buf = Panic \/
    (exists d1 out1, cd_receive (snd (wc_view o)) buf = Ok (d1, out1) /\ cd_receive d1 [byte] = Panic)
  | Err _ => False
  end.
Proof. exact pending_header_survives. Qed.

(* non-vacuity: a concrete Vanilla history with split, clone, unsplit in the middle, evaluated *)
Example C12_example_vanilla :
  let K := map N.of_nat (seq 1 40) in
  let o : v_obj := Combined (V.crypto_new K) in
  v_ok o /\
  v_run o [Enc [1; 2]; Dec [9]; Split; Enc [3]; Clone; Dec [8; 7]; Unsplit; Enc []; Enc [255; 0]; Split] =
  Ok (Halves (proofs.Vanilla.mk_half K 5 0) (proofs.Vanilla.mk_half K 3 7), [0; 0; 0; 251; 0], [8; 253; 252]) /\
  run_calls V.encrypt (V.half_new K) [[1; 2]; [3]; []; [255; 0]] = Ok (proofs.Vanilla.mk_half K 5 0, [0; 0; 0; 251; 0]) /\
  run_calls V.decrypt (V.half_new K) [[9]; [8; 7]] = Ok (proofs.Vanilla.mk_half K 3 7, [8; 253; 252]).
Proof.
  cbv zeta. split.
  - unfold v_ok. cbn [v_view view V.split V.crypto_new V.cr_enc V.cr_dec fst snd].
    split; [|split; [|reflexivity]]; (split; [reflexivity|cbn; lia]).
  - vm_compute. repeat split; reflexivity.
Qed.

(* keys differing in exactly one byte (here the last) are refused; equal keys are joined *)
Example C12_example_unsplit :
  let K1 := map N.of_nat (seq 1 40) in
  let K2 := map N.of_nat (seq 1 39) ++ [41] in
  V.unsplit (V.half_new K1) (V.half_new K2) = Err tt /\
  V.unsplit (V.half_new K1) (V.half_new K1) = Ok (V.crypto_new K1).
Proof. vm_compute. split; reflexivity. Qed.

Print Assumptions C12_independent_vanilla.
Print Assumptions C12_independent_vanilla_new.
Print Assumptions C12_independent_tbc.
Print Assumptions C12_independent_tbc_new.
Print Assumptions C12_independent_wrath_client.
Print Assumptions C12_independent_wrath_server.
Print Assumptions C12_independent_wrath_new.
Print Assumptions C12_unsplit_iff.
Print Assumptions C12_unsplit_split.
Print Assumptions C12_clone_transparent.
Print Assumptions C12_history_cut.
Print Assumptions C12_wrath_client_headers_independent.
Print Assumptions C12_wrath_client_headers_clone_cut.
Print Assumptions C12_pending_header_survives.
