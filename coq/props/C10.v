(* C10 — Wrath server headers of both lengths round-trip in sequence.
   Only statements; every proof is `exact` of a lemma from proofs/.
   [wf_se h] = rc4_inv (se_rc4 h) /\ length (se_buf h) = 5;  [wf_cd h] = rc4_inv (cd_rc4 h) /\
   length (cd_hdr h) = 4 (the two internal arrays have their Rust lengths). *)
From WS Require Import lib.Bytes lib.Res lib.Calls lib.Hmac Consts spec.Rc4 model.Rc4 model.Wrath
  proofs.Rc4 proofs.Wrath.
Local Open Scope N_scope.

(* The emitted bytes xor the keystream are exactly the documented layout: 4 bytes for
   size <= 0x7FFF, else 5 bytes with 0x80 or-ed into the first; the marker bit of the first
   plaintext byte is set iff the header is long; the cipher advances by the emitted length. *)
Theorem C10_layout : forall se size opcode, wf_se se -> size <= 0x7FFFFF -> opcode < 65536 ->
  let plain := if size <=? 0x7FFF then [size / 256; size mod 256; opcode mod 256; opcode / 256]
               else [N.lor (size / 65536) 128; (size / 256) mod 256; size mod 256; opcode mod 256; opcode / 256] in
  exists se' wire, encrypt_server_header se size opcode = Ok (se', wire) /\ wf_se se' /\
    length wire = length plain /\
    xor_bytes wire (ks (se_rc4 se) (length wire)) = plain /\
    se_rc4 se' = adv (se_rc4 se) (length wire) /\
    (0x7FFF < size <-> N.land (hd 0 plain) 128 <> 0) /\
    bytes wire.
Proof. exact layout. Qed.

(* With the client decrypter in step: a short header is returned by the attempt on its four wire
   bytes; a long one gives AdditionalByteRequired and then (size, opcode) from
   decrypt_large_server_header on the fifth byte; the cipher states are equal again afterwards. *)
Theorem C10_decode_attempt : forall se cd size opcode, wf_se se -> cd_rc4 cd = se_rc4 se ->
  size <= 0x7FFFFF -> opcode < 65536 ->
  exists se' wire, encrypt_server_header se size opcode = Ok (se', wire) /\ wf_se se' /\
    if size <=? 0x7FFF then
      length wire = 4%nat /\
      exists cd', attempt_decrypt_server_header cd wire = Ok (cd', Header size opcode) /\
                  cd_rc4 cd' = se_rc4 se' /\ cd_hdr cd' = cd_hdr cd
    else
      exists a b c d e cd1 cd', wire = [a; b; c; d; e] /\
        attempt_decrypt_server_header cd [a; b; c; d] = Ok (cd1, AdditionalByteRequired) /\
        decrypt_large_server_header cd1 e = Ok (cd', (size, opcode)) /\
        cd_rc4 cd' = se_rc4 se' /\ length (cd_hdr cd') = 4%nat.
Proof. exact decode_attempt. Qed.

(* Any sequence of in-range headers, short and long mixed, encoded on one fresh ServerEncrypterHalf
   and decoded with the two-step API on a fresh ClientDecrypterHalf: exactly the same headers come
   out, exactly the emitted bytes are consumed (anything after them is left), and the two cipher
   states are equal at the end. *)
Theorem C10_sequence : forall K hs, Forall (fun h => fst h <= 0x7FFFFF /\ snd h < 65536) hs ->
  exists se cd se' cd' wire, server_enc_new K = Ok se /\ client_dec_new K = Ok cd /\
    encode_all se hs = Ok (se', wire) /\
    decode_two_step cd wire (length hs) = Ok (cd', hs, []) /\
    (forall rest, decode_two_step cd (wire ++ rest) (length hs) = Ok (cd', hs, rest)) /\
    cd_rc4 cd' = se_rc4 se'.
Proof. exact sequence. Qed.

(* the same from ANY pair of halves in step *)
Theorem C10_sequence_instep : forall se cd hs, wf_se se -> cd_rc4 cd = se_rc4 se ->
  Forall (fun h => fst h <= 0x7FFFFF /\ snd h < 65536) hs ->
  exists se' cd' wire, encode_all se hs = Ok (se', wire) /\
    (forall rest, decode_two_step cd (wire ++ rest) (length hs) = Ok (cd', hs, rest)) /\
    cd_rc4 cd' = se_rc4 se' /\ wf_se se'.
Proof. exact sequence_instep. Qed.

(* No header entry point panics: any state satisfying the invariant, any size / opcode (also
   beyond the documented range), any input bytes of the array length the Rust signature fixes;
   decrypt_large_server_header also without a preceding attempt. *)
Theorem C10_no_panic :
  (forall h size opcode, wf_se h -> exists h' w, encrypt_server_header h size opcode = Ok (h', w) /\ wf_se h' /\
      length w = (if 0x7FFF <? size then 5%nat else 4%nat) /\ bytes w) /\
  (forall h size opcode, rc4_inv (ce_rc4 h) -> exists h' w, encrypt_client_header h size opcode = Ok (h', w) /\
      rc4_inv (ce_rc4 h') /\ length w = 6%nat) /\
  (forall h data, rc4_inv (sd_rc4 h) -> length data = 6%nat ->
      exists h' hd, decrypt_client_header h data = Ok (h', hd) /\ rc4_inv (sd_rc4 h')) /\
  (forall h buf, wf_cd h -> length buf = 4%nat ->
      exists h' a, attempt_decrypt_server_header h buf = Ok (h', a) /\ wf_cd h') /\
  (forall h byte, wf_cd h ->
      exists h' hd, decrypt_large_server_header h byte = Ok (h', hd) /\ wf_cd h' /\ cd_hdr h' = cd_hdr h).
Proof. exact header_no_panic. Qed.

(* documented misuse made explicit: decrypt_large_server_header on a fresh decrypter returns size 0
   and an opcode with low byte 0, and advances the cipher by one byte *)
Theorem C10_large_without_attempt : forall K byte,
  exists cd cd', client_dec_new K = Ok cd /\
    decrypt_large_server_header cd byte = Ok (cd', (0, 256 * N.lxor byte (hd 0 (ks (cd_rc4 cd) 1)))) /\
    cd_rc4 cd' = adv (cd_rc4 cd) 1.
Proof. exact large_without_attempt. Qed.

(* Outside the documented range nothing fails: every size above 0x7FFFFF is encoded without error
   as a five-byte header and arrives as size mod 2^23 (bit 23 collides with the marker bit, bits
   24..31 are never sent). *)
Theorem C10_oversize_wraps : forall se cd size opcode, wf_se se -> cd_rc4 cd = se_rc4 se -> 0x7FFF < size ->
  exists se' a b c d e cd1 cd',
    encrypt_server_header se size opcode = Ok (se', [a; b; c; d; e]) /\
    attempt_decrypt_server_header cd [a; b; c; d] = Ok (cd1, AdditionalByteRequired) /\
    decrypt_large_server_header cd1 e = Ok (cd', (size mod 8388608, opcode mod 65536)) /\
    cd_rc4 cd' = se_rc4 se'.
Proof. exact oversize_wraps. Qed.

Example C10_oversize_example :
  sequence_check (map N.of_nat (seq 1 40)) [(0x800005, 1); (0xFFFFFFFF, 2)] = Some (10%nat, [(5, 1); (0x7FFFFF, 2)], [], true).
Proof. vm_compute. reflexivity. Qed.

(* non-vacuity: a mixed sequence evaluated end to end (27 = 4+4+5+5+4+5 wire bytes, nothing left,
   states equal), and the repository's real-capture vectors (test verify_headers_write: session key
   [capture_K], three server headers and the first client header), through HMAC-SHA1, RC4, the
   1024-byte drop and the header code *)
Example C10_nonvacuous :
  let hs := [(8, 0x1EE); (0x7FFF, 0xFFFF); (0x8000, 0); (0x7FFFFF, 0x3B); (0, 1); (0x800D, 0x1EE)] in
  Forall (fun h => fst h <= 0x7FFFFF /\ snd h < 65536) hs /\
  sequence_check (map N.of_nat (seq 1 40)) hs = Some (27%nat, hs, [], true).
Proof.
  cbv zeta. split; [|vm_compute; reflexivity].
  repeat (constructor; [cbn [fst snd]; split; [apply N.leb_le|apply N.ltb_lt]; reflexivity|]). constructor.
Qed.

Example C10_real_capture :
  match server_enc_new capture_K with
  | Ok se => match encode_all se [(13, 0x1EE); (277, 0x3B); (19, 0x38B)] with Ok (_, w) => w | _ => [] end
  | _ => []
  end = [0x17; 0xaa; 0xd4; 0x4c;  0x1a; 0x9c; 0x7c; 0x10;  0x10; 0xfb; 0x6e; 0xa8] /\
  match server_dec_new capture_K with
  | Ok sd => match decrypt_client_header sd [0x85; 0x0f; 0x6e; 0x91; 0x55; 0xf9] with
             | Ok (_, h) => Some h | _ => None end
  | _ => None
  end = Some (4, 0x4FF).
Proof. exact capture_end_to_end. Qed.

Print Assumptions C10_layout.
Print Assumptions C10_decode_attempt.
Print Assumptions C10_sequence.
Print Assumptions C10_sequence_instep.
Print Assumptions C10_no_panic.
Print Assumptions C10_large_without_attempt.
Print Assumptions C10_oversize_wraps.
