(* Spec vocabulary for credential strings (C13): Rust strings as lists of Unicode scalar values,
   their UTF-8 byte length, the permitted alphabet, ASCII upper-casing, the first offending
   character, byte-string ordering, and the whole of `NormalizedString::new` as one equation.
   Only the two Rust types are taken from the model. *)
From WS Require Import lib.Bytes lib.Res model.NormalizedString.
Local Open Scope N_scope.

(* a Rust `char`: any code point except the surrogates, below 0x110000 *)
Definition scalar (c : N) : Prop := c < 0xD800 \/ (0xE000 <= c /\ c < 0x110000).
Definition scalarb (c : N) : bool := (c <? 0xD800) || ((0xE000 <=? c) && (c <? 0x110000)).

Definition utf8_len (c : N) : nat :=
  if c <? 0x80 then 1 else if c <? 0x800 then 2 else if c <? 0x10000 then 3 else 4.
Definition str_bytes (s : list N) : nat := fold_right (fun c acc => (utf8_len c + acc)%nat) O s.

Definition upper (c : N) : N := if (97 <=? c) && (c <=? 122) then c - 32 else c.
Definition printable (c : N) : Prop := 0x20 <= c /\ c <= 0x7E.
Definition printableb (c : N) : bool := (0x20 <=? c) && (c <=? 0x7E).
Definition first_bad (s : list N) : option N := find (fun c => negb (printableb c)) s.

(* `str` / `[u8]` ordering: bytewise, a strict prefix is smaller *)
Fixpoint lex_cmp (a b : list N) : comparison :=
  match a, b with
  | [], [] => Eq
  | [], _ :: _ => Lt
  | _ :: _, [] => Gt
  | x :: a', y :: b' => match x ?= y with Eq => lex_cmp a' b' | c => c end
  end.

(* the value that stores a given text: the text, zero-padded to 16, and its length *)
Definition ns_of_text (txt : list N) : nstr :=
  {| ns_arr := txt ++ repeat 0 (16 - length txt); ns_len := N.of_nat (length txt) |}.

(* the constructor, as the property describes it *)
Definition ns_spec (s : list N) : res nstr ns_error :=
  if (str_bytes s =? 0)%nat || (16 <? str_bytes s)%nat then Err StringTooLong
  else match first_bad s with
       | Some c => Err (CharacterNotAllowed c)
       | None => Ok (ns_of_text (map upper s))
       end.
