(* Specification of the PIN hash (C16): decimal digits most significant first, the keypad layout
   as the Lehmer decoding of (seed mod 10!), every digit replaced by its position in the layout,
   ASCII, two nested SHA-1 calls.  Definitions only. *)
From WS Require Import lib.Bytes lib.Sha1 spec.Select.
Local Open Scope N_scope.

(* decimal expansion, most significant digit first; the empty list for 0.
   The fuel (number of binary digits) always suffices: proofs/Pin.v, [digits_step]. *)
Fixpoint digits_fuel (f : nat) (n : N) (acc : list N) : list N :=
  match f with
  | O => acc
  | S f' => if n =? 0 then acc else digits_fuel f' (n / 10) (n mod 10 :: acc)
  end.
Definition digits (n : N) : list N := digits_fuel (S (N.to_nat (N.log2 n))) n [].

(* value of a digit string, most significant first *)
Definition undigits (l : list N) : N := fold_left (fun a d => 10 * a + d) l 0.

(* the keypad layout *)
Definition grid (seed : N) : list N := select 10 (seed mod 3628800) (iota 10).

(* position of the first occurrence of d *)
Fixpoint index_of (d : N) (l : list N) : N :=
  match l with [] => 0 | x :: r => if x =? d then 0 else 1 + index_of d r end.

Definition remapped_ascii (seed pin : N) : list N :=
  map (fun d => 48 + index_of d (grid seed)) (digits pin).

Definition pin_hash (seed pin : N) (server_salt client_salt : list N) : list N :=
  sha1 (client_salt ++ sha1 (server_salt ++ remapped_ascii seed pin)).
