(* Spec of the Vanilla/TBC header cipher as a function of the whole stream (C07, C08).
   c_n = ((x_n xor key[n mod klen]) + c_(n-1)) mod 256, with c_(-1) given. *)
From WS Require Import lib.Bytes.
Local Open Scope N_scope.

Fixpoint enc_stream (key : list N) (n : nat) (c : N) (xs : list N) : list N :=
  match xs with
  | [] => []
  | x :: r => let y := (N.lxor x (nth (n mod length key) key 0) + c) mod 256 in
              y :: enc_stream key (S n) y r
  end.

Fixpoint dec_stream (key : list N) (n : nat) (c : N) (ys : list N) : list N :=
  match ys with
  | [] => []
  | y :: r => N.lxor ((y + 256 - c) mod 256) (nth (n mod length key) key 0) :: dec_stream key (S n) y r
  end.

(* the cipher applied from the initial state *)
Definition encrypt_stream key xs := enc_stream key 0 0 xs.
Definition decrypt_stream key ys := dec_stream key 0 0 ys.
