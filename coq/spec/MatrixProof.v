(* Specification of the matrix-card proof (C18): HMAC-SHA1, keyed by MD5(seed as 8 little-endian
   bytes | session key), over the entered digits encrypted with RC4 (textbook RC4 of spec/Rc4.v,
   keystream offset 0) under that same MD5 value.  Definitions only. *)
From WS Require Import lib.Bytes lib.Md5 lib.Hmac spec.Rc4.
Local Open Scope N_scope.

Definition matrix_key (seed : N) (session_key : list N) : list N := md5 (le64 seed ++ session_key).

Definition matrix_message (seed : N) (session_key digits : list N) : list N :=
  rc4_crypt (matrix_key seed session_key) 0 digits.

Definition matrix_proof (seed : N) (session_key digits : list N) : list N :=
  hmac_sha1 (matrix_key seed session_key) (matrix_message seed session_key digits).
