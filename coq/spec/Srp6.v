(* The World of Warcraft flavour of SRP6, written as directly as possible (C03). *)
From WS Require Import lib.Bytes lib.Sha1.
Local Open Scope Z_scope.

Fixpoint drop_zeros (l : list N) : list N := match l with 0%N :: r => drop_zeros r | _ => l end.
Definition strip (s : list N) : list N :=
  let t := drop_zeros s in if Nat.odd (length t) then tl t else t.
Fixpoint evens (l : list N) : list N :=
  match l with a :: _ :: r => a :: evens r | [a] => [a] | [] => [] end.
Fixpoint odds (l : list N) : list N := match l with _ :: b :: r => b :: odds r | _ => [] end.
Fixpoint zip2 (a b : list N) : list N :=
  match a, b with x :: a', y :: b' => x :: y :: zip2 a' b' | _, _ => [] end.
(* RFC 2945 SHA_Interleave on the even/odd bytes *)
Definition interleave (s : list N) : list N := zip2 (sha1 (evens s)) (sha1 (odds s)).

Definition colon : N := 58%N.
Definition sp_x (U P salt : list N) : Z := le_to_Z (sha1 (salt ++ sha1 (U ++ [colon] ++ P))).
Definition sp_v (g n x : Z) : Z := g ^ x mod n.
Definition sp_B (k g n v b : Z) : Z := (k * v + g ^ b mod n) mod n.
Definition sp_A (g n a : Z) : Z := g ^ a mod n.
Definition sp_u (A B : list N) : Z := le_to_Z (sha1 (A ++ B)).
Definition sp_S_server (n A v u b : Z) : Z := (A * (v ^ u mod n)) ^ b mod n.
Definition sp_S_client (k g n B x a u : Z) : Z := ((B - k * (g ^ x mod n)) mod n) ^ (a + u * x) mod n.
Definition sp_K (S : Z) : list N := interleave (strip (LE32 S)).
Definition sp_M1 (gb : N) (nle U salt A B K : list N) : list N :=
  sha1 (xor_bytes (sha1 nle) (sha1 [gb]) ++ sha1 U ++ salt ++ A ++ B ++ K).
Definition sp_M2 (A M1 K : list N) : list N := sha1 (A ++ M1 ++ K).
Definition sp_reconnect_proof (U cd sd K : list N) : list N := sha1 (U ++ cd ++ sd ++ K).
