(* Textbook RC4 (Schneier, Applied Cryptography 2nd ed., 17.1; RFC 6229 for vectors), written
   without reference to the shape of src/rc4.rs.

     KSA :  S[k] = k for k = 0..255;  j = 0
            for i = 0..255:  j = (j + S[i] + key[i mod keylen]) mod 256;  swap S[i], S[j]
     PRGA:  i = j = 0
            per output byte: i = (i + 1) mod 256;  j = (j + S[i]) mod 256;  swap S[i], S[j]
                             output S[(S[i] + S[j]) mod 256]

   The S-box is a FUNCTION N -> N (the model uses a 256-element list with in-place updates), and
   every quantity is defined as "the value after n steps" by recursion on n (the model runs the
   loops forward).  The key must be non-empty: [key_at] on an empty key is not meaningful. *)
From WS Require Import lib.Bytes.
Local Open Scope N_scope.

Definition sbox := N -> N.
Definition id_sbox : sbox := fun k => k.
Definition swap_sbox (sb : sbox) (a b : N) : sbox :=
  fun k => if k =? a then sb b else if k =? b then sb a else sb k.

Definition key_at (key : list N) (i : nat) : N := nth (i mod length key) key 0.

(* S-box and j after the first n iterations of the key schedule *)
Fixpoint ksa_steps (key : list N) (n : nat) : sbox * N :=
  match n with
  | O => (id_sbox, 0)
  | S m => let '(sb, j) := ksa_steps key m in
           let i := N.of_nat m in
           let j' := (j + sb i + key_at key m) mod 256 in
           (swap_sbox sb i j', j')
  end.
Definition ksa (key : list N) : sbox := fst (ksa_steps key 256).

(* generator state *)
Record gen := { g_S : sbox; g_i : N; g_j : N }.
Definition gen_init (key : list N) : gen := {| g_S := ksa key; g_i := 0; g_j := 0 |}.

Definition prga (g : gen) : gen * N :=
  let i := (g_i g + 1) mod 256 in
  let j := (g_j g + g_S g i) mod 256 in
  let sb := swap_sbox (g_S g) i j in
  ({| g_S := sb; g_i := i; g_j := j |}, sb ((sb i + sb j) mod 256)).

(* generator after n output bytes; the n-th output byte (n = 0 is the first) *)
Fixpoint gen_after (key : list N) (n : nat) : gen :=
  match n with O => gen_init key | S m => fst (prga (gen_after key m)) end.
Definition keystream_byte (key : list N) (n : nat) : N := snd (prga (gen_after key n)).

(* bytes off, off+1, .., off+n-1 of the keystream; the first n bytes *)
Definition keystream_from (key : list N) (off n : nat) : list N := map (keystream_byte key) (seq off n).
Definition keystream (key : list N) (n : nat) : list N := keystream_from key 0 n.

(* the cipher: data xor the keystream starting at byte [off] (RC4-drop[off]) *)
Definition rc4_crypt (key : list N) (off : nat) (xs : list N) : list N :=
  xor_bytes xs (keystream_from key off (length xs)).

(* RFC 6229, key 0x0102030405, offset 0 *)
Example rfc6229_40bit : keystream [1;2;3;4;5] 16
  = [0xb2;0x39;0x63;0x05;0xf0;0x3d;0xc0;0x27;0xcc;0xc3;0x52;0x4a;0x0a;0x11;0x18;0xa8].
Proof. vm_compute. reflexivity. Qed.
