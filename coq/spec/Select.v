(* Selection without replacement driven by the mixed-radix digits of a seed: at each step the pool
   has c entries, entry number (seed mod c) is taken out of the pool and the seed is divided by c.
   With a pool of n entries and n steps this is the factorial-base (Lehmer code) decoding of the
   seed into a permutation of the pool.  Used as the specification of the PIN grid (C16) and of the
   matrix-card coordinates (C18).  Definitions only. *)
From WS Require Import lib.Bytes.
Local Open Scope N_scope.

Fixpoint remove_nth {A : Type} (n : nat) (l : list A) : list A :=
  match l, n with
  | [], _ => []
  | _ :: r, O => r
  | x :: r, S m => x :: remove_nth m r
  end.

Fixpoint select (k : nat) (seed : N) (pool : list N) : list N :=
  match k with
  | O => []
  | S k' =>
    let c := N.of_nat (length pool) in
    let r := N.to_nat (seed mod c) in
    nth r pool 0 :: select k' (seed / c) (remove_nth r pool)
  end.

Fixpoint fact (n : nat) : N := match n with O => 1 | S m => N.of_nat n * fact m end.

(* 0, 1, ..., n-1 *)
Definition iota (n : nat) : list N := map N.of_nat (seq 0 n).
