(* C01 / C02 at the level of the typestate API model (model/Server.v, model/Client.v). *)
From WS Require Import lib.Bytes lib.Res lib.Tape lib.Sha1 Consts model.Bigint model.Key model.Srp model.Server model.Client
  spec.Srp6 proofs.Bigint proofs.Key proofs.Srp primes.NFacts.
From Coq Require Import ZifyN ZifyNat ZifyBool Znumtheory Zpow_facts.
Local Open Scope Z_scope.
Local Opaque sha1.

(* g^a mod N is never 0: gcd(7, N) = 1 *)
Lemma gpow_nonzero a : 0 <= a -> 7 ^ a mod Nz <> 0.
Proof.
  intros Ha Hz. apply Z.mod_divide in Hz; [|pose proof Nz_pos; lia].
  assert (Hr : rel_prime Nz (7 ^ a)).
  { apply rel_prime_Zpower_r; [exact Ha|]. apply Zgcd_1_rel_prime. rewrite Z.gcd_comm. exact g_coprime. }
  destruct Hr as [_ _ H]. specialize (H Nz (Z.divide_refl _) Hz).
  apply Z.divide_1_r_nonneg in H; pose proof Nz_pos; [|lia]. 
  pose proof Nz_double. lia.
Qed.

Definition honest_A (a : list N) : list N := LE32 (sp_A 7 Nz (le_to_Z a)).

Lemma client_public_key_honest a : calculate_client_public_key Default a generator n_le = Ok (honest_A a).
Proof.
  destruct (client_public_key_spec a generator n_le Nz_pos Nz_lt) as [H _].
  apply H. apply gpow_nonzero. apply le_to_Z_nonneg.
Qed.

Lemma honest_A_accepted a : check_public_key (honest_A a) = Ok tt.
Proof.
  apply check_iff; [apply LE32_bytesn|]. unfold honest_A, sp_A.
  pose proof (Z.mod_pos_bound (7 ^ le_to_Z a) Nz Nz_pos). pose proof Nz_lt.
  rewrite LE32_value by lia. rewrite Z.mod_mod by (pose proof Nz_pos; lia).
  apply gpow_nonzero, le_to_Z_nonneg.
Qed.

Section Honest.
Variables (U P salt b a chal rest : list N).
Hypothesis Hsalt : length salt = 32%nat.
Hypothesis Hb : length b = 32%nat.
Hypothesis Ha : length a = 32%nat.
Hypothesis Hchal : length chal = 16%nat.
Let t0 := salt ++ b ++ a ++ chal ++ rest.

Let xz := sp_x U P salt.
Let vz := sp_v 7 Nz xz.
Let Bz := sp_B 3 7 Nz vz (le_to_Z b).
Let Az := sp_A 7 Nz (le_to_Z a).
Let Abytes := LE32 Az.
Let Bbytes := LE32 Bz.
Let uz := sp_u Abytes Bbytes.
Let Kexp := sp_K (sp_S_server Nz Az vz uz (le_to_Z b)).
Let M1exp := sp_M1 generator n_le U salt Abytes Bbytes Kexp.
Let M2exp := sp_M2 Abytes M1exp Kexp.

Lemma vz_range : 0 <= vz < 2 ^ 256.
Proof. unfold vz, sp_v. pose proof (Z.mod_pos_bound (7 ^ xz) Nz Nz_pos). pose proof Nz_lt. lia. Qed.
Lemma Az_range : 0 <= Az < 2 ^ 256.
Proof. unfold Az, sp_A. pose proof (Z.mod_pos_bound (7 ^ le_to_Z a) Nz Nz_pos). pose proof Nz_lt. lia. Qed.
Lemma Bz_range : 0 <= Bz < 2 ^ 256.
Proof. unfold Bz, sp_B. pose proof (Z.mod_pos_bound (3 * vz + 7 ^ le_to_Z b mod Nz) Nz Nz_pos). pose proof Nz_lt. lia. Qed.

Lemma draw_app_exact (x y : list N) n : length x = n -> draw n (x ++ y) = (x, y).
Proof.
  intros H. unfold draw. subst n. rewrite firstn_app, firstn_all, Nat.sub_diag, firstn_O, app_nil_r.
  rewrite skipn_app, skipn_all, Nat.sub_diag. reflexivity.
Qed.

Definition acct := {| vf_user := U; vf_v := LE32 vz; vf_salt := salt |}.

Lemma register : from_username_and_password Default U P t0 = Ok (acct, b ++ a ++ chal ++ rest).
Proof.
  unfold from_username_and_password, t0. change (N.to_nat salt_length) with 32%nat.
  rewrite draw_app_exact by exact Hsalt. unfold with_specific_salt. rewrite verifier_spec. reflexivity.
Qed.

(* export to storage and re-import is the identity on the three stored fields *)
Lemma reimport : from_database_values (username_of acct) (password_verifier_of acct) (salt_of acct) = acct.
Proof. reflexivity. Qed.

Definition proof_state := {| pr_user := U; pr_B := Bbytes; pr_salt := salt; pr_b := b; pr_v := LE32 vz |}.

Lemma into_proof_cases :
  (Bz <> 0 -> into_proof Default acct (b ++ a ++ chal ++ rest) = Ok (proof_state, a ++ chal ++ rest)) /\
  (Bz = 0 -> into_proof Default acct (b ++ a ++ chal ++ rest) = Panic).
Proof.
  unfold into_proof. change (N.to_nat private_key_length) with 32%nat.
  rewrite draw_app_exact by exact Hb. unfold with_specific_private_key. cbn [vf_v acct].
  destruct (server_public_key_spec (LE32 vz) b) as [H1 H2].
  rewrite (LE32_value vz vz_range) in H1, H2. fold Bz in H1, H2.
  split; intros HB; [rewrite (H1 HB) | rewrite (H2 HB)]; reflexivity.
Qed.

Definition client_state := {| cc_user := U; cc_M1 := M1exp; cc_A := Abytes; cc_K := Kexp |}.

Lemma secrets : sp_S_client 3 7 Nz Bz xz (le_to_Z a) uz = sp_S_server Nz Az vz uz (le_to_Z b).
Proof.
  unfold Bz, Az, vz. apply secrets_agree; try apply le_to_Z_nonneg.
  - pose proof Nz_double. lia.
Qed.

Lemma client_new_ok :
  client_new Default U P generator n_le Bbytes salt (a ++ chal ++ rest) = Ok (client_state, chal ++ rest).
Proof.
  unfold client_new. change (N.to_nat private_key_length) with 32%nat.
  rewrite draw_app_exact by exact Ha. rewrite client_public_key_honest.
  rewrite (client_S_spec _ _ _ _ _ _ Nz_pos Nz_lt). cbn [bind].
  rewrite calculate_interleaved_spec by apply Z_to_le_length. cbn [bind].
  rewrite client_proof_custom_spec. change (honest_A a) with Abytes.
  replace (le_to_Z Bbytes) with Bz by (symmetry; apply (LE32_value Bz Bz_range)).
  rewrite calculate_x_value, calculate_u_value. fold xz uz. fold Nz.
  replace (Z.of_N generator) with 7 by reflexivity.
  rewrite secrets. reflexivity.
Qed.

Lemma server_K_value : calculate_session_key Default Abytes Bbytes (LE32 vz) b = Ok Kexp.
Proof.
  rewrite session_key_spec by apply Z_to_le_length.
  replace (le_to_Z Abytes) with Az by (symmetry; apply (LE32_value Az Az_range)).
  rewrite (LE32_value vz vz_range). reflexivity.
Qed.

Definition server_state := {| ss_user := U; ss_K := Kexp; ss_chal := chal |}.

Lemma into_server_ok :
  into_server Default proof_state Abytes M1exp (chal ++ rest) = Ok (server_state, M2exp, rest).
Proof.
  unfold into_server. cbn [pr_B pr_v pr_b pr_user pr_salt proof_state]. rewrite server_K_value. cbn [lift bind].
  rewrite client_proof_spec. fold M1exp. rewrite list_eqb_refl. cbn [negb].
  change (N.to_nat reconnect_challenge_data_length) with 16%nat.
  rewrite draw_app_exact by exact Hchal. rewrite server_proof_spec. reflexivity.
Qed.

Lemma verify_ok : verify_server_proof client_state M2exp = Ok {| sc_user := U; sc_K := Kexp |}.
Proof.
  unfold verify_server_proof. cbn [cc_A cc_M1 cc_K cc_user client_state].
  rewrite server_proof_spec. fold M2exp. now rewrite list_eqb_refl.
Qed.

Lemma Kexp_length : length Kexp = 40%nat.
Proof. apply interleave_length. Qed.
End Honest.

(* the complete exchange, for every salt, b, a and challenge on the tape *)
Theorem honest_login U P salt b a chal rest :
  length salt = 32%nat -> length b = 32%nat -> length a = 32%nat -> length chal = 16%nat ->
  forall acct t1, from_username_and_password Default U P (salt ++ b ++ a ++ chal ++ rest) = Ok (acct, t1) ->
  let acct' := from_database_values (username_of acct) (password_verifier_of acct) (salt_of acct) in
  forall pr t2, into_proof Default acct' t1 = Ok (pr, t2) ->
  exists cl t3 srv M2 t4 cli,
    client_new Default U P generator n_le (pr_B pr) (pr_salt pr) t2 = Ok (cl, t3) /\
    check_public_key (cc_A cl) = Ok tt /\
    into_server Default pr (cc_A cl) (cc_M1 cl) t3 = Ok (srv, M2, t4) /\
    verify_server_proof cl M2 = Ok cli /\
    ss_K srv = sc_K cli /\ length (ss_K srv) = 40%nat /\ t4 = rest.
Proof.
  intros Hs Hb Ha Hc acct0 t1 Hreg. rewrite (register U P salt b a chal rest Hs) in Hreg.
  inversion Hreg; subst acct0 t1. clear Hreg. cbn zeta. rewrite reimport.
  intros pr t2 Hpr.
  destruct (into_proof_cases U P salt b a chal rest Hs Hb Ha Hc) as [H1 H2].
  destruct (Z.eq_dec (sp_B 3 7 Nz (sp_v 7 Nz (sp_x U P salt)) (le_to_Z b)) 0) as [E|E].
  - rewrite (H2 E) in Hpr. discriminate.
  - rewrite (H1 E) in Hpr. inversion Hpr; subst pr t2. clear Hpr.
    cbn [pr_B pr_salt proof_state].
    eexists; eexists; eexists; eexists; eexists; eexists.
    split; [apply client_new_ok; assumption|].
    split; [apply honest_A_accepted|].
    split; [apply into_server_ok; assumption|].
    split; [apply verify_ok|].
    split; [reflexivity|]. split; [apply Kexp_length|reflexivity].
Qed.
