(* Layout obligations for pin.rs, integrity.rs, matrix_card.rs, tbc_header, wrath_header. *)
From WS Require Import lib.Bytes lib.Res lib.Sha1 lib.Md5 lib.Hmac Consts Layouts model.Pin model.Integrity model.MatrixProof
  model.Tbc model.Rc4 model.Wrath.
Local Opaque sha1 md5 hmac_sha1 rc4_new apply_keystream.

Definition hmac_of (km : list N * list N) : list N := hmac_sha1 (fst km) (snd km).

(* pin: whenever a hash is produced it is SHA1(layout1 client_salt (SHA1(layout0 bytes server_salt))) *)
Lemma layout_pin pin seed ss cs h :
  Pin.calculate_hash pin seed ss cs = Ok (Some h) ->
  exists bytes, h = sha1 (lay_pin_calculate_hash_1 cs (sha1 (lay_pin_calculate_hash_0 ss bytes))).
Proof.
  unfold Pin.calculate_hash. intros H.
  destruct (pin_to_bytes _ _) as [b| |]; cbn [bind] in H; try discriminate.
  destruct (_ || _); [discriminate|].
  destruct (remap_pin_grid seed) as [g| |]; cbn [bind] in H; try discriminate.
  destruct (map_res (remap_digit g) b) as [b1| |]; cbn [bind] in H; try discriminate.
  destruct (map_res to_ascii b1) as [b2| |]; cbn [bind] in H; try discriminate.
  injection H as <-. exists b2. reflexivity.
Qed.

Lemma layout_integrity_generic files salt key :
  login_integrity_check_generic files salt key =
  sha1 (lay_integrity_finalise_0 key (hmac_of (lay_integrity_login_integrity_check_generic_0 files salt))).
Proof. reflexivity. Qed.

Lemma layout_integrity_mac f1 f2 f3 f4 f5 salt key :
  login_integrity_check_mac f1 f2 f3 f4 f5 salt key =
  sha1 (lay_integrity_finalise_0 key (hmac_of (lay_integrity_login_integrity_check_mac_0 f1 f2 f3 f4 f5 salt))).
Proof.
  unfold login_integrity_check_mac, finalise, hmac_finalize, hmac_update, hmac_new, hmac_of,
    lay_integrity_finalise_0, lay_integrity_login_integrity_check_mac_0.
  cbn [hm_key hm_msg fst snd app]. now rewrite <- !app_assoc.
Qed.

Lemma layout_integrity_windows f1 f2 f3 f4 f5 salt key :
  login_integrity_check_windows f1 f2 f3 f4 f5 salt key =
  sha1 (lay_integrity_finalise_0 key (hmac_of (lay_integrity_checksum_0 salt f1 f2 f3 f4 f5))).
Proof.
  unfold login_integrity_check_windows, checksum, finalise, hmac_finalize, hmac_update, hmac_new, hmac_of,
    lay_integrity_finalise_0, lay_integrity_checksum_0.
  cbn [hm_key hm_msg fst snd app]. now rewrite <- !app_assoc.
Qed.

Lemma layout_matrix_key count h seed w K v :
  verifier_new count h seed w K = Ok v ->
  v_hmac_key v = fst (lay_matrix_card_new_1 (md5 (lay_matrix_card_new_0 seed K))) /\ v_hmac_msg v = [].
Proof.
  unfold verifier_new. intros H.
  destruct (MatrixCard.generate_coordinates _ _ _ _) as [c| |]; cbn [bind] in H; try discriminate.
  destruct (rc4_new _) as [r| |]; cbn [bind] in H; try discriminate.
  injection H as <-. cbn [v_hmac_key v_hmac_msg]. split; reflexivity.
Qed.

Lemma layout_tbc K :
  Tbc.encrypter_new K = (let* k := into_key_array (hmac_of (lay_tbc_header_encrypt_new_0 K tbc_seed_enc)) in
                         Ok {| Tbc.h_key := k; Tbc.h_st := {| HeaderCipher.c_idx := 0; HeaderCipher.c_prev := 0 |} |}) /\
  Tbc.decrypter_new K = (let* k := into_key_array (hmac_of (lay_tbc_header_decrypt_new_0 K tbc_seed_dec)) in
                         Ok {| Tbc.h_key := k; Tbc.h_st := {| HeaderCipher.c_idx := 0; HeaderCipher.c_prev := 0 |} |}).
Proof. split; reflexivity. Qed.

Lemma layout_wrath K dirkey :
  inner_new K dirkey =
  match rc4_new (hmac_of (lay_wrath_header_inner_crypto_mod_new_0 K dirkey)) with
  | Ok r => match apply_keystream r (repeat 0%N (N.to_nat Consts.wrath_drop)) with
            | Ok (r', _) => Ok r' | Err e => Err e | Panic => Panic end
  | Err e => Err e | Panic => Panic
  end.
Proof. reflexivity. Qed.

Print Assumptions layout_integrity_mac.
