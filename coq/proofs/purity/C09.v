(* C09: the model renders every function this property reaches as a function of its arguments, of
   the fields of the object it is called on and of the explicit random tape.  tools/extract_purity.py
   re-reads, on every run, the files the property is anchored in and everything they reach, and lists
   every construct through which a result could depend on anything else (per-thread or global state,
   interior mutability, unsafe code, the environment, the file system, the clock).  The model was
   written against a source in which there are none. *)
From Coq Require Import String List.
From WS Require Import Purity.
Import ListNotations.

Lemma no_hidden_state_C09 : hidden_state_sites_C09 = [].
Proof. reflexivity. Qed.
Lemma no_unsafe_code_C09 : unsafe_sites_C09 = [].
Proof. reflexivity. Qed.
Lemma no_ambient_input_C09 : ambient_input_sites_C09 = [].
Proof. reflexivity. Qed.
Lemma sources_were_scanned_C09 : source_files_scanned_C09 <> 0.
Proof. discriminate. Qed.

(* The types this property reaches get Clone / Copy / PartialEq / Eq / Hash / Ord / PartialOrd by `derive` only
   (field-wise semantics, which is what the models assume: e.g. comparing a NormalizedString compares
   (array, length), cloning a cipher half copies every field) and none of them, nor Drop, is written by hand.
   The list is re-read from the source on every run; a hand-written `impl Clone` (whose `clone_from` may leave
   stale bytes behind), a hand-written comparison, or a derive removed from a type shows here. *)
Local Open Scope string_scope.
Lemma structural_traits_pinned_C09 : structural_traits_C09 =
  ["src/key.rs: $name derives Clone Copy Eq Hash Ord PartialEq PartialOrd";
   "src/normalized_string.rs: NormalizedString derives Clone Eq Hash Ord PartialEq PartialOrd";
   "src/rc4.rs: Rc4 derives Clone Eq Hash Ord PartialEq PartialOrd";
   "src/vanilla_header/decrypt.rs: DecrypterHalf derives Clone Eq Hash Ord PartialEq PartialOrd";
   "src/vanilla_header/encrypt.rs: EncrypterHalf derives Clone Eq Hash Ord PartialEq PartialOrd";
   "src/vanilla_header/mod.rs: ClientHeader derives Clone Copy Eq Hash Ord PartialEq PartialOrd";
   "src/vanilla_header/mod.rs: HeaderCrypto derives Clone Eq Hash Ord PartialEq PartialOrd";
   "src/vanilla_header/mod.rs: ProofSeed derives Clone Copy Eq Hash Ord PartialEq PartialOrd";
   "src/vanilla_header/mod.rs: ServerHeader derives Clone Copy Eq Hash Ord PartialEq PartialOrd";
   "src/wrath_header/decrypt.rs: ClientDecrypterHalf derives Clone Eq Hash Ord PartialEq PartialOrd";
   "src/wrath_header/decrypt.rs: ServerDecrypterHalf derives Clone Eq Hash Ord PartialEq PartialOrd";
   "src/wrath_header/encrypt.rs: ClientEncrypterHalf derives Clone Eq Hash Ord PartialEq PartialOrd";
   "src/wrath_header/encrypt.rs: ServerEncrypterHalf derives Clone Eq Hash Ord PartialEq PartialOrd";
   "src/wrath_header/inner_crypto/mod.rs: InnerCrypto derives Clone Eq Hash Ord PartialEq PartialOrd";
   "src/wrath_header/mod.rs: ClientCrypto derives Clone Eq Hash Ord PartialEq PartialOrd";
   "src/wrath_header/mod.rs: ProofSeed derives Clone Copy Eq Hash Ord PartialEq PartialOrd";
   "src/wrath_header/mod.rs: ServerCrypto derives Clone Eq Hash Ord PartialEq PartialOrd";
   "src/wrath_header/mod.rs: ServerHeader derives Clone Copy Eq Hash Ord PartialEq PartialOrd"].
Proof. reflexivity. Qed.
