(* C03: the model renders every function this property reaches as a function of its arguments, of
   the fields of the object it is called on and of the explicit random tape.  tools/extract_purity.py
   re-reads, on every run, the files the property is anchored in and everything they reach, and lists
   every construct through which a result could depend on anything else (per-thread or global state,
   interior mutability, unsafe code, the environment, the file system, the clock).  The model was
   written against a source in which there are none. *)
From Coq Require Import String List.
From WS Require Import Purity.
Import ListNotations.

Lemma no_hidden_state_C03 : hidden_state_sites_C03 = [].
Proof. reflexivity. Qed.
Lemma no_unsafe_code_C03 : unsafe_sites_C03 = [].
Proof. reflexivity. Qed.
Lemma no_ambient_input_C03 : ambient_input_sites_C03 = [].
Proof. reflexivity. Qed.
Lemma sources_were_scanned_C03 : source_files_scanned_C03 <> 0.
Proof. discriminate. Qed.
