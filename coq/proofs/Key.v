(* C04 and the leading-zero strip: facts about src/key.rs. *)
From WS Require Import lib.Bytes lib.Res Consts model.Bigint model.Key spec.Srp6 proofs.Bigint primes.NFacts.
From Coq Require Import ZifyN ZifyNat ZifyBool.
Local Open Scope Z_scope.

Definition zeros32 : list N := repeat 0%N 32.

Lemma pkl : N.to_nat public_key_length = 32%nat. Proof. reflexivity. Qed.

(* ---- the only multiples of N among 32-byte values are 0 and N ---- *)
Theorem only_two key : bytesn 32 key ->
  (le_to_Z key mod Nz = 0 <-> key = zeros32 \/ key = n_le).
Proof.
  intros [Hl Hb]. pose proof Nz_pos. pose proof Nz_double.
  pose proof (le_to_Z_nonneg key). pose proof (le_to_Z_bound key Hb) as Hub. rewrite Hl in Hub.
  change (256 ^ Z.of_nat 32) with (2 ^ 256) in Hub.
  split.
  - intros Hm. apply Z.mod_divide in Hm; [|lia]. destruct Hm as [q Hq].
    assert (q = 0 \/ q = 1) as [-> | ->] by nia.
    + left. apply le_to_Z_inj; [assumption|apply bytes_repeat0|unfold zeros32; now rewrite repeat_length|].
      unfold zeros32. rewrite le_to_Z_repeat0. lia.
    + right. apply le_to_Z_inj; [assumption|apply n_le_bytes|now rewrite n_le_length|].
      fold Nz. lia.
  - intros [-> | ->].
    + unfold zeros32. now rewrite le_to_Z_repeat0.
    + fold Nz. apply Z.mod_same. lia.
Qed.

Theorem check_iff key : bytesn 32 key ->
  (check_public_key key = Ok tt <-> le_to_Z key mod Nz <> 0).
Proof.
  intros Hk. rewrite (only_two key Hk). unfold check_public_key. rewrite pkl. fold zeros32.
  destruct (list_eqb key zeros32) eqn:E1.
  - apply list_eqb_spec in E1. split; [discriminate | intros H; exfalso; apply H; now left].
  - apply list_eqb_neq in E1. destruct (list_eqb key n_le) eqn:E2.
    + apply list_eqb_spec in E2. split; [discriminate | intros H; exfalso; apply H; now right].
    + apply list_eqb_neq in E2. split; [intros _ [?|?]; contradiction | reflexivity].
Qed.

Theorem error_kinds :
  check_public_key zeros32 = Err PublicKeyIsZero /\
  check_public_key n_le = Err PublicKeyModLargeSafePrimeIsZero.
Proof. split; reflexivity. Qed.

(* the outcome is one of exactly three, decided by the two comparisons *)
Theorem check_cases key :
  (key = zeros32 /\ check_public_key key = Err PublicKeyIsZero) \/
  (key = n_le /\ check_public_key key = Err PublicKeyModLargeSafePrimeIsZero) \/
  (key <> zeros32 /\ key <> n_le /\ check_public_key key = Ok tt).
Proof.
  unfold check_public_key. rewrite pkl. fold zeros32.
  destruct (list_eqb key zeros32) eqn:E1.
  - apply list_eqb_spec in E1. now left.
  - apply list_eqb_neq in E1. destruct (list_eqb key n_le) eqn:E2.
    + apply list_eqb_spec in E2. right; now left.
    + apply list_eqb_neq in E2. right; right. auto.
Qed.

Theorem from_le_bytes_roundtrip key : check_public_key key = Ok tt -> pk_from_le_bytes key = Ok key.
Proof. intros H. unfold pk_from_le_bytes. now rewrite H. Qed.

Theorem from_le_bytes_err key e : check_public_key key = Err e -> pk_from_le_bytes key = Err e.
Proof. intros H. unfold pk_from_le_bytes. now rewrite H. Qed.

Lemma LE32_bytesn z : bytesn 32 (LE32 z).
Proof. split; [apply Z_to_le_length | apply Z_to_le_bytes]. Qed.

Lemma LE32_value z : 0 <= z < 2 ^ 256 -> le_to_Z (LE32 z) = z.
Proof. intros H. apply Z_to_le_to_Z. exact H. Qed.

(* the server's own key B = try_from_bigint z for a reduced z *)
Theorem try_from_bigint_spec be z : 0 <= z < Nz ->
  (z <> 0 -> pk_try_from_bigint be z = Ok (LE32 z)) /\
  (z = 0 -> pk_try_from_bigint be z = Err PublicKeyIsZero).
Proof.
  intros Hz. pose proof Nz_lt. unfold pk_try_from_bigint. rewrite pkl.
  rewrite pad_to_value by (change (256 ^ Z.of_nat 32) with (2 ^ 256); lia). fold (LE32 z).
  split.
  - intros Hne. apply from_le_bytes_roundtrip. apply check_iff; [apply LE32_bytesn|].
    rewrite LE32_value by lia. rewrite Z.mod_small by lia. exact Hne.
  - intros ->. reflexivity.
Qed.

(* the client's own key under an announced modulus n' *)
Theorem client_try_from_bigint_spec be z n' : 0 < le_to_Z n' -> 0 <= z < 2 ^ 256 ->
  (z mod le_to_Z n' <> 0 -> pk_client_try_from_bigint be z n' = Ok (LE32 z)) /\
  (z = 0 -> pk_client_try_from_bigint be z n' = Err PublicKeyIsZero) /\
  (z <> 0 -> z mod le_to_Z n' = 0 -> pk_client_try_from_bigint be z n' = Err PublicKeyModLargeSafePrimeIsZero).
Proof.
  intros Hn Hz. unfold pk_client_try_from_bigint, is_zero, from_bytes_le.
  rewrite rem_nonneg by lia. rewrite pkl.
  rewrite pad_to_value by (change (256 ^ Z.of_nat 32) with (2 ^ 256); lia). fold (LE32 z).
  repeat split.
  - intros Hm. destruct (Z.eqb_spec z 0) as [->|_]; [rewrite Z.mod_0_l in Hm; lia|].
    destruct (Z.eqb_spec (z mod le_to_Z n') 0); [contradiction|reflexivity].
  - intros ->. reflexivity.
  - intros Hne Hm. destruct (Z.eqb_spec z 0); [contradiction|]. rewrite Hm. reflexivity.
Qed.

(* ---- the leading-zero strip ---- *)
Lemma skipn_lead_zeros s : skipn (lead_zeros s) s = drop_zeros s.
Proof.
  induction s as [|x s IH]; [reflexivity|].
  destruct x; cbn [lead_zeros drop_zeros skipn]; [exact IH|reflexivity].
Qed.

Lemma lead_zeros_le s : (lead_zeros s <= length s)%nat.
Proof. induction s as [|x s IH]; cbn [lead_zeros length]; [lia|]. destruct x; cbn [length]; lia. Qed.

Lemma drop_zeros_length s : (length (drop_zeros s) + lead_zeros s = length s)%nat.
Proof. rewrite <- skipn_lead_zeros, skipn_length. pose proof (lead_zeros_le s). lia. Qed.

Lemma skipn_S_tl {A} n (l : list A) : skipn (S n) l = tl (skipn n l).
Proof.
  revert l; induction n as [|n IH]; intros [|x l]; try reflexivity.
  cbn [skipn] in *. destruct l; [destruct n; reflexivity|]. apply (IH (a :: l)).
Qed.

Theorem as_equal_slice_spec s : Nat.even (length s) = true -> as_equal_slice s = Ok (strip s).
Proof.
  intros Hev. unfold as_equal_slice, strip. pose proof (drop_zeros_length s) as Hl.
  pose proof (lead_zeros_le s) as Hle.
  assert (Hpar : Nat.odd (length (drop_zeros s)) = Nat.odd (lead_zeros s)).
  { rewrite <- Nat.negb_odd in Hev. apply negb_true_iff in Hev.
    rewrite <- Hl, Nat.odd_add in Hev.
    destruct (Nat.odd (length (drop_zeros s))), (Nat.odd (lead_zeros s)); cbn in Hev; congruence. }
  rewrite Hpar. destruct (Nat.odd (lead_zeros s)) eqn:Ho.
  - assert (lead_zeros s <> length s).
    { intros E. rewrite E in Ho. rewrite <- Nat.negb_even, Hev in Ho. discriminate. }
    replace (length s <? S (lead_zeros s))%nat with false by lia.
    f_equal. rewrite <- skipn_lead_zeros. apply skipn_S_tl.
  - replace (length s <? lead_zeros s)%nat with false by lia.
    f_equal. apply skipn_lead_zeros.
Qed.

(* the pinned 0.7.0 scan ran off the end of an all-zero secret *)
Theorem as_equal_slice_v070_refuted : as_equal_slice_v070 (repeat 0%N 32) = Panic.
Proof. reflexivity. Qed.
Theorem as_equal_slice_zero : as_equal_slice (repeat 0%N 32) = Ok [].
Proof. reflexivity. Qed.

Lemma strip_length_even s : Nat.even (length (strip s)) = true.
Proof.
  unfold strip. destruct (Nat.odd (length (drop_zeros s))) eqn:Ho.
  - destruct (drop_zeros s) as [|x t]; [discriminate|]. cbn [tl length] in *.
    rewrite Nat.odd_succ in Ho. exact Ho.
  - rewrite <- Nat.negb_odd, Ho. reflexivity.
Qed.

Lemma strip_length_le s : (length (strip s) <= length s)%nat.
Proof.
  unfold strip. pose proof (drop_zeros_length s).
  destruct (Nat.odd _); [destruct (drop_zeros s); cbn [tl length] in *; lia | lia].
Qed.

Lemma strip_bytes s : bytes s -> bytes (strip s).
Proof.
  intros H. unfold strip. assert (Hd : bytes (drop_zeros s)) by (rewrite <- skipn_lead_zeros; now apply bytes_skipn).
  destruct (Nat.odd _); [|exact Hd]. destruct (drop_zeros s); [exact Hd|]. apply bytes_cons in Hd. tauto.
Qed.
