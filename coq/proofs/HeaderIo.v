(* C11: every header entry point equals the raw cipher call on the wire layout; the Read / Write
   wrappers are insensitive to fragmentation and interruptions, leave the cipher untouched when the
   read fails, and report every write error.
   [hmac_sha1] is never unfolded; the Wrath facts come from proofs/Wrath.v through the RC4
   invariant. *)
From WS Require Import lib.Bytes lib.Res lib.Calls lib.IoScript Consts spec.HeaderCipher model.HeaderCipher
  model.Rc4 model.HeaderIo proofs.HeaderCipher proofs.Rc4.
From WS Require proofs.Vanilla proofs.Tbc proofs.Wrath.
From Coq Require Import ZifyN ZifyNat ZifyBool.
Local Open Scope N_scope.
Ltac Zify.zify_post_hook ::= Z.div_mod_to_equations.

Module PV := WS.proofs.Vanilla.
Module PT := WS.proofs.Tbc.
Module PW := WS.proofs.Wrath.

(* ================================================================ scripts ==================== *)

Lemma read_exact_0 s : read_exact 0 s = Ok ([], s).
Proof. destruct s; reflexivity. Qed.

(* the loop of std::io::default_read_exact, one iteration *)
Theorem read_exact_loop n s : read_exact n s =
  match n with
  | O => Ok ([], s)
  | S _ =>
    match reader_read n s with
    | (_, Ok []) => Err UnexpectedEof
    | (s', Ok bs) =>
      match read_exact (n - length bs) s' with
      | Ok (o, r) => Ok (bs ++ o, r) | Err kd => Err kd | Panic => Panic
      end
    | (s', Err kd) => if is_interrupted kd then read_exact n s' else Err kd
    | (_, Panic) => Panic
    end
  end.
Proof.
  destruct n as [|m]; [apply read_exact_0|].
  destruct s as [|[[|b bs]|kd] r]; cbn [read_exact reader_read]; try reflexivity.
  - destruct (Nat.leb_spec (length (b :: bs)) (S m)) as [Hle|Hgt]; [reflexivity|].
    assert (L : length (firstn (S m) (b :: bs)) = S m) by (rewrite firstn_length; lia).
    cbn [firstn] in *. rewrite L, Nat.sub_diag, read_exact_0, app_nil_r. reflexivity.
  - destruct kd; reflexivity.
Qed.

Lemma read_exact_no_panic n s : read_exact n s <> Panic.
Proof.
  revert n; induction s as [|e r IH]; intros [|m]; cbn [read_exact]; try discriminate.
  destruct e as [[|b bs]|kd].
  - discriminate.
  - destruct (length (b :: bs) <=? S m)%nat; [|discriminate].
    specialize (IH (S m - length (b :: bs))%nat).
    destruct (read_exact (S m - length (b :: bs)) r) as [[o r']| |]; [discriminate|discriminate|contradiction].
  - destruct kd; try discriminate. apply IH.
Qed.

Lemma read_exact_data n dd r : dd <> [] -> n <> 0%nat ->
  read_exact n (Data dd :: r) =
  if (length dd <=? n)%nat then
    match read_exact (n - length dd) r with Ok (o, r') => Ok (dd ++ o, r') | Err kd => Err kd | Panic => Panic end
  else Ok (firstn n dd, Data (skipn n dd) :: r).
Proof. intros Hd Hn. destruct dd; [contradiction|]. destruct n; [contradiction|]. reflexivity. Qed.

Lemma delivers_nil : delivers [] [].
Proof. split; [constructor|reflexivity]. Qed.

Lemma delivers_cons e s bs : delivers (e :: s) bs <-> clean e /\ exists t, bs = payload e ++ t /\ delivers s t.
Proof.
  unfold delivers. cbn [map concat]. split.
  - intros [H E]. inversion H; subst. split; [assumption|]. eexists. split; [reflexivity|]. split; [assumption|reflexivity].
  - intros [Hc (t & -> & Hs & <-)]. split; [constructor; assumption|reflexivity].
Qed.

(* fragmentation and interruptions change nothing: the first n delivered bytes come back, the
   rest of the script delivers the remaining ones *)
Theorem read_exact_delivers pre : forall post bs n, delivers pre bs -> (n <= length bs)%nat ->
  exists rest, read_exact n (pre ++ post) = Ok (firstn n bs, rest ++ post) /\ delivers rest (skipn n bs).
Proof.
  induction pre as [|e pre IH]; intros post bs n Hd Hn.
  - destruct Hd as [_ <-]. cbn [map concat length] in *. assert (n = 0)%nat as -> by lia.
    exists []. rewrite read_exact_0. split; [reflexivity|apply delivers_nil].
  - destruct n as [|m].
    { exists (e :: pre). rewrite read_exact_0. split; [reflexivity|exact Hd]. }
    apply delivers_cons in Hd. destruct Hd as [Hc (t & -> & Ht)].
    destruct e as [[|b d]|kd]; cbn [clean] in Hc; try contradiction.
    + assert (Hne : b :: d <> []) by discriminate. remember (b :: d) as dd eqn:Edd. clear Edd.
      cbn [payload] in *. rewrite app_length in Hn. cbn [app]. rewrite read_exact_data by (auto; lia).
      destruct (Nat.leb_spec (length dd) (S m)) as [Hle|Hgt].
      * destruct (IH post t (S m - length dd)%nat Ht ltac:(lia)) as (rest & E & Hr).
        rewrite E. exists rest. split.
        -- f_equal. f_equal. rewrite firstn_app, (firstn_all2 dd) by lia. reflexivity.
        -- rewrite skipn_app, (skipn_all2 dd) by lia. exact Hr.
      * exists (Data (skipn (S m) dd) :: pre). split.
        -- cbn [app]. f_equal. f_equal. rewrite firstn_app.
           replace (S m - length dd)%nat with 0%nat by lia. cbn [firstn]. now rewrite app_nil_r.
        -- apply delivers_cons. split.
           ++ cbn [clean]. destruct (skipn (S m) dd) eqn:Es; [|exact I].
              apply (f_equal (@length N)) in Es. rewrite skipn_length in Es. cbn [length] in Es. lia.
           ++ exists t. split; [|exact Ht]. cbn [payload]. rewrite skipn_app.
              replace (S m - length dd)%nat with 0%nat by lia. reflexivity.
    + destruct kd; cbn [clean] in Hc; try contradiction. cbn [payload app] in *. cbn [read_exact].
      destruct (IH post t (S m) Ht Hn) as (rest & E & Hr). exists rest. split; assumption.
Qed.

Corollary read_exact_delivers_whole s bs n : delivers s bs -> (n <= length bs)%nat ->
  exists rest, read_exact n s = Ok (firstn n bs, rest) /\ delivers rest (skipn n bs).
Proof.
  intros Hd Hn. destruct (read_exact_delivers s [] bs n Hd Hn) as (rest & E & Hr).
  rewrite !app_nil_r in E. eauto.
Qed.

(* every way to fail: fewer than n bytes delivered, then end of file, a zero-length read, or an
   error other than Interrupted -- at every offset 0..n-1 and for every kind at once *)
Theorem read_exact_stops pre : forall tail bs n kd, delivers pre bs -> (length bs < n)%nat -> stops tail kd ->
  read_exact n (pre ++ tail) = Err kd.
Proof.
  induction pre as [|e pre IH]; intros tail bs n kd Hd Hn Hs.
  - destruct n as [|m]; [lia|]. cbn [app].
    destruct tail as [|[[|b d]|k] r]; cbn [stops] in Hs; cbn [read_exact].
    + now subst.
    + now subst.
    + contradiction.
    + destruct Hs as [-> Hk]. destruct kd; try reflexivity. contradiction.
  - apply delivers_cons in Hd. destruct Hd as [Hc (t & -> & Ht)].
    destruct n as [|m]; [lia|].
    destruct e as [[|b d]|k]; cbn [clean] in Hc; try contradiction.
    + assert (Hne : b :: d <> []) by discriminate. remember (b :: d) as dd eqn:Edd. clear Edd.
      cbn [payload] in *. rewrite app_length in Hn. cbn [app]. rewrite read_exact_data by (auto; lia).
      destruct (Nat.leb_spec (length dd) (S m)) as [Hle|Hgt]; [|lia].
      rewrite (IH tail t (S m - length dd)%nat kd Ht ltac:(lia) Hs). reflexivity.
    + destruct k; cbn [clean] in Hc; try contradiction. cbn [payload app] in *. cbn [read_exact].
      apply (IH tail t (S m) kd Ht Hn Hs).
Qed.

(* ... and there is no other way: an Err is always of that form *)
Lemma err_inv_base tail n kd : n <> 0%nat -> stops tail kd ->
  exists pre tail' bs, tail = pre ++ tail' /\ delivers pre bs /\ (length bs < n)%nat /\ stops tail' kd.
Proof.
  intros Hn Hs. exists [], tail, []. split; [reflexivity|]. split; [apply delivers_nil|].
  split; [cbn [length]; lia|exact Hs].
Qed.

Theorem read_exact_err_inv s : forall n kd, read_exact n s = Err kd ->
  exists pre tail bs, s = pre ++ tail /\ delivers pre bs /\ (length bs < n)%nat /\ stops tail kd.
Proof.
  induction s as [|e r IH]; intros [|m] kd E; cbn [read_exact] in E; try discriminate.
  - inversion E; subst. apply err_inv_base; [lia|reflexivity].
  - destruct e as [[|b d]|k].
    + inversion E; subst. apply err_inv_base; [lia|reflexivity].
    + destruct (Nat.leb_spec (length (b :: d)) (S m)) as [Hle|Hgt]; [|discriminate].
      destruct (read_exact (S m - length (b :: d)) r) as [[o r']|k|] eqn:E'; try discriminate.
      inversion E; subst. destruct (IH _ _ E') as (pre & tail & bs & -> & Hd & Hl & Hs).
      exists (Data (b :: d) :: pre), tail, ((b :: d) ++ bs). split; [reflexivity|]. split.
      * apply delivers_cons. split; [exact I|]. exists bs. split; [reflexivity|exact Hd].
      * split; [|exact Hs]. cbn [app length] in *. rewrite ?app_length. lia.
    + destruct k.
      * destruct (IH _ _ E) as (pre & tail & bs & -> & Hd & Hl & Hs).
        exists (Fail Interrupted :: pre), tail, bs. split; [reflexivity|]. split; [|split; assumption].
        apply delivers_cons. split; [exact I|]. exists bs. split; [reflexivity|exact Hd].
      * inversion E; subst. apply err_inv_base; [lia|]. split; [reflexivity|discriminate].
      * inversion E; subst. apply err_inv_base; [lia|]. split; [reflexivity|discriminate].
      * inversion E; subst. apply err_inv_base; [lia|]. split; [reflexivity|discriminate].
Qed.

Lemma read_exact_ok_length s : forall n o r, read_exact n s = Ok (o, r) -> length o = n.
Proof.
  induction s as [|e r IH]; intros [|m] o r' E; cbn [read_exact] in E; try discriminate;
    try (inversion E; reflexivity).
  destruct e as [[|b d]|k]; try discriminate.
  - destruct (Nat.leb_spec (length (b :: d)) (S m)) as [Hle|Hgt].
    + destruct (read_exact (S m - length (b :: d)) r) as [[o' r'']|k|] eqn:E'; try discriminate.
      inversion E; subst. pose proof (IH _ _ _ E') as L. cbn [app length] in *. rewrite ?app_length. lia.
    + inversion E; subst. cbn [firstn length] in *. rewrite firstn_length. lia.
  - destruct k; try discriminate. eapply IH; eassumption.
Qed.

(* ---- write_all ---- *)
Lemma write_all_nil w : write_all [] w = ([], w, Ok tt).
Proof. destruct w; reflexivity. Qed.

(* the loop of std::io::Write::write_all, one iteration *)
Theorem write_all_loop buf w : write_all buf w =
  match buf with
  | [] => ([], w, Ok tt)
  | _ :: _ =>
    match writer_write buf w with
    | (w', Ok O) => ([], w', Err WriteZero)
    | (w', Ok k) => let '(wr, w'', x) := write_all (skipn k buf) w' in (firstn k buf ++ wr, w'', x)
    | (w', Err kd) => if is_interrupted kd then write_all buf w' else ([], w', Err kd)
    | (w', Panic) => ([], w', Panic)
    end
  end.
Proof.
  destruct buf as [|b buf]; [apply write_all_nil|].
  destruct w as [|[[|n]|kd] r]; cbn [write_all writer_write].
  - cbn [length skipn firstn]. rewrite skipn_all, firstn_all. cbn [write_all]. rewrite app_nil_r. reflexivity.
  - reflexivity.
  - cbn [length Nat.min]. reflexivity.
  - destruct kd; reflexivity.
Qed.

Lemma write_all_accept n buf r : buf <> [] ->
  write_all buf (Accept (S n) :: r) =
  let '(wr, r', x) := write_all (skipn (Nat.min (S n) (length buf)) buf) r in
  (firstn (Nat.min (S n) (length buf)) buf ++ wr, r', x).
Proof. destruct buf; [contradiction|reflexivity]. Qed.

(* what the writer got is a prefix of the buffer: all of it exactly when the result is Ok, a
   proper prefix when it is an error; the error is never Interrupted; never a panic *)
Theorem write_all_spec w : forall buf wr w' x, write_all buf w = (wr, w', x) ->
  exists suffix, buf = wr ++ suffix /\
    match x with
    | Ok _ => suffix = []
    | Err kd => suffix <> [] /\ kd <> Interrupted
    | Panic => False
    end.
Proof.
  induction w as [|e r IH]; intros [|b buf] wr w' x E.
  - inversion E; subst. exists []. auto.
  - inversion E; subst. exists []. rewrite app_nil_r. auto.
  - inversion E; subst. exists []. auto.
  - assert (Hne : b :: buf <> []) by discriminate. remember (b :: buf) as bb eqn:Ebb.
    destruct e as [[|n]|kd].
    + subst bb. inversion E; subst. exists (b :: buf). repeat split; discriminate.
    + rewrite write_all_accept in E by exact Hne.
      destruct (write_all (skipn (Nat.min (S n) (length bb)) bb) r) as [[wr1 w1] x1] eqn:E1.
      injection E as E_wr E_w E_x. subst wr w' x.
      destruct (IH _ _ _ _ E1) as (suffix & Hs & Hx). exists suffix. split; [|exact Hx].
      rewrite <- app_assoc, <- Hs. now rewrite firstn_skipn.
    + subst bb. destruct kd; cbn [write_all] in E.
      * apply (IH _ _ _ _ E).
      * inversion E; subst. exists (b :: buf). repeat split; discriminate.
      * inversion E; subst. exists (b :: buf). repeat split; discriminate.
      * inversion E; subst. exists (b :: buf). repeat split; discriminate.
Qed.

Lemma write_all_fail_first buf w kd : buf <> [] -> kd <> Interrupted ->
  write_all buf (WFail kd :: w) = ([], w, Err kd).
Proof. intros Hb Hk. destruct buf; [contradiction|]. destruct kd; try reflexivity. contradiction. Qed.

(* ---- the two wrapper shapes ---- *)
Lemma read_then_ok {H A} n s (h : H) (k : H -> list N -> nres (H * A)) buf rest :
  read_exact n s = Ok (buf, rest) ->
  read_then n s h k = match k h buf with Ok (h', a) => Ok (h', Ok (a, rest)) | Err e => Err e | Panic => Panic end.
Proof. intros E. unfold read_then. now rewrite E. Qed.

Lemma read_then_err {H A} n s (h : H) (k : H -> list N -> nres (H * A)) kd :
  read_exact n s = Err kd -> read_then n s h k = Ok (h, Err kd).
Proof. intros E. unfold read_then. now rewrite E. Qed.

Lemma read_then_delivers {H A} n s (h : H) (k : H -> list N -> nres (H * A)) bs :
  delivers s bs -> (n <= length bs)%nat ->
  exists rest, delivers rest (skipn n bs) /\
    read_then n s h k =
    match k h (firstn n bs) with Ok (h', a) => Ok (h', Ok (a, rest)) | Err e => Err e | Panic => Panic end.
Proof.
  intros Hd Hn. destruct (read_exact_delivers_whole s bs n Hd Hn) as (rest & E & Hr).
  exists rest. split; [exact Hr|]. now apply read_then_ok.
Qed.

(* ================================================================ wire layouts =============== *)
Ltac list_eq := repeat (apply (f_equal2 (@cons N)); [lia|]); reflexivity.

Lemma be16_layout s : s < 65536 -> be16 s = [s / 256; s mod 256].
Proof. intros H. unfold be16, N_to_le. cbn [rev app]. list_eq. Qed.
Lemma le16_layout o : o < 65536 -> le16 o = [o mod 256; o / 256].
Proof. intros H. unfold le16, N_to_le. list_eq. Qed.
Lemma le32_layout o : o < 4294967296 ->
  le32 o = [o mod 256; o / 256 mod 256; o / 65536 mod 256; o / 16777216].
Proof. intros H. unfold le32, N_to_le. list_eq. Qed.

(* big-endian size, little-endian opcode; from_array is the inverse on in-range values *)
Theorem server_layout size opcode : size < 65536 -> opcode < 65536 ->
  V.server_header_bytes size opcode = [size / 256; size mod 256; opcode mod 256; opcode / 256] /\
  V.server_header_from_array (V.server_header_bytes size opcode) = Some (size, opcode).
Proof.
  intros Hs Ho. unfold V.server_header_bytes. rewrite be16_layout, le16_layout by assumption.
  cbn [app]. split; [reflexivity|]. cbn [V.server_header_from_array]. f_equal. f_equal; lia.
Qed.

Theorem client_layout size opcode : size < 65536 -> opcode < 4294967296 ->
  V.client_header_bytes size opcode =
    [size / 256; size mod 256; opcode mod 256; opcode / 256 mod 256; opcode / 65536 mod 256; opcode / 16777216] /\
  V.client_header_from_array (V.client_header_bytes size opcode) = Some (size, opcode).
Proof.
  intros Hs Ho. unfold V.client_header_bytes. rewrite be16_layout, le32_layout by assumption.
  cbn [app]. split; [reflexivity|]. cbn [V.client_header_from_array]. f_equal. f_equal; lia.
Qed.

(* from_array is total on arrays of the right length and yields in-range fields *)
Lemma server_from_array_total out : length out = 4%nat -> exists hd, V.server_header_from_array out = Some hd.
Proof. intros L. destruct (PW.len4 out L) as (a & b & c & d & ->). eexists. reflexivity. Qed.
Lemma client_from_array_total out : length out = 6%nat -> exists hd, V.client_header_from_array out = Some hd.
Proof. intros L. destruct (PW.len6 out L) as (a & b & c & d & e & f & ->). eexists. reflexivity. Qed.

(* ================================================================ vanilla ==================== *)
Definition wf_v (h : V.half) : Prop := length (V.h_key h) = 40%nat /\ c_idx (V.h_st h) < 40.

Lemma wf_v_new K : length K = 40%nat -> wf_v (V.half_new K).
Proof. intros HK. split; [exact HK|cbn; lia]. Qed.

Lemma v_dec_total h data : wf_v h -> exists h' out, V.decrypt h data = Ok (h', out) /\ wf_v h' /\ length out = length data.
Proof.
  intros [HK Hi]. destruct (PV.no_panic_inv h data HK Hi) as [_ (h' & out & E & Hk & Hi' & L)].
  exists h', out. split; [exact E|]. split; [split; [now rewrite Hk|exact Hi']|exact L].
Qed.
Lemma v_enc_total h data : wf_v h -> exists h' out, V.encrypt h data = Ok (h', out) /\ wf_v h' /\ length out = length data.
Proof.
  intros [HK Hi]. destruct (PV.no_panic_inv h data HK Hi) as [(h' & out & E & Hk & Hi' & L & _) _].
  exists h', out. split; [exact E|]. split; [split; [now rewrite Hk|exact Hi']|exact L].
Qed.

(* HeaderCrypto::decrypt_client_header re-implements the parse; it is the delegating version *)
Lemma v_facade_decrypt_client_header c data :
  V.crypto_decrypt_client_header c data = v_on_dec (fun d => V.decrypt_client_header d data) c.
Proof.
  unfold V.crypto_decrypt_client_header, V.crypto_decrypt, v_on_dec, V.decrypt_client_header.
  destruct (V.decrypt (V.cr_dec c) data) as [[d out]|e|]; [|destruct e|reflexivity].
  destruct out as [|b0 [|b1 [|b2 [|b3 [|b4 [|b5 [|b6 out]]]]]]]; reflexivity.
Qed.

Theorem helpers_vanilla :
  (* the typed encrypt helpers are the raw call on the wire layout: same bytes, same new state *)
  (forall h size opcode,
     V.encrypt_server_header h size opcode = V.encrypt h (be16 size ++ le16 opcode) /\
     V.encrypt_client_header h size opcode = V.encrypt h (be16 size ++ le32 opcode)) /\
  (* the typed decrypt helpers are the raw call followed by from_array *)
  (forall h data, wf_v h -> length data = 4%nat ->
     exists h' out hd, V.decrypt h data = Ok (h', out) /\ V.server_header_from_array out = Some hd /\
                       V.decrypt_server_header h data = Ok (h', hd) /\ wf_v h') /\
  (forall h data, wf_v h -> length data = 6%nat ->
     exists h' out hd, V.decrypt h data = Ok (h', out) /\ V.client_header_from_array out = Some hd /\
                       V.decrypt_client_header h data = Ok (h', hd) /\ wf_v h') /\
  (* the combined object: every typed method is the half's method on the matching field, the other
     field untouched -- including decrypt_client_header, which the source writes out again *)
  (forall c size opcode data,
     v_crypto_encrypt_server_header c size opcode = v_on_enc (fun e => V.encrypt_server_header e size opcode) c /\
     v_crypto_encrypt_client_header c size opcode = v_on_enc (fun e => V.encrypt_client_header e size opcode) c /\
     v_crypto_decrypt_server_header c data = v_on_dec (fun d => V.decrypt_server_header d data) c /\
     V.crypto_decrypt_client_header c data = v_on_dec (fun d => V.decrypt_client_header d data) c /\
     V.crypto_encrypt c data = v_on_enc (fun e => V.encrypt e data) c /\
     V.crypto_decrypt c data = v_on_dec (fun d => V.decrypt d data) c).
Proof.
  split; [intros; split; reflexivity|]. split; [|split].
  - intros h data Hw L. destruct (v_dec_total h data Hw) as (h' & out & E & Hw' & Lo).
    destruct (server_from_array_total out ltac:(lia)) as (hd & Ehd).
    exists h', out, hd. unfold V.decrypt_server_header. rewrite E, Ehd. auto.
  - intros h data Hw L. destruct (v_dec_total h data Hw) as (h' & out & E & Hw' & Lo).
    destruct (client_from_array_total out ltac:(lia)) as (hd & Ehd).
    exists h', out, hd. unfold V.decrypt_client_header. rewrite E, Ehd. auto.
  - intros c size opcode data. repeat split; try reflexivity. apply v_facade_decrypt_client_header.
Qed.

(* with a decrypter in step, what the typed helper wrote is what the typed helper reads *)
Theorem helpers_roundtrip_vanilla K n p :
  bytesn 40 K -> p < 256 ->
  let e := PV.mk_half K (N.of_nat (n mod 40)) p in
  (forall size opcode, size < 65536 -> opcode < 65536 ->
     exists e' w, V.encrypt_server_header e size opcode = Ok (e', w) /\ length w = 4%nat /\
                  V.decrypt_server_header e w = Ok (e', (size, opcode))) /\
  (forall size opcode, size < 65536 -> opcode < 4294967296 ->
     exists e' w, V.encrypt_client_header e size opcode = Ok (e', w) /\ length w = 6%nat /\
                  V.decrypt_client_header e w = Ok (e', (size, opcode))).
Proof.
  intros [HK HKb] Hp e.
  assert (Hne : K <> []) by (intros ->; discriminate).
  assert (G : forall plain, bytes plain ->
            exists w, V.encrypt e plain = Ok (PV.mk_half K (N.of_nat ((n + length plain) mod 40)) (last w p), w) /\
                      V.decrypt e w = Ok (PV.mk_half K (N.of_nat ((n + length plain) mod 40)) (last w p), plain) /\
                      length w = length plain).
  { intros plain Hb. exists (enc_stream K n p plain). unfold e.
    rewrite PV.encrypt_spec, PV.decrypt_spec by exact HK.
    rewrite enc_stream_length, dec_enc_stream by assumption. auto. }
  split; intros size opcode Hs Ho.
  - destruct (server_layout size opcode Hs Ho) as [_ Ef].
    destruct (G (V.server_header_bytes size opcode)) as (w & Ee & Ed & L).
    { unfold V.server_header_bytes, be16, le16. apply bytes_app. split; [|apply N_to_le_bytes].
      unfold bytes. apply Forall_rev. apply N_to_le_bytes. }
    eexists; exists w. unfold V.encrypt_server_header, V.decrypt_server_header. rewrite Ee, Ed, Ef.
    split; [reflexivity|]. split; [exact L|reflexivity].
  - destruct (client_layout size opcode Hs Ho) as [_ Ef].
    destruct (G (V.client_header_bytes size opcode)) as (w & Ee & Ed & L).
    { unfold V.client_header_bytes, be16, le32. apply bytes_app. split; [|apply N_to_le_bytes].
      unfold bytes. apply Forall_rev. apply N_to_le_bytes. }
    eexists; exists w. unfold V.encrypt_client_header, V.decrypt_client_header. rewrite Ee, Ed, Ef.
    split; [reflexivity|]. split; [exact L|reflexivity].
Qed.

(* ================================================================ tbc ======================== *)
Definition wf_t (h : T.half) : Prop := length (T.h_key h) = 20%nat /\ c_idx (T.h_st h) < 20.

Lemma wf_t_new K : exists e d, T.encrypter_new K = Ok e /\ T.decrypter_new K = Ok d /\ wf_t e /\ wf_t d /\
  T.h_key e = T.h_key d.
Proof.
  destruct (PT.new_spec K) as [Ee Ed]. eexists; eexists. split; [exact Ee|]. split; [exact Ed|].
  unfold wf_t, PT.mk_half. cbn [T.h_key T.h_st c_idx]. rewrite PT.tbc_key_length. repeat split; lia.
Qed.

Lemma t_dec_total h data : wf_t h -> exists h' out, T.decrypt h data = Ok (h', out) /\ wf_t h' /\ length out = length data.
Proof.
  intros [HK Hi]. destruct (PT.no_panic_inv h data HK Hi) as [_ (h' & out & E & Hk & Hi' & L)].
  exists h', out. split; [exact E|]. split; [split; [now rewrite Hk|exact Hi']|exact L].
Qed.
Lemma t_enc_total h data : wf_t h -> exists h' out, T.encrypt h data = Ok (h', out) /\ wf_t h' /\ length out = length data.
Proof.
  intros [HK Hi]. destruct (PT.no_panic_inv h data HK Hi) as [(h' & out & E & Hk & Hi' & L) _].
  exists h', out. split; [exact E|]. split; [split; [now rewrite Hk|exact Hi']|exact L].
Qed.

Theorem helpers_tbc :
  (forall h size opcode,
     T.encrypt_server_header h size opcode = T.encrypt h (be16 size ++ le16 opcode) /\
     T.encrypt_client_header h size opcode = T.encrypt h (be16 size ++ le32 opcode)) /\
  (forall h data, wf_t h -> length data = 4%nat ->
     exists h' out hd, T.decrypt h data = Ok (h', out) /\ V.server_header_from_array out = Some hd /\
                       t_decrypt_server_header h data = Ok (h', hd) /\ wf_t h') /\
  (forall h data, wf_t h -> length data = 6%nat ->
     exists h' out hd, T.decrypt h data = Ok (h', out) /\ V.client_header_from_array out = Some hd /\
                       t_decrypt_client_header h data = Ok (h', hd) /\ wf_t h') /\
  (forall c size opcode data,
     t_crypto_encrypt_server_header c size opcode = t_on_enc (fun e => T.encrypt_server_header e size opcode) c /\
     t_crypto_encrypt_client_header c size opcode = t_on_enc (fun e => T.encrypt_client_header e size opcode) c /\
     t_crypto_decrypt_server_header c data = t_on_dec (fun d => t_decrypt_server_header d data) c /\
     t_crypto_decrypt_client_header c data = t_on_dec (fun d => t_decrypt_client_header d data) c /\
     T.crypto_encrypt c data = t_on_enc (fun e => T.encrypt e data) c /\
     T.crypto_decrypt c data = t_on_dec (fun d => T.decrypt d data) c).
Proof.
  split; [intros; split; reflexivity|]. split; [|split].
  - intros h data Hw L. destruct (t_dec_total h data Hw) as (h' & out & E & Hw' & Lo).
    destruct (server_from_array_total out ltac:(lia)) as (hd & Ehd).
    exists h', out, hd. unfold t_decrypt_server_header. rewrite E, Ehd. auto.
  - intros h data Hw L. destruct (t_dec_total h data Hw) as (h' & out & E & Hw' & Lo).
    destruct (client_from_array_total out ltac:(lia)) as (hd & Ehd).
    exists h', out, hd. unfold t_decrypt_client_header. rewrite E, Ehd. auto.
  - intros c size opcode data. repeat split; reflexivity.
Qed.

Theorem helpers_roundtrip_tbc k n p :
  bytesn 20 k -> p < 256 ->
  let e := PT.mk_half k (N.of_nat (n mod 20)) p in
  (forall size opcode, size < 65536 -> opcode < 65536 ->
     exists e' w, T.encrypt_server_header e size opcode = Ok (e', w) /\ length w = 4%nat /\
                  t_decrypt_server_header e w = Ok (e', (size, opcode))) /\
  (forall size opcode, size < 65536 -> opcode < 4294967296 ->
     exists e' w, T.encrypt_client_header e size opcode = Ok (e', w) /\ length w = 6%nat /\
                  t_decrypt_client_header e w = Ok (e', (size, opcode))).
Proof.
  intros [HK HKb] Hp e.
  assert (Hne : k <> []) by (intros ->; discriminate).
  assert (G : forall plain, bytes plain ->
            exists w, T.encrypt e plain = Ok (PT.mk_half k (N.of_nat ((n + length plain) mod 20)) (last w p), w) /\
                      T.decrypt e w = Ok (PT.mk_half k (N.of_nat ((n + length plain) mod 20)) (last w p), plain) /\
                      length w = length plain).
  { intros plain Hb. exists (enc_stream k n p plain). unfold e.
    rewrite PT.encrypt_spec, PT.decrypt_spec by exact HK.
    rewrite enc_stream_length, dec_enc_stream by assumption. auto. }
  split; intros size opcode Hs Ho.
  - destruct (server_layout size opcode Hs Ho) as [_ Ef].
    destruct (G (V.server_header_bytes size opcode)) as (w & Ee & Ed & L).
    { unfold V.server_header_bytes, be16, le16. apply bytes_app. split; [|apply N_to_le_bytes].
      unfold bytes. apply Forall_rev. apply N_to_le_bytes. }
    eexists; exists w. unfold T.encrypt_server_header, t_decrypt_server_header.
    change (T.server_header_bytes size opcode) with (V.server_header_bytes size opcode). rewrite Ee, Ed, Ef.
    split; [reflexivity|]. split; [exact L|reflexivity].
  - destruct (client_layout size opcode Hs Ho) as [_ Ef].
    destruct (G (V.client_header_bytes size opcode)) as (w & Ee & Ed & L).
    { unfold V.client_header_bytes, be16, le32. apply bytes_app. split; [|apply N_to_le_bytes].
      unfold bytes. apply Forall_rev. apply N_to_le_bytes. }
    eexists; exists w. unfold T.encrypt_client_header, t_decrypt_client_header.
    change (T.client_header_bytes size opcode) with (V.client_header_bytes size opcode). rewrite Ee, Ed, Ef.
    split; [reflexivity|]. split; [exact L|reflexivity].
Qed.

(* ================================================================ wrath ====================== *)

(* the documented wire layout of a Wrath server header *)
Definition wrath_server_layout (size opcode : N) : list N :=
  if size <=? 0x7FFF then be16 size ++ le16 opcode
  else [N.lor (size / 65536) 128; size / 256 mod 256; size mod 256] ++ le16 opcode.

Lemma wrath_plain_is_layout size opcode : size <= 0x7FFFFF -> opcode < 65536 ->
  PW.server_header_plain size opcode = wrath_server_layout size opcode.
Proof.
  intros Hs Ho. destruct (PW.plain_layout size opcode Hs Ho) as [E _]. rewrite E. unfold wrath_server_layout.
  destruct (N.leb_spec size 0x7FFF).
  - rewrite be16_layout, le16_layout by lia. reflexivity.
  - rewrite le16_layout by lia. reflexivity.
Qed.

Lemma w_facade_decrypt_client_header c data :
  W.sc_decrypt_client_header c data = W.lift_enc W.sc_dec W.sc_set_dec (fun h => W.decrypt_client_header h data) c.
Proof.
  unfold W.sc_decrypt_client_header, W.sc_decrypt, W.lift_enc, W.decrypt_client_header.
  destruct (W.sd_decrypt (W.sc_dec c) data) as [[d out]|e|]; [|destruct e|reflexivity].
  destruct (V.client_header_from_array out); reflexivity.
Qed.

Theorem helpers_wrath :
  (* client header, ClientEncrypterHalf *)
  (forall h size opcode, W.encrypt_client_header h size opcode = W.ce_encrypt h (be16 size ++ le32 opcode)) /\
  (* server header, ServerEncrypterHalf: the bytes are the raw call on the layout, the cipher state
     is the raw call's (the 5-byte scratch buffer of the half is the only other field) *)
  (forall h size opcode, PW.wf_se h -> size <= 0x7FFFFF -> opcode < 65536 ->
     exists h1 h' out, W.se_encrypt h (wrath_server_layout size opcode) = Ok (h1, out) /\
       W.encrypt_server_header h size opcode = Ok (h', out) /\ W.se_rc4 h' = W.se_rc4 h1 /\ PW.wf_se h') /\
  (* client header, ServerDecrypterHalf *)
  (forall h data, rc4_inv (W.sd_rc4 h) -> length data = 6%nat ->
     exists h' out hd, W.sd_decrypt h data = Ok (h', out) /\ V.client_header_from_array out = Some hd /\
       W.decrypt_client_header h data = Ok (h', hd) /\ rc4_inv (W.sd_rc4 h')) /\
  (* server header, ClientDecrypterHalf, first step: raw call on the four bytes, then the marker bit *)
  (forall h buf, PW.wf_cd h -> length buf = 4%nat ->
     exists h1 b0 b1 b2 b3, W.cd_decrypt h buf = Ok (h1, [b0; b1; b2; b3]) /\ PW.wf_cd h1 /\
       W.attempt_decrypt_server_header h buf =
       Ok (if W.large_header b0
           then ({| W.cd_rc4 := W.cd_rc4 h1; W.cd_hdr := [b0; b1; b2; b3] |}, W.AdditionalByteRequired)
           else (h1, W.Header (b0 * 256 + b1) (b2 + 256 * b3)))) /\
  (* second step: raw call on the fifth byte, combined with the stash *)
  (forall h byte, PW.wf_cd h ->
     exists h1 b4 s0 s1 s2 s3, W.cd_decrypt h [byte] = Ok (h1, [b4]) /\ W.cd_hdr h = [s0; s1; s2; s3] /\ PW.wf_cd h1 /\
       W.decrypt_large_server_header h byte =
       Ok (h1, (N.land s0 127 * 65536 + s1 * 256 + s2, s3 + 256 * b4))) /\
  (* ClientCrypto / ServerCrypto: every method is the half's method on the matching field *)
  (forall c size opcode data,
     W.sc_decrypt_client_header c data = W.lift_enc W.sc_dec W.sc_set_dec (fun h => W.decrypt_client_header h data) c /\
     W.sc_encrypt_server_header c size opcode =
       W.lift_enc W.sc_enc W.sc_set_enc (fun h => W.encrypt_server_header h size opcode) c) /\
  (forall c size opcode buf byte,
     W.cc_encrypt_client_header c size opcode =
       W.lift_enc W.cc_enc W.cc_set_enc (fun h => W.encrypt_client_header h size opcode) c /\
     W.cc_attempt_decrypt_server_header c buf =
       W.lift_enc W.cc_dec W.cc_set_dec (fun h => W.attempt_decrypt_server_header h buf) c /\
     W.cc_decrypt_large_server_header c byte =
       W.lift_enc W.cc_dec W.cc_set_dec (fun h => W.decrypt_large_server_header h byte) c).
Proof.
  split; [reflexivity|]. split; [|split; [|split; [|split; [|split]]]].
  - intros h size opcode Hw Hs Ho.
    destruct (PW.encrypt_server_header_spec h size opcode Hw) as (h' & E & Hw' & Er & _).
    rewrite <- wrath_plain_is_layout by assumption. destruct Hw as [Hi Hb].
    rewrite (PW.se_call h _ Hi). do 3 eexists. split; [reflexivity|]. split; [exact E|]. split; [exact Er|exact Hw'].
  - intros h data Hi HL. unfold W.decrypt_client_header. rewrite (PW.sd_call h data Hi).
    assert (HLo : length (xor_bytes data (ks (W.sd_rc4 h) (length data))) = 6%nat)
      by (rewrite xor_bytes_length; [exact HL | now rewrite ks_length]).
    destruct (client_from_array_total _ HLo) as (hd & Ehd). rewrite Ehd.
    do 3 eexists. split; [reflexivity|]. split; [exact Ehd|]. split; [reflexivity|]. now apply adv_inv.
  - intros h buf [Hi Hh] HL. unfold W.attempt_decrypt_server_header. rewrite (PW.cd_call h buf Hi).
    assert (HLo : length (xor_bytes buf (ks (W.cd_rc4 h) (length buf))) = 4%nat)
      by (rewrite xor_bytes_length; [exact HL | now rewrite ks_length]).
    destruct (PW.len4 _ HLo) as (a & b & c & d & ->).
    exists (PW.cd_upd h (adv (W.cd_rc4 h) (length buf))), a, b, c, d. split; [reflexivity|].
    split; [split; [now apply adv_inv|exact Hh]|]. destruct (W.large_header a); reflexivity.
  - intros h byte [Hi Hh]. unfold W.decrypt_large_server_header. rewrite (PW.cd_call h [byte] Hi).
    assert (HLo : length (xor_bytes [byte] (ks (W.cd_rc4 h) (length [byte]))) = 1%nat)
      by (rewrite xor_bytes_length; [reflexivity | now rewrite ks_length]).
    destruct (PW.len1 _ HLo) as (b4 & ->). cbn [PW.cd_upd W.cd_hdr].
    destruct (PW.len4 _ Hh) as (s0 & s1 & s2 & s3 & Eh).
    exists (PW.cd_upd h (adv (W.cd_rc4 h) (length [byte]))), b4, s0, s1, s2, s3.
    split; [reflexivity|]. split; [exact Eh|].
    split; [split; [now apply adv_inv|exact Hh]|]. rewrite Eh. reflexivity.
  - intros c size opcode data. split; [apply w_facade_decrypt_client_header|reflexivity].
  - intros c size opcode buf byte. repeat split; reflexivity.
Qed.

(* ================================================================ Read wrappers ============== *)

(* pushing a post-processing of the result through the facade's delegation *)
Lemma v_on_dec_map {A B} (f : V.half -> nres (V.half * A)) (g : A -> B) c :
  v_on_dec (fun d => match f d with Ok (d', a) => Ok (d', g a) | Err e => Err e | Panic => Panic end) c =
  match v_on_dec f c with Ok (c', a) => Ok (c', g a) | Err e => Err e | Panic => Panic end.
Proof. unfold v_on_dec. destruct (f (V.cr_dec c)) as [[d a]|e|]; [reflexivity|destruct e|reflexivity]. Qed.
Lemma t_on_dec_map {A B} (f : T.half -> nres (T.half * A)) (g : A -> B) c :
  t_on_dec (fun d => match f d with Ok (d', a) => Ok (d', g a) | Err e => Err e | Panic => Panic end) c =
  match t_on_dec f c with Ok (c', a) => Ok (c', g a) | Err e => Err e | Panic => Panic end.
Proof. unfold t_on_dec. destruct (f (T.cr_dec c)) as [[d a]|e|]; [reflexivity|destruct e|reflexivity]. Qed.
Lemma w_lift_map {C H A B} (get : C -> H) (set : C -> H -> C) (f : H -> nres (H * A)) (g : A -> B) c :
  W.lift_enc get set (fun d => match f d with Ok (d', a) => Ok (d', g a) | Err e => Err e | Panic => Panic end) c =
  match W.lift_enc get set f c with Ok (c', a) => Ok (c', g a) | Err e => Err e | Panic => Panic end.
Proof. unfold W.lift_enc. destruct (f (get c)) as [[d a]|e|]; [reflexivity|destruct e|reflexivity]. Qed.

Lemma v_on_dec_id {A} (a : A) c : v_on_dec (fun d => Ok (d, a)) c = Ok (c, a).
Proof. destruct c; reflexivity. Qed.
Lemma t_on_dec_id {A} (a : A) c : t_on_dec (fun d => Ok (d, a)) c = Ok (c, a).
Proof. destruct c; reflexivity. Qed.

Ltac frag_half Hd Hn :=
  match goal with |- context [read_then ?n ?s ?h ?k] =>
    destruct (read_then_delivers n s h k _ Hd Hn) as (rest & Hr & E); exists rest; split; [exact Hr|exact E] end.

(* a reader that delivers the bytes in arbitrary fragments, with arbitrary interruptions: the
   wrapper is the array call on the first 4 / 6 delivered bytes *)
Theorem read_fragmented_vanilla s bs : delivers s bs ->
  (forall h, (4 <= length bs)%nat -> exists rest, delivers rest (skipn 4 bs) /\
     v_read_and_decrypt_server_header h s =
     match V.decrypt_server_header h (firstn 4 bs) with
     | Ok (h', hd) => Ok (h', Ok (hd, rest)) | Err e => Err e | Panic => Panic end) /\
  (forall h, (6 <= length bs)%nat -> exists rest, delivers rest (skipn 6 bs) /\
     v_read_and_decrypt_client_header h s =
     match V.decrypt_client_header h (firstn 6 bs) with
     | Ok (h', hd) => Ok (h', Ok (hd, rest)) | Err e => Err e | Panic => Panic end) /\
  (forall c, (4 <= length bs)%nat -> exists rest, delivers rest (skipn 4 bs) /\
     v_crypto_read_and_decrypt_server_header c s =
     match v_crypto_decrypt_server_header c (firstn 4 bs) with
     | Ok (c', hd) => Ok (c', Ok (hd, rest)) | Err e => Err e | Panic => Panic end) /\
  (forall c, (6 <= length bs)%nat -> exists rest, delivers rest (skipn 6 bs) /\
     v_crypto_read_and_decrypt_client_header c s =
     match V.crypto_decrypt_client_header c (firstn 6 bs) with
     | Ok (c', hd) => Ok (c', Ok (hd, rest)) | Err e => Err e | Panic => Panic end).
Proof.
  intros Hd. split; [|split; [|split]].
  - intros h Hn. unfold v_read_and_decrypt_server_header. change (N.to_nat vanilla_server_header_length) with 4%nat.
    frag_half Hd Hn.
  - intros h Hn. unfold v_read_and_decrypt_client_header. change (N.to_nat vanilla_client_header_length) with 6%nat.
    frag_half Hd Hn.
  - intros c Hn. destruct (read_exact_delivers_whole s bs 4 Hd Hn) as (rest & E & Hr). exists rest. split; [exact Hr|].
    unfold v_crypto_read_and_decrypt_server_header, v_crypto_decrypt_server_header, v_read_and_decrypt_server_header, read_then.
    change (N.to_nat vanilla_server_header_length) with 4%nat. rewrite E.
    apply (v_on_dec_map (fun d => V.decrypt_server_header d (firstn 4 bs)) (fun hd => Ok (hd, rest))).
  - intros c Hn. destruct (read_exact_delivers_whole s bs 6 Hd Hn) as (rest & E & Hr). exists rest. split; [exact Hr|].
    rewrite v_facade_decrypt_client_header.
    unfold v_crypto_read_and_decrypt_client_header, v_read_and_decrypt_client_header, read_then.
    change (N.to_nat vanilla_client_header_length) with 6%nat. rewrite E.
    apply (v_on_dec_map (fun d => V.decrypt_client_header d (firstn 6 bs)) (fun hd => Ok (hd, rest))).
Qed.

Theorem read_fragmented_tbc s bs : delivers s bs ->
  (forall h, (4 <= length bs)%nat -> exists rest, delivers rest (skipn 4 bs) /\
     t_read_and_decrypt_server_header h s =
     match t_decrypt_server_header h (firstn 4 bs) with
     | Ok (h', hd) => Ok (h', Ok (hd, rest)) | Err e => Err e | Panic => Panic end) /\
  (forall h, (6 <= length bs)%nat -> exists rest, delivers rest (skipn 6 bs) /\
     t_read_and_decrypt_client_header h s =
     match t_decrypt_client_header h (firstn 6 bs) with
     | Ok (h', hd) => Ok (h', Ok (hd, rest)) | Err e => Err e | Panic => Panic end) /\
  (forall c, (4 <= length bs)%nat -> exists rest, delivers rest (skipn 4 bs) /\
     t_crypto_read_and_decrypt_server_header c s =
     match t_crypto_decrypt_server_header c (firstn 4 bs) with
     | Ok (c', hd) => Ok (c', Ok (hd, rest)) | Err e => Err e | Panic => Panic end) /\
  (forall c, (6 <= length bs)%nat -> exists rest, delivers rest (skipn 6 bs) /\
     t_crypto_read_and_decrypt_client_header c s =
     match t_crypto_decrypt_client_header c (firstn 6 bs) with
     | Ok (c', hd) => Ok (c', Ok (hd, rest)) | Err e => Err e | Panic => Panic end).
Proof.
  intros Hd. split; [|split; [|split]].
  - intros h Hn. unfold t_read_and_decrypt_server_header. frag_half Hd Hn.
  - intros h Hn. unfold t_read_and_decrypt_client_header. frag_half Hd Hn.
  - intros c Hn. destruct (read_exact_delivers_whole s bs 4 Hd Hn) as (rest & E & Hr). exists rest. split; [exact Hr|].
    unfold t_crypto_read_and_decrypt_server_header, t_crypto_decrypt_server_header, t_read_and_decrypt_server_header, read_then.
    rewrite E. apply (t_on_dec_map (fun d => t_decrypt_server_header d (firstn 4 bs)) (fun hd => Ok (hd, rest))).
  - intros c Hn. destruct (read_exact_delivers_whole s bs 6 Hd Hn) as (rest & E & Hr). exists rest. split; [exact Hr|].
    unfold t_crypto_read_and_decrypt_client_header, t_crypto_decrypt_client_header, t_read_and_decrypt_client_header, read_then.
    rewrite E. apply (t_on_dec_map (fun d => t_decrypt_client_header d (firstn 6 bs)) (fun hd => Ok (hd, rest))).
Qed.

(* the Wrath client header (server side): fixed 6 bytes *)
Theorem read_fragmented_wrath_client_header s bs : delivers s bs -> (6 <= length bs)%nat ->
  (forall h, exists rest, delivers rest (skipn 6 bs) /\
     w_read_and_decrypt_client_header h s =
     match W.decrypt_client_header h (firstn 6 bs) with
     | Ok (h', hd) => Ok (h', Ok (hd, rest)) | Err e => Err e | Panic => Panic end) /\
  (forall c, exists rest, delivers rest (skipn 6 bs) /\
     sc_read_and_decrypt_client_header c s =
     match W.sc_decrypt_client_header c (firstn 6 bs) with
     | Ok (c', hd) => Ok (c', Ok (hd, rest)) | Err e => Err e | Panic => Panic end).
Proof.
  intros Hd Hn. split.
  - intros h. unfold w_read_and_decrypt_client_header. frag_half Hd Hn.
  - intros c. destruct (read_exact_delivers_whole s bs 6 Hd Hn) as (rest & E & Hr). exists rest. split; [exact Hr|].
    rewrite w_facade_decrypt_client_header.
    unfold sc_read_and_decrypt_client_header, w_read_and_decrypt_client_header, read_then. rewrite E.
    apply (w_lift_map W.sc_dec W.sc_set_dec (fun d => W.decrypt_client_header d (firstn 6 bs)) (fun hd => Ok (hd, rest))).
Qed.

(* the Wrath server header (client side): 4 bytes, and a fifth exactly when the decrypted first
   byte carries the marker; the wrapper is the documented two-step array protocol *)
Definition two_step (h : W.client_dec) (bs : list N) (rest4 rest5 : rscript)
  : nres (W.client_dec * res (hdr * rscript) io_kind) :=
  match W.attempt_decrypt_server_header h (firstn 4 bs) with
  | Ok (h1, W.Header sz op) => Ok (h1, Ok ((sz, op), rest4))
  | Ok (h1, W.AdditionalByteRequired) =>
    match nth_error bs 4 with
    | Some b => match W.decrypt_large_server_header h1 b with
                | Ok (h2, hd) => Ok (h2, Ok (hd, rest5)) | Err e => Err e | Panic => Panic end
    | None => Ok (h1, Err UnexpectedEof)
    end
  | Err e => Err e | Panic => Panic
  end.

Lemma skipn_skipn1 {A} (l : list A) n : skipn 1 (skipn n l) = skipn (S n) l.
Proof.
  revert l; induction n as [|n IH]; intros l.
  - reflexivity.
  - destruct l as [|x l]; [reflexivity|]. cbn [skipn] in *. rewrite <- IH. reflexivity.
Qed.

Lemma firstn1_skipn4 (bs : list N) b : nth_error bs 4 = Some b -> firstn 1 (skipn 4 bs) = [b] /\ (5 <= length bs)%nat.
Proof.
  destruct bs as [|b0 [|b1 [|b2 [|b3 [|b4 r]]]]]; cbn [nth_error]; try discriminate.
  intros E. inversion E; subst. split; [reflexivity|cbn [length]; lia].
Qed.

Theorem read_fragmented_wrath_server_header s bs h : delivers s bs -> (4 <= length bs)%nat ->
  exists rest4 rest5, delivers rest4 (skipn 4 bs) /\ delivers rest5 (skipn 5 bs) /\
    w_read_and_decrypt_server_header h s = two_step h bs rest4 rest5.
Proof.
  intros Hd Hn.
  destruct (read_exact_delivers_whole s bs 4 Hd Hn) as (rest4 & E4 & Hr4).
  unfold w_read_and_decrypt_server_header, two_step. rewrite E4.
  destruct (nth_error bs 4) as [b|] eqn:Eb.
  - destruct (firstn1_skipn4 bs b Eb) as [F1 L5].
    destruct (read_exact_delivers_whole rest4 (skipn 4 bs) 1 Hr4) as (rest5 & E5 & Hr5).
    { rewrite skipn_length. lia. }
    rewrite F1 in E5. rewrite skipn_skipn1 in Hr5.
    exists rest4, rest5. split; [exact Hr4|]. split; [exact Hr5|]. rewrite E5. reflexivity.
  - apply nth_error_None in Eb. assert (L : length bs = 4%nat) by lia.
    assert (E1 : read_exact 1 rest4 = Err UnexpectedEof).
    { rewrite <- (app_nil_r rest4). apply (read_exact_stops rest4 [] (skipn 4 bs) 1 UnexpectedEof Hr4).
      - rewrite skipn_length. lia.
      - reflexivity. }
    exists rest4, rest4. split; [exact Hr4|]. split.
    + rewrite (skipn_all2 bs) by lia. rewrite (skipn_all2 bs) in Hr4 by lia. exact Hr4.
    + rewrite E1. reflexivity.
Qed.

Theorem read_fragmented_wrath_server_header_facade s bs c : delivers s bs -> (4 <= length bs)%nat ->
  exists rest4 rest5, delivers rest4 (skipn 4 bs) /\ delivers rest5 (skipn 5 bs) /\
    cc_read_and_decrypt_server_header c s =
    W.lift_enc W.cc_dec W.cc_set_dec (fun h => two_step h bs rest4 rest5) c.
Proof.
  intros Hd Hn.
  destruct (read_fragmented_wrath_server_header s bs (W.cc_dec c) Hd Hn) as (r4 & r5 & H4 & H5 & E).
  exists r4, r5. split; [exact H4|]. split; [exact H5|].
  unfold cc_read_and_decrypt_server_header, W.lift_enc. rewrite E. reflexivity.
Qed.

(* ---- failed reads ---- *)

(* the reader fails (error or end of file) before the fixed-length header is complete: the error
   is returned and the decrypter is exactly what it was *)
Theorem read_failure_vanilla s kd :
  (forall h, read_exact 4 s = Err kd -> v_read_and_decrypt_server_header h s = Ok (h, Err kd)) /\
  (forall h, read_exact 6 s = Err kd -> v_read_and_decrypt_client_header h s = Ok (h, Err kd)) /\
  (forall c, read_exact 4 s = Err kd -> v_crypto_read_and_decrypt_server_header c s = Ok (c, Err kd)) /\
  (forall c, read_exact 6 s = Err kd -> v_crypto_read_and_decrypt_client_header c s = Ok (c, Err kd)).
Proof.
  split; [|split; [|split]]; intros x E.
  - apply read_then_err. exact E.
  - apply read_then_err. exact E.
  - unfold v_crypto_read_and_decrypt_server_header, v_read_and_decrypt_server_header, read_then.
    change (N.to_nat vanilla_server_header_length) with 4%nat. rewrite E. apply v_on_dec_id.
  - unfold v_crypto_read_and_decrypt_client_header, v_read_and_decrypt_client_header, read_then.
    change (N.to_nat vanilla_client_header_length) with 6%nat. rewrite E. apply v_on_dec_id.
Qed.

Theorem read_failure_tbc s kd :
  (forall h, read_exact 4 s = Err kd -> t_read_and_decrypt_server_header h s = Ok (h, Err kd)) /\
  (forall h, read_exact 6 s = Err kd -> t_read_and_decrypt_client_header h s = Ok (h, Err kd)) /\
  (forall c, read_exact 4 s = Err kd -> t_crypto_read_and_decrypt_server_header c s = Ok (c, Err kd)) /\
  (forall c, read_exact 6 s = Err kd -> t_crypto_read_and_decrypt_client_header c s = Ok (c, Err kd)).
Proof.
  split; [|split; [|split]]; intros x E.
  - apply read_then_err. exact E.
  - apply read_then_err. exact E.
  - unfold t_crypto_read_and_decrypt_server_header, t_read_and_decrypt_server_header, read_then.
    rewrite E. apply t_on_dec_id.
  - unfold t_crypto_read_and_decrypt_client_header, t_read_and_decrypt_client_header, read_then.
    rewrite E. apply t_on_dec_id.
Qed.

Theorem read_failure_wrath s kd :
  (forall h, read_exact 6 s = Err kd -> w_read_and_decrypt_client_header h s = Ok (h, Err kd)) /\
  (forall c, read_exact 6 s = Err kd -> sc_read_and_decrypt_client_header c s = Ok (c, Err kd)) /\
  (forall h, read_exact 4 s = Err kd -> w_read_and_decrypt_server_header h s = Ok (h, Err kd)) /\
  (forall c, read_exact 4 s = Err kd -> cc_read_and_decrypt_server_header c s = Ok (c, Err kd)).
Proof.
  split; [|split; [|split]]; intros x E.
  - apply read_then_err. exact E.
  - unfold sc_read_and_decrypt_client_header, w_read_and_decrypt_client_header, read_then, W.lift_enc.
    rewrite E. destruct x; reflexivity.
  - unfold w_read_and_decrypt_server_header. rewrite E. reflexivity.
  - unfold cc_read_and_decrypt_server_header, w_read_and_decrypt_server_header, W.lift_enc.
    rewrite E. destruct x; reflexivity.
Qed.

(* the fifth byte of a long Wrath header cannot be read: the error is returned and the decrypter
   is exactly as after attempt_decrypt_server_header on the first four bytes *)
Theorem wrath_fifth_byte_failure h s four rest h1 kd :
  read_exact 4 s = Ok (four, rest) ->
  W.attempt_decrypt_server_header h four = Ok (h1, W.AdditionalByteRequired) ->
  read_exact 1 rest = Err kd ->
  w_read_and_decrypt_server_header h s = Ok (h1, Err kd) /\
  (forall c, W.cc_dec c = h ->
     cc_read_and_decrypt_server_header c s = Ok (W.cc_set_dec c h1, Err kd) /\
     W.cc_attempt_decrypt_server_header c four = Ok (W.cc_set_dec c h1, W.AdditionalByteRequired)).
Proof.
  intros E4 Ea E1.
  assert (G : w_read_and_decrypt_server_header h s = Ok (h1, Err kd)).
  { unfold w_read_and_decrypt_server_header. rewrite E4, Ea, E1. reflexivity. }
  split; [exact G|]. intros c <-.
  unfold cc_read_and_decrypt_server_header, W.cc_attempt_decrypt_server_header, W.lift_enc. rewrite G, Ea. auto.
Qed.

(* ... so supplying that byte later completes the header: with a server encrypter in step, a long
   header whose fifth byte fails to arrive leaves the client decrypter where one call of
   decrypt_large_server_header with the true fifth byte yields (size, opcode) and brings the two
   ciphers back in step; an uninterrupted read gives the same header and the same state *)
Theorem wrath_resume se cd size opcode : PW.wf_se se -> W.cd_rc4 cd = W.se_rc4 se ->
  0x7FFF < size -> size <= 0x7FFFFF -> opcode < 65536 ->
  exists se' a b c d e cd1 cd',
    W.encrypt_server_header se size opcode = Ok (se', [a; b; c; d; e]) /\
    W.attempt_decrypt_server_header cd [a; b; c; d] = Ok (cd1, W.AdditionalByteRequired) /\
    (forall s rest kd, read_exact 4 s = Ok ([a; b; c; d], rest) -> read_exact 1 rest = Err kd ->
       w_read_and_decrypt_server_header cd s = Ok (cd1, Err kd)) /\
    W.decrypt_large_server_header cd1 e = Ok (cd', (size, opcode)) /\
    W.cd_rc4 cd' = W.se_rc4 se' /\
    (forall s tail, delivers s ([a; b; c; d; e] ++ tail) ->
       exists rest, delivers rest tail /\
         w_read_and_decrypt_server_header cd s = Ok (cd', Ok ((size, opcode), rest))).
Proof.
  intros Hw Er Hs Hs' Ho.
  destruct (PW.decode_attempt se cd size opcode Hw Er Hs' Ho) as (se' & wire & Ee & Hw' & H).
  destruct (N.leb_spec size 0x7FFF) as [Hle|_]; [lia|].
  destruct H as (a & b & c & d & e & cd1 & cd' & -> & Ea & El & Er' & _).
  exists se', a, b, c, d, e, cd1, cd'. split; [exact Ee|]. split; [exact Ea|]. split; [|split; [exact El|split; [exact Er'|]]].
  - intros s rest kd E4 E1. unfold w_read_and_decrypt_server_header. rewrite E4, Ea, E1. reflexivity.
  - intros s tail Hd.
    destruct (read_fragmented_wrath_server_header s _ cd Hd) as (r4 & r5 & _ & H5 & E).
    { rewrite app_length. cbn [length]. lia. }
    exists r5. split; [exact H5|]. rewrite E. unfold two_step. cbn [app firstn nth_error]. rewrite Ea, El. reflexivity.
Qed.

(* ================================================================ Write wrappers ============= *)

(* what can be said about the writer after write_all on buf: received wr *)
Definition write_outcome (buf wr : list N) (x : res unit io_kind) : Prop :=
  exists suffix, buf = wr ++ suffix /\
    match x with
    | Ok _ => suffix = []                                  (* success: exactly the header bytes *)
    | Err kd => suffix <> [] /\ kd <> Interrupted          (* failure: a proper prefix, the error returned *)
    | Panic => False
    end.

Lemma write_after_spec {H} (r : nres (H * list N)) w h' buf : r = Ok (h', buf) ->
  exists wr w' x, write_all buf w = (wr, w', x) /\ write_after r w = Ok (h', (wr, w', x)) /\ write_outcome buf wr x.
Proof.
  intros ->. destruct (write_all buf w) as [[wr w'] x] eqn:E. exists wr, w', x.
  split; [reflexivity|]. split; [cbn [write_after]; now rewrite E|]. exact (write_all_spec w buf wr w' x E).
Qed.

Theorem write_vanilla h w size opcode : wf_v h ->
  (exists h' buf wr w' x, V.encrypt_server_header h size opcode = Ok (h', buf) /\ length buf = 4%nat /\ wf_v h' /\
     write_all buf w = (wr, w', x) /\
     v_write_encrypted_server_header h w size opcode = Ok (h', (wr, w', x)) /\ write_outcome buf wr x) /\
  (exists h' buf wr w' x, V.encrypt_client_header h size opcode = Ok (h', buf) /\ length buf = 6%nat /\ wf_v h' /\
     write_all buf w = (wr, w', x) /\
     v_write_encrypted_client_header h w size opcode = Ok (h', (wr, w', x)) /\ write_outcome buf wr x).
Proof.
  intros Hw. split.
  - destruct (v_enc_total h (V.server_header_bytes size opcode) Hw) as (h' & buf & E & Hw' & L).
    destruct (write_after_spec (V.encrypt_server_header h size opcode) w h' buf E) as (wr & w' & x & E1 & E2 & Ho).
    exists h', buf, wr, w', x. auto 10.
  - destruct (v_enc_total h (V.client_header_bytes size opcode) Hw) as (h' & buf & E & Hw' & L).
    destruct (write_after_spec (V.encrypt_client_header h size opcode) w h' buf E) as (wr & w' & x & E1 & E2 & Ho).
    exists h', buf, wr, w', x. auto 10.
Qed.

Theorem write_tbc h w size opcode : wf_t h ->
  (exists h' buf wr w' x, T.encrypt_server_header h size opcode = Ok (h', buf) /\ length buf = 4%nat /\ wf_t h' /\
     write_all buf w = (wr, w', x) /\
     t_write_encrypted_server_header h w size opcode = Ok (h', (wr, w', x)) /\ write_outcome buf wr x) /\
  (exists h' buf wr w' x, T.encrypt_client_header h size opcode = Ok (h', buf) /\ length buf = 6%nat /\ wf_t h' /\
     write_all buf w = (wr, w', x) /\
     t_write_encrypted_client_header h w size opcode = Ok (h', (wr, w', x)) /\ write_outcome buf wr x).
Proof.
  intros Hw. split.
  - destruct (t_enc_total h (T.server_header_bytes size opcode) Hw) as (h' & buf & E & Hw' & L).
    destruct (write_after_spec (T.encrypt_server_header h size opcode) w h' buf E) as (wr & w' & x & E1 & E2 & Ho).
    exists h', buf, wr, w', x. auto 10.
  - destruct (t_enc_total h (T.client_header_bytes size opcode) Hw) as (h' & buf & E & Hw' & L).
    destruct (write_after_spec (T.encrypt_client_header h size opcode) w h' buf E) as (wr & w' & x & E1 & E2 & Ho).
    exists h', buf, wr, w', x. auto 10.
Qed.

Theorem write_wrath w size opcode :
  (forall h, PW.wf_se h ->
     exists h' buf wr w' x, W.encrypt_server_header h size opcode = Ok (h', buf) /\
       length buf = (if 0x7FFF <? size then 5%nat else 4%nat) /\ PW.wf_se h' /\
       write_all buf w = (wr, w', x) /\
       w_write_encrypted_server_header h w size opcode = Ok (h', (wr, w', x)) /\ write_outcome buf wr x) /\
  (forall h, rc4_inv (W.ce_rc4 h) ->
     exists h' buf wr w' x, W.encrypt_client_header h size opcode = Ok (h', buf) /\ length buf = 6%nat /\
       rc4_inv (W.ce_rc4 h') /\ write_all buf w = (wr, w', x) /\
       w_write_encrypted_client_header h w size opcode = Ok (h', (wr, w', x)) /\ write_outcome buf wr x).
Proof.
  destruct PW.header_no_panic as (Hse & Hce & _). split.
  - intros h Hw. destruct (Hse h size opcode Hw) as (h' & buf & E & Hw' & L & _).
    destruct (write_after_spec (W.encrypt_server_header h size opcode) w h' buf E) as (wr & w' & x & E1 & E2 & Ho).
    exists h', buf, wr, w', x. auto 10.
  - intros h Hi. destruct (Hce h size opcode Hi) as (h' & buf & E & Hi' & L).
    destruct (write_after_spec (W.encrypt_client_header h size opcode) w h' buf E) as (wr & w' & x & E1 & E2 & Ho).
    exists h', buf, wr, w', x. auto 10.
Qed.

(* the facades hand the halves' results through *)
Theorem write_facades :
  (forall c w size opcode,
     v_crypto_write_encrypted_server_header c w size opcode = v_on_enc (fun e => v_write_encrypted_server_header e w size opcode) c /\
     v_crypto_write_encrypted_client_header c w size opcode = v_on_enc (fun e => v_write_encrypted_client_header e w size opcode) c) /\
  (forall c w size opcode,
     t_crypto_write_encrypted_server_header c w size opcode = t_on_enc (fun e => t_write_encrypted_server_header e w size opcode) c /\
     t_crypto_write_encrypted_client_header c w size opcode = t_on_enc (fun e => t_write_encrypted_client_header e w size opcode) c) /\
  (forall c w size opcode,
     sc_write_encrypted_server_header c w size opcode =
       W.lift_enc W.sc_enc W.sc_set_enc (fun h => w_write_encrypted_server_header h w size opcode) c) /\
  (forall c w size opcode,
     cc_write_encrypted_client_header c w size opcode =
       W.lift_enc W.cc_enc W.cc_set_enc (fun h => w_write_encrypted_client_header h w size opcode) c).
Proof. repeat split; reflexivity. Qed.

(* What is NOT promised: a failed write does not roll the cipher back.  The writer refuses the very
   first call, nothing is written, the error is returned -- and the encrypter has moved on by a
   whole header, so the next header would be out of step with the peer. *)
Lemma v_enc_index K i p data : length K = 40%nat -> i < 40 ->
  exists p' out, V.encrypt (PV.mk_half K i p) data = Ok (PV.mk_half K ((i + N.of_nat (length data)) mod 40) p', out) /\
                 length out = length data.
Proof.
  intros HK Hi. pose proof (PV.encrypt_spec K (N.to_nat i) p data HK) as E.
  rewrite Nat.mod_small, Nnat.N2Nat.id in E by lia. do 2 eexists. rewrite E.
  split; [|apply enc_stream_length]. f_equal. f_equal. unfold PV.mk_half. f_equal. f_equal. lia.
Qed.
Lemma t_enc_index k i p data : length k = 20%nat -> i < 20 ->
  exists p' out, T.encrypt (PT.mk_half k i p) data = Ok (PT.mk_half k ((i + N.of_nat (length data)) mod 20) p', out) /\
                 length out = length data.
Proof.
  intros HK Hi. pose proof (PT.encrypt_spec k (N.to_nat i) p data HK) as E.
  rewrite Nat.mod_small, Nnat.N2Nat.id in E by lia. do 2 eexists. rewrite E.
  split; [|apply enc_stream_length]. f_equal. f_equal. unfold PT.mk_half. f_equal. f_equal. lia.
Qed.

Lemma ri_adv r n : rc4_inv r -> ri (adv r n) = (ri r + N.of_nat n) mod 256.
Proof.
  revert r; induction n as [|n IH]; intros r Hi.
  - rewrite adv_0. destruct Hi as (_ & _ & H & _). rewrite N.add_0_r, N.mod_small; [reflexivity|exact H].
  - destruct (prga_inv r Hi) as (r' & v & E & Hi' & _).
    destruct (adv_ks_S r r' v n Hi' E) as [Ea _]. rewrite Ea, (IH r' Hi').
    assert (Er : ri r' = (ri r + 1) mod 256).
    { unfold pseudo_random_generation in E.
      destruct (get (st r) ((ri r + 1) mod 256)); [|discriminate].
      destruct (swap (st r) ((ri r + 1) mod 256) ((rj r + n0) mod 256)); [|discriminate].
      destruct (get l ((ri r + 1) mod 256)); [|discriminate].
      destruct (get l ((rj r + n0) mod 256)); [|discriminate].
      destruct (get l ((n1 + n2) mod 256)); [|discriminate].
      inversion E; subst. reflexivity. }
    rewrite Er. lia.
Qed.

Theorem write_failure_advances kd w size opcode : kd <> Interrupted ->
  (forall h, wf_v h -> exists h' buf,
     V.encrypt_server_header h size opcode = Ok (h', buf) /\
     v_write_encrypted_server_header h (WFail kd :: w) size opcode = Ok (h', ([], w, Err kd)) /\
     c_idx (V.h_st h') = (c_idx (V.h_st h) + 4) mod 40 /\ h' <> h) /\
  (forall h, wf_v h -> exists h' buf,
     V.encrypt_client_header h size opcode = Ok (h', buf) /\
     v_write_encrypted_client_header h (WFail kd :: w) size opcode = Ok (h', ([], w, Err kd)) /\
     c_idx (V.h_st h') = (c_idx (V.h_st h) + 6) mod 40 /\ h' <> h) /\
  (forall h, wf_t h -> exists h' buf,
     T.encrypt_server_header h size opcode = Ok (h', buf) /\
     t_write_encrypted_server_header h (WFail kd :: w) size opcode = Ok (h', ([], w, Err kd)) /\
     c_idx (T.h_st h') = (c_idx (T.h_st h) + 4) mod 20 /\ h' <> h) /\
  (forall h, wf_t h -> exists h' buf,
     T.encrypt_client_header h size opcode = Ok (h', buf) /\
     t_write_encrypted_client_header h (WFail kd :: w) size opcode = Ok (h', ([], w, Err kd)) /\
     c_idx (T.h_st h') = (c_idx (T.h_st h) + 6) mod 20 /\ h' <> h) /\
  (forall h, PW.wf_se h -> exists h' buf,
     W.encrypt_server_header h size opcode = Ok (h', buf) /\
     w_write_encrypted_server_header h (WFail kd :: w) size opcode = Ok (h', ([], w, Err kd)) /\
     W.se_rc4 h' = adv (W.se_rc4 h) (if 0x7FFF <? size then 5 else 4) /\ W.se_rc4 h' <> W.se_rc4 h) /\
  (forall h, rc4_inv (W.ce_rc4 h) -> exists h' buf,
     W.encrypt_client_header h size opcode = Ok (h', buf) /\
     w_write_encrypted_client_header h (WFail kd :: w) size opcode = Ok (h', ([], w, Err kd)) /\
     W.ce_rc4 h' = adv (W.ce_rc4 h) 6 /\ W.ce_rc4 h' <> W.ce_rc4 h).
Proof.
  intros Hk.
  assert (NE : forall buf : list N, (4 <= length buf)%nat -> buf <> []) by (intros [|] L; [cbn in L; lia|discriminate]).
  split; [|split; [|split; [|split; [|split]]]].
  - intros [K [i p]] [HK Hi]. cbn [V.h_key V.h_st c_idx] in *.
    destruct (v_enc_index K i p (V.server_header_bytes size opcode) HK Hi) as (p' & out & E & L).
    change (length (V.server_header_bytes size opcode)) with 4%nat in *.
    do 2 eexists. unfold v_write_encrypted_server_header, V.encrypt_server_header. fold (PV.mk_half K i p). rewrite E.
    split; [reflexivity|]. cbn [write_after]. rewrite write_all_fail_first by (auto; apply NE; lia).
    split; [reflexivity|]. cbn [PV.mk_half V.h_st c_idx]. split; [reflexivity|].
    intros X. apply (f_equal (fun h => c_idx (V.h_st h))) in X. cbn [PV.mk_half V.h_st c_idx] in X. lia.
  - intros [K [i p]] [HK Hi]. cbn [V.h_key V.h_st c_idx] in *.
    destruct (v_enc_index K i p (V.client_header_bytes size opcode) HK Hi) as (p' & out & E & L).
    change (length (V.client_header_bytes size opcode)) with 6%nat in *.
    do 2 eexists. unfold v_write_encrypted_client_header, V.encrypt_client_header. fold (PV.mk_half K i p). rewrite E.
    split; [reflexivity|]. cbn [write_after]. rewrite write_all_fail_first by (auto; apply NE; lia).
    split; [reflexivity|]. cbn [PV.mk_half V.h_st c_idx]. split; [reflexivity|].
    intros X. apply (f_equal (fun h => c_idx (V.h_st h))) in X. cbn [PV.mk_half V.h_st c_idx] in X. lia.
  - intros [K [i p]] [HK Hi]. cbn [T.h_key T.h_st c_idx] in *.
    destruct (t_enc_index K i p (T.server_header_bytes size opcode) HK Hi) as (p' & out & E & L).
    change (length (T.server_header_bytes size opcode)) with 4%nat in *.
    do 2 eexists. unfold t_write_encrypted_server_header, T.encrypt_server_header. fold (PT.mk_half K i p). rewrite E.
    split; [reflexivity|]. cbn [write_after]. rewrite write_all_fail_first by (auto; apply NE; lia).
    split; [reflexivity|]. cbn [PT.mk_half T.h_st c_idx]. split; [reflexivity|].
    intros X. apply (f_equal (fun h => c_idx (T.h_st h))) in X. cbn [PT.mk_half T.h_st c_idx] in X. lia.
  - intros [K [i p]] [HK Hi]. cbn [T.h_key T.h_st c_idx] in *.
    destruct (t_enc_index K i p (T.client_header_bytes size opcode) HK Hi) as (p' & out & E & L).
    change (length (T.client_header_bytes size opcode)) with 6%nat in *.
    do 2 eexists. unfold t_write_encrypted_client_header, T.encrypt_client_header. fold (PT.mk_half K i p). rewrite E.
    split; [reflexivity|]. cbn [write_after]. rewrite write_all_fail_first by (auto; apply NE; lia).
    split; [reflexivity|]. cbn [PT.mk_half T.h_st c_idx]. split; [reflexivity|].
    intros X. apply (f_equal (fun h => c_idx (T.h_st h))) in X. cbn [PT.mk_half T.h_st c_idx] in X. lia.
  - intros h Hw. destruct (PW.encrypt_server_header_spec h size opcode Hw) as (h' & E & Hw' & Er & HL & _).
    cbv zeta in *. pose proof (PW.plain_length size opcode) as PL. rewrite PL in Er.
    do 2 eexists. unfold w_write_encrypted_server_header. rewrite E. split; [reflexivity|]. cbn [write_after].
    rewrite write_all_fail_first by (auto; apply NE; rewrite HL, PL; destruct (0x7FFF <? size); lia).
    split; [reflexivity|]. split; [exact Er|]. destruct Hw as [Hi _].
    intros X. apply (f_equal ri) in X. rewrite Er, ri_adv in X by exact Hi.
    destruct Hi as (_ & _ & Hri & _). destruct (0x7FFF <? size); lia.
  - intros h Hi. unfold w_write_encrypted_client_header, W.encrypt_client_header. rewrite (PW.ce_call h _ Hi).
    change (length (W.client_header_plain size opcode)) with 6%nat.
    do 2 eexists. split; [reflexivity|]. cbn [write_after].
    rewrite write_all_fail_first.
    + split; [reflexivity|]. cbn [PW.ce_upd W.ce_rc4]. split; [reflexivity|].
      intros X. apply (f_equal ri) in X. rewrite ri_adv in X by exact Hi. destruct Hi as (_ & _ & Hri & _). lia.
    + apply NE. rewrite xor_bytes_length; [cbn; lia|]. rewrite ks_length by exact Hi. reflexivity.
    + exact Hk.
Qed.
