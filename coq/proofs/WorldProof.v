(* C06: world-login proof accepted iff name, key and both seeds match; three modules. *)
From WS Require Import lib.Bytes lib.Res lib.Tape lib.Sha1 Consts model.Vanilla model.Tbc model.Wrath model.Server
  model.WorldProof proofs.Handshake.
From WS Require proofs.Tbc.
From Coq Require Import ZifyN ZifyNat ZifyBool.
Local Open Scope N_scope.
Local Opaque sha1.

Definition world_proof (U K : list N) (client_seed server_seed : N) : list N :=
  sha1 (U ++ [0;0;0;0] ++ le32 client_seed ++ le32 server_seed ++ K).

Lemma proof_fn_spec U K ss cs : calculate_world_server_proof U K ss cs = world_proof U K cs ss.
Proof. reflexivity. Qed.

Section Module.
Context {C : Type} (new_client new_server : list N -> nres C).

Theorem client_spec seed U K sseed :
  into_client_header_crypto new_client seed U K sseed =
  match new_client K with Ok c => Ok (world_proof U K seed sseed, c) | Err e => Err e | Panic => Panic end.
Proof. unfold into_client_header_crypto. rewrite proof_fn_spec. destruct (new_client K); reflexivity. Qed.

Theorem server_iff seed U K pf cseed :
  (pf = world_proof U K cseed seed -> into_server_header_crypto new_server seed U K pf cseed = lift (new_server K)) /\
  (pf <> world_proof U K cseed seed ->
     into_server_header_crypto new_server seed U K pf cseed =
     Err {| me_client_proof := pf; me_server_proof := world_proof U K cseed seed |}).
Proof.
  unfold into_server_header_crypto. rewrite proof_fn_spec. split; intros H.
  - subst pf. rewrite list_eqb_refl. reflexivity.
  - assert (H' : world_proof U K cseed seed <> pf) by congruence.
    apply list_eqb_neq in H'. rewrite H'. reflexivity.
Qed.

(* the client's output is accepted by a server holding the same name and key with the seed roles swapped *)
Theorem agree cseed sseed U K :
  into_server_header_crypto new_server sseed U K (world_proof U K cseed sseed) cseed = lift (new_server K).
Proof. apply server_iff. reflexivity. Qed.
End Module.

(* constructors of the three crypto objects never panic for a 40-byte key (Wrath: any key) *)
Lemma tbc_new_ok K : exists c, Tbc.crypto_new K = Ok c.
Proof.
  unfold Tbc.crypto_new. destruct (WS.proofs.Tbc.new_spec K) as [E D]. rewrite D, E. cbn [bind]. eexists; reflexivity.
Qed.

Lemma le32_length w : length (le32 w) = 4%nat. Proof. apply N_to_le_length. Qed.

Lemma le32_inj a b : a < 2 ^ 32 -> b < 2 ^ 32 -> le32 a = le32 b -> a = b.
Proof.
  intros Ha Hb E. rewrite <- (N_to_le_to_N 4 a), <- (N_to_le_to_N 4 b) by (change (256 ^ N.of_nat 4) with (2 ^ 32); assumption).
  unfold le32 in E. now rewrite E.
Qed.

(* binding: equal proofs for different (name, seeds, key) exhibit a SHA-1 collision *)
Theorem world_binding U K cs ss U' K' cs' ss' :
  length U = length U' -> cs < 2 ^ 32 -> ss < 2 ^ 32 -> cs' < 2 ^ 32 -> ss' < 2 ^ 32 ->
  world_proof U K cs ss = world_proof U' K' cs' ss' ->
  (U = U' /\ cs = cs' /\ ss = ss' /\ K = K') \/ collision.
Proof.
  intros HU H1 H2 H3 H4 H. unfold world_proof in H.
  apply sha1_inj_or_collision in H. destruct H as [H|H]; [|now right].
  apply app_inj_length in H; [|exact HU]. destruct H as [-> H].
  apply app_inv_head in H.
  apply app_inj_length in H; [|now rewrite !le32_length]. destruct H as [E1 H].
  apply app_inj_length in H; [|now rewrite !le32_length]. destruct H as [E2 ->].
  apply le32_inj in E1; try assumption. apply le32_inj in E2; try assumption. left; auto.
Qed.

(* the seed reported by the accessor is the drawn value: 4 tape bytes, little-endian *)
Theorem seed_draw t : proof_seed_new t = (le_to_N (firstn 4 t), skipn 4 t).
Proof. reflexivity. Qed.
