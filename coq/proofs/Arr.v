(* Lemmas about the checked array primitives (model/Arr.v) and about selection without
   replacement (spec/Select.v): the in-place left shift removes one entry of the live prefix,
   [select] yields distinct members of the pool, a permutation when it exhausts the pool, and
   depends on the seed only modulo the product of the radices. *)
From WS Require Import lib.Bytes model.Arr spec.Select.
From Coq Require Import Permutation ZifyN ZifyNat ZifyBool.
Local Open Scope N_scope.
Ltac Zify.zify_post_hook ::= Z.div_mod_to_equations.

(* ---- set_nth ---- *)
Lemma set_nth_app {A} (pre : list A) x post v :
  set_nth (length pre) v (pre ++ x :: post) = Some (pre ++ v :: post).
Proof. induction pre as [|p pre IH]; cbn [length app set_nth]; [reflexivity|]. now rewrite IH. Qed.

Lemma set_nth_some {A} (l : list A) n v : (n < length l)%nat -> exists l', set_nth n v l = Some l'.
Proof.
  revert n; induction l as [|x l IH]; intros [|n] H; cbn [length] in H; try lia; cbn [set_nth].
  - eauto.
  - destruct (IH n ltac:(lia)) as [l' ->]. eauto.
Qed.

Lemma set_nth_none {A} (l : list A) n v : (length l <= n)%nat -> set_nth n v l = None.
Proof.
  revert n; induction l as [|x l IH]; intros [|n] H; cbn [length] in H; try lia; cbn [set_nth]; auto.
  now rewrite IH by lia.
Qed.

Lemma nth_error_mid {A} (pre : list A) x post : nth_error (pre ++ x :: post) (length pre) = Some x.
Proof. rewrite nth_error_app2, Nat.sub_diag by lia. reflexivity. Qed.

Lemma last_cons_default {A} (l : list A) : forall m x, last (m :: l) x = last l m.
Proof.
  induction l as [|y l IH]; intros m x; [reflexivity|].
  change (last (m :: y :: l) x) with (last (y :: l) x). now rewrite !IH.
Qed.

(* ---- the left shift ---- *)
Lemma shift_left_spec {A} (mid : list A) : forall pre x post,
  shift_left (length mid) (length pre) (pre ++ x :: mid ++ post) = Some (pre ++ mid ++ last mid x :: post).
Proof.
  induction mid as [|m mid IH]; intros pre x post; cbn [length shift_left]; [reflexivity|].
  assert (E : nth_error (pre ++ x :: (m :: mid) ++ post) (S (length pre)) = Some m).
  { change (pre ++ x :: (m :: mid) ++ post) with (pre ++ [x] ++ m :: mid ++ post).
    rewrite app_assoc. replace (S (length pre)) with (length (pre ++ [x])) by (rewrite app_length; cbn; lia).
    apply nth_error_mid. }
  rewrite E, set_nth_app.
  replace (S (length pre)) with (length (pre ++ [m])) by (rewrite app_length; cbn; lia).
  change (pre ++ m :: (m :: mid) ++ post) with (pre ++ [m] ++ m :: mid ++ post).
  rewrite app_assoc, IH, last_cons_default, <- app_assoc. reflexivity.
Qed.

(* ---- remove_nth ---- *)
Lemma remove_nth_app {A} (pre : list A) x post : remove_nth (length pre) (pre ++ x :: post) = pre ++ post.
Proof. induction pre as [|p pre IH]; cbn [length app remove_nth]; [reflexivity|]. now rewrite IH. Qed.

Lemma remove_nth_perm {A} (l : list A) n d : nth_error l n = Some d -> Permutation l (d :: remove_nth n l).
Proof.
  revert n; induction l as [|x l IH]; intros [|n] H; cbn in *; try discriminate.
  - now inversion H.
  - rewrite (IH _ H) at 1. apply perm_swap.
Qed.

Lemma remove_nth_length {A} (l : list A) n : (n < length l)%nat -> length (remove_nth n l) = (length l - 1)%nat.
Proof.
  revert n; induction l as [|x l IH]; intros [|n] H; cbn in *; try lia.
  rewrite IH by lia. lia.
Qed.

(* ---- select ---- *)
Lemma select_length k : forall seed pool, length (select k seed pool) = k.
Proof. induction k as [|k IH]; intros; cbn [select length]; [reflexivity|]. now rewrite IH. Qed.

Lemma select_pick seed (pool : list N) : pool <> [] ->
  let r := N.to_nat (seed mod N.of_nat (length pool)) in
  (r < length pool)%nat /\ nth_error pool r = Some (nth r pool 0).
Proof.
  intros Hne r. assert (length pool <> 0%nat) by (destruct pool; cbn; congruence).
  assert (Hr : (r < length pool)%nat) by (subst r; lia).
  split; [exact Hr|]. now apply nth_error_nth'.
Qed.

Lemma select_sub k : forall seed pool, (k <= length pool)%nat ->
  exists rest, Permutation (select k seed pool ++ rest) pool.
Proof.
  induction k as [|k IH]; intros seed pool Hk; cbn [select].
  - exists pool. reflexivity.
  - assert (Hne : pool <> []) by (destruct pool; cbn in Hk; [lia|congruence]).
    destruct (select_pick seed pool Hne) as [Hr E].
    set (r := N.to_nat (seed mod N.of_nat (length pool))) in *.
    destruct (IH (seed / N.of_nat (length pool)) (remove_nth r pool)) as [rest P].
    { rewrite remove_nth_length; lia. }
    exists rest. cbn [app].
    eapply perm_trans; [|apply Permutation_sym, (remove_nth_perm pool r _ E)].
    apply perm_skip. exact P.
Qed.

Lemma select_perm k seed pool : length pool = k -> Permutation (select k seed pool) pool.
Proof.
  intros Hl. destruct (select_sub k seed pool ltac:(lia)) as [rest P].
  assert (rest = []).
  { apply Permutation_length in P. rewrite app_length, select_length in P.
    destruct rest; [reflexivity|cbn [length] in P; lia]. }
  subst rest. now rewrite app_nil_r in P.
Qed.

Lemma nodup_app_l {A} (a b : list A) : NoDup (a ++ b) -> NoDup a.
Proof.
  induction a as [|x a IH]; cbn [app]; intros H; [constructor|].
  inversion H as [|? ? Hx Hr]; subst. constructor; [|now apply IH].
  intros Hin. apply Hx. apply in_or_app. now left.
Qed.

Lemma select_nodup k seed pool : (k <= length pool)%nat -> NoDup pool -> NoDup (select k seed pool).
Proof.
  intros Hk Hn. destruct (select_sub k seed pool Hk) as [rest P].
  assert (Hn' : NoDup (select k seed pool ++ rest))
    by (eapply Permutation_NoDup; [apply Permutation_sym; exact P | exact Hn]).
  now apply nodup_app_l in Hn'.
Qed.

Lemma select_incl k seed pool : (k <= length pool)%nat -> incl (select k seed pool) pool.
Proof.
  intros Hk x Hx. destruct (select_sub k seed pool Hk) as [rest P].
  eapply Permutation_in; [exact P|]. apply in_or_app. now left.
Qed.

Lemma fact_pos n : 0 < fact n. Proof. induction n; cbn [fact]; lia. Qed.

(* exhausting a pool of k entries depends on the seed only modulo k! *)
Lemma select_mod k : forall seed pool, length pool = k ->
  select k seed pool = select k (seed mod fact k) pool.
Proof.
  induction k as [|k IH]; intros seed pool Hl; [reflexivity|].
  cbn [select fact]. rewrite Hl.
  pose proof (fact_pos k) as Hf.
  assert (E1 : (seed mod (N.of_nat (S k) * fact k)) mod N.of_nat (S k) = seed mod N.of_nat (S k)).
  { rewrite N.mod_mul_r by lia. rewrite (N.mul_comm (N.of_nat (S k))), N.mod_add by lia.
    now rewrite N.mod_mod by lia. }
  assert (E2 : (seed mod (N.of_nat (S k) * fact k)) / N.of_nat (S k) = (seed / N.of_nat (S k)) mod fact k).
  { rewrite N.mod_mul_r by lia. rewrite (N.mul_comm (N.of_nat (S k))), N.div_add by lia.
    rewrite N.div_small by (apply N.mod_lt; lia). reflexivity. }
  rewrite E1, E2. clear E1 E2. f_equal.
  assert (Hne : pool <> []) by (destruct pool; cbn in Hl; [lia|congruence]).
  destruct (select_pick seed pool Hne) as [Hr _]. rewrite Hl in Hr.
  apply IH. rewrite remove_nth_length; rewrite Hl; [lia|exact Hr].
Qed.

(* ---- iota ---- *)
Lemma iota_length n : length (iota n) = n.
Proof. unfold iota. now rewrite map_length, seq_length. Qed.

Lemma iota_nodup n : NoDup (iota n).
Proof.
  unfold iota. apply FinFun.Injective_map_NoDup; [|apply seq_NoDup].
  intros a b H. lia.
Qed.

Lemma iota_in n x : In x (iota n) <-> x < N.of_nat n.
Proof.
  unfold iota. rewrite in_map_iff. split.
  - intros (i & <- & Hi). apply in_seq in Hi. lia.
  - intros H. exists (N.to_nat x). split; [lia|]. apply in_seq. lia.
Qed.
