(* C12: the two directions of a crypto object never influence each other, whatever the object goes
   through (split, unsplit, clone) between the calls; Vanilla unsplit succeeds exactly on equal keys.

   Threads.  The model has no threads.  "Two halves driven from two threads" is covered as follows:
   after split each half owns its state by value; the crate is `#![forbid(unsafe_code)]` and the
   header modules contain no interior mutability (no Cell / RefCell / Mutex / Atomic / static mut /
   thread_local -- checked syntactically by the harness on every run), so by Rust's ownership rules
   two threads that each hold one half share no memory; every execution of the two threads is
   therefore observationally equal to SOME interleaving of their calls on one thread, and every
   such interleaving is an op list quantified over below.  That reduction is an assumption about
   Rust, not a theorem here. *)
From WS Require Import lib.Bytes lib.Res lib.Calls lib.IoScript Consts spec.HeaderCipher model.HeaderCipher
  model.Rc4 model.HeaderIo proofs.HeaderCipher proofs.Rc4 proofs.HeaderIo.
From WS Require proofs.Vanilla proofs.Tbc proofs.Wrath.
From Coq Require Import ZifyN ZifyNat ZifyBool.
Local Open Scope N_scope.

(* ================================================================ the generic machine ======== *)
Section MachineProofs.
  Context {C E D : Type}.
  Variable c_enc : C -> list N -> nres (C * list N).
  Variable c_dec : C -> list N -> nres (C * list N).
  Variable h_enc : E -> list N -> nres (E * list N).
  Variable h_dec : D -> list N -> nres (D * list N).
  Variable split : C -> E * D.
  Variable unsplit : option (E -> D -> res C unit).
  Variable mk : E -> D -> C.                  (* the combined object made of two halves *)
  Variable pair_ok : E -> D -> Prop.          (* what unsplit needs; kept by every call *)

  Hypothesis c_enc_def : forall c bs, c_enc c bs =
    match h_enc (fst (split c)) bs with
    | Ok (e', o) => Ok (mk e' (snd (split c)), o) | Err x => Err x | Panic => Panic end.
  Hypothesis c_dec_def : forall c bs, c_dec c bs =
    match h_dec (snd (split c)) bs with
    | Ok (d', o) => Ok (mk (fst (split c)) d', o) | Err x => Err x | Panic => Panic end.
  Hypothesis split_mk : forall e d, split (mk e d) = (e, d).
  Hypothesis unsplit_ok : forall f e d, unsplit = Some f -> pair_ok e d -> f e d = Ok (mk e d).
  Hypothesis enc_keeps : forall e d bs e' o, pair_ok e d -> h_enc e bs = Ok (e', o) -> pair_ok e' d.
  Hypothesis dec_keeps : forall e d bs d' o, pair_ok e d -> h_dec d bs = Ok (d', o) -> pair_ok e d'.

  Notation run' := (run c_enc c_dec h_enc h_dec split unsplit).
  Notation step' := (step c_enc c_dec h_enc h_dec split unsplit).
  Notation view' := (view split).

  Definition ok_obj (o : obj) : Prop := pair_ok (fst (view' o)) (snd (view' o)).

  (* one operation, seen on the two halves the object consists of *)
  Lemma step_view o x : ok_obj o ->
    match step' o x with
    | Ok (o', oe, od) =>
      ok_obj o' /\
      match x with
      | Enc bs => h_enc (fst (view' o)) bs = Ok (fst (view' o'), oe) /\ snd (view' o') = snd (view' o) /\ od = []
      | Dec bs => h_dec (snd (view' o)) bs = Ok (snd (view' o'), od) /\ fst (view' o') = fst (view' o) /\ oe = []
      | _ => view' o' = view' o /\ oe = [] /\ od = []
      end
    | Panic =>
      match x with
      | Enc bs => h_enc (fst (view' o)) bs = Panic
      | Dec bs => h_dec (snd (view' o)) bs = Panic
      | _ => False
      end
    | Err _ => False
    end.
  Proof.
    unfold ok_obj. intros Hok. destruct x as [bs|bs| | |], o as [c|e d]; cbn [step view fst snd] in *.
    - rewrite c_enc_def. destruct (h_enc (fst (split c)) bs) as [[e' out]|x|] eqn:He; [|destruct x|reflexivity].
      cbn [view]. rewrite split_mk. cbn [fst snd]. split; [eapply enc_keeps; eassumption|auto].
    - destruct (h_enc e bs) as [[e' out]|x|] eqn:He; [|destruct x|reflexivity].
      cbn [view fst snd]. split; [eapply enc_keeps; eassumption|auto].
    - rewrite c_dec_def. destruct (h_dec (snd (split c)) bs) as [[d' out]|x|] eqn:Hd; [|destruct x|reflexivity].
      cbn [view]. rewrite split_mk. cbn [fst snd]. split; [eapply dec_keeps; eassumption|auto].
    - destruct (h_dec d bs) as [[d' out]|x|] eqn:Hd; [|destruct x|reflexivity].
      cbn [view fst snd]. split; [eapply dec_keeps; eassumption|auto].
    - destruct (split c) as [e d] eqn:Es. cbn [view fst snd] in *. auto.
    - cbn [view fst snd]. auto.
    - cbn [view]. auto.
    - destruct unsplit as [f|] eqn:Eu.
      + rewrite (unsplit_ok f e d eq_refl Hok). cbn [view]. rewrite split_mk. cbn [fst snd]. auto.
      + cbn [view fst snd]. auto.
    - unfold clone_obj. cbn [view]. auto.
    - unfold clone_obj. cbn [view fst snd]. auto.
  Qed.

  (* any interleaving, with split / unsplit / clone anywhere: per direction, exactly the calls of
     that direction on that direction's half *)
  Theorem run_view ops : forall o, ok_obj o ->
    match run' o ops with
    | Ok (o', oe, od) =>
      ok_obj o' /\
      run_calls h_enc (fst (view' o)) (encs ops) = Ok (fst (view' o'), oe) /\
      run_calls h_dec (snd (view' o)) (decs ops) = Ok (snd (view' o'), od)
    | Panic =>
      run_calls h_enc (fst (view' o)) (encs ops) = Panic \/ run_calls h_dec (snd (view' o)) (decs ops) = Panic
    | Err _ => False
    end.
  Proof.
    induction ops as [|x r IH]; intros o Hok; cbn [run encs decs run_calls].
    - auto.
    - pose proof (step_view o x Hok) as Hs.
      destruct (step' o x) as [[[o1 oe1] od1]|u|]; [|contradiction|].
      + destruct Hs as [Hok1 Hx]. specialize (IH o1 Hok1).
        destruct (run' o1 r) as [[[o2 oe2] od2]|u|].
        * destruct IH as (Hok2 & IHe & IHd). split; [exact Hok2|].
          destruct x as [bs|bs| | |]; cbn [encs decs run_calls].
          -- destruct Hx as (He & Hd & ->). rewrite He, IHe. rewrite <- Hd, IHd. now rewrite app_nil_l.
          -- destruct Hx as (Hd & He & ->). rewrite Hd, IHd. rewrite <- He, IHe. now rewrite app_nil_l.
          -- destruct Hx as (Hv & -> & ->). rewrite <- Hv. auto.
          -- destruct Hx as (Hv & -> & ->). rewrite <- Hv. auto.
          -- destruct Hx as (Hv & -> & ->). rewrite <- Hv. auto.
        * contradiction.
        * destruct x as [bs|bs| | |]; cbn [encs decs run_calls].
          -- destruct Hx as (He & Hd & ->). rewrite He, <- Hd. destruct IH as [IH|IH]; rewrite IH; auto.
          -- destruct Hx as (Hd & He & ->). rewrite Hd, <- He. destruct IH as [IH|IH]; rewrite IH; auto.
          -- destruct Hx as (Hv & _). now rewrite <- Hv.
          -- destruct Hx as (Hv & _). now rewrite <- Hv.
          -- destruct Hx as (Hv & _). now rewrite <- Hv.
      + destruct x as [bs|bs| | |]; cbn [encs decs run_calls]; try contradiction.
        * rewrite Hs. auto.
        * rewrite Hs. auto.
  Qed.

  (* clone is the identity on the value: clone operations anywhere in a history change nothing *)
  Theorem run_clone ops : forall o, run' o ops = run' o (filter (fun x => negb (is_clone x)) ops).
  Proof.
    induction ops as [|x r IH]; intros o; [reflexivity|].
    destruct x; cbn [filter is_clone negb]; cbn [run]; try (destruct (step' o _) as [[[o1 oe1] od1]|u|]; [rewrite IH|..]; reflexivity).
    cbn [step]. unfold clone_obj. rewrite IH.
    destruct (run' o (filter (fun x => negb (is_clone x)) r)) as [[[o2 oe2] od2]|u|]; reflexivity.
  Qed.

  (* a history can be cut anywhere: what the clone taken at the cut would do from there on is what
     the object itself does, and values are never modified in place, so the original of a clone is
     untouched by whatever is done with the clone *)
  Theorem run_app a b : forall o, run' o (a ++ b) =
    match run' o a with
    | Ok (o1, oe1, od1) =>
      match run' o1 b with
      | Ok (o2, oe2, od2) => Ok (o2, oe1 ++ oe2, od1 ++ od2) | Err u => Err u | Panic => Panic end
    | Err u => Err u | Panic => Panic
    end.
  Proof.
    induction a as [|x r IH]; intros o; cbn [app run].
    - destruct (run' o b) as [[[o2 oe2] od2]|u|]; reflexivity.
    - destruct (step' o x) as [[[o1 oe1] od1]|u|]; try reflexivity. rewrite IH.
      destruct (run' o1 r) as [[[o2 oe2] od2]|u|]; try reflexivity.
      destruct (run' o2 b) as [[[o3 oe3] od3]|u|]; try reflexivity. now rewrite !app_assoc.
  Qed.
End MachineProofs.

Module PV := WS.proofs.Vanilla.
Module PT := WS.proofs.Tbc.
Module PW := WS.proofs.Wrath.

(* ================================================================ vanilla ==================== *)
Definition v_mk (e d : V.half) : V.crypto := {| V.cr_dec := d; V.cr_enc := e |}.
Definition v_pair (e d : V.half) : Prop := V.h_key e = V.h_key d.

Lemma v_encrypt_key e bs e' o : V.encrypt e bs = Ok (e', o) -> V.h_key e' = V.h_key e.
Proof.
  unfold V.encrypt. destruct (enc_loop session_key_length (V.h_key e) (V.h_st e) bs) as [[s out]|]; [|discriminate].
  intros X. inversion X; subst. reflexivity.
Qed.
Lemma v_decrypt_key d bs d' o : V.decrypt d bs = Ok (d', o) -> V.h_key d' = V.h_key d.
Proof.
  unfold V.decrypt. destruct (dec_loop session_key_length (V.h_key d) (V.h_st d) bs) as [[s out]|]; [|discriminate].
  intros X. inversion X; subst. reflexivity.
Qed.

Lemma v_unsplit_pair e d : v_pair e d -> V.unsplit e d = Ok (v_mk e d).
Proof. unfold v_pair, V.unsplit, V.is_pair_of. intros ->. now rewrite list_eqb_refl. Qed.

Definition v_run_view := run_view V.crypto_encrypt V.crypto_decrypt V.encrypt V.decrypt V.split (Some V.unsplit) v_mk v_pair.

Lemma v_run_view_holds ops (o : v_obj) : v_pair (fst (v_view o)) (snd (v_view o)) ->
  match v_run o ops with
  | Ok (o', oe, od) =>
    v_pair (fst (v_view o')) (snd (v_view o')) /\
    run_calls V.encrypt (fst (v_view o)) (encs ops) = Ok (fst (v_view o'), oe) /\
    run_calls V.decrypt (snd (v_view o)) (decs ops) = Ok (snd (v_view o'), od)
  | Panic => run_calls V.encrypt (fst (v_view o)) (encs ops) = Panic \/
             run_calls V.decrypt (snd (v_view o)) (decs ops) = Panic
  | Err _ => False
  end.
Proof.
  apply v_run_view.
  - intros c bs. unfold V.crypto_encrypt, V.split, v_mk. cbn [fst snd]. reflexivity.
  - intros c bs. unfold V.crypto_decrypt, V.split, v_mk. cbn [fst snd]. reflexivity.
  - reflexivity.
  - intros f e d X Hp. inversion X; subst. now apply v_unsplit_pair.
  - intros e d bs e' o' Hp He. unfold v_pair in *. now rewrite (v_encrypt_key _ _ _ _ He).
  - intros e d bs d' o' Hp Hd. unfold v_pair in *. now rewrite (v_decrypt_key _ _ _ _ Hd).
Qed.

Lemma v_enc_calls_total chunks : forall h, wf_v h ->
  exists h' out, run_calls V.encrypt h chunks = Ok (h', out) /\ wf_v h'.
Proof.
  induction chunks as [|c r IH]; intros h Hw; cbn [run_calls]; [eauto|].
  destruct (v_enc_total h c Hw) as (h1 & o1 & E & Hw1 & _). rewrite E.
  destruct (IH h1 Hw1) as (h2 & o2 & E2 & Hw2). rewrite E2. eauto.
Qed.
Lemma v_dec_calls_total chunks : forall h, wf_v h ->
  exists h' out, run_calls V.decrypt h chunks = Ok (h', out) /\ wf_v h'.
Proof.
  induction chunks as [|c r IH]; intros h Hw; cbn [run_calls]; [eauto|].
  destruct (v_dec_total h c Hw) as (h1 & o1 & E & Hw1 & _). rewrite E.
  destruct (IH h1 Hw1) as (h2 & o2 & E2 & Hw2). rewrite E2. eauto.
Qed.

(* well-formed vanilla object: both halves satisfy the module invariant and carry one session key *)
Definition v_ok (o : v_obj) : Prop :=
  wf_v (fst (v_view o)) /\ wf_v (snd (v_view o)) /\ V.h_key (fst (v_view o)) = V.h_key (snd (v_view o)).

Theorem independent_vanilla ops (o : v_obj) : v_ok o ->
  exists o' oe od, v_run o ops = Ok (o', oe, od) /\ v_ok o' /\
    run_calls V.encrypt (fst (v_view o)) (encs ops) = Ok (fst (v_view o'), oe) /\
    run_calls V.decrypt (snd (v_view o)) (decs ops) = Ok (snd (v_view o'), od).
Proof.
  intros (Hwe & Hwd & Hk).
  destruct (v_enc_calls_total (encs ops) _ Hwe) as (e' & oe & Ee & Hwe').
  destruct (v_dec_calls_total (decs ops) _ Hwd) as (d' & od & Ed & Hwd').
  pose proof (v_run_view_holds ops o Hk) as H.
  destruct (v_run o ops) as [[[o' oe'] od']|u|].
  - destruct H as (Hk' & He & Hd). rewrite Ee in He. rewrite Ed in Hd. inversion He; inversion Hd; subst.
    exists o', oe', od'. split; [reflexivity|]. split; [|split; assumption].
    split; [congruence|]. split; [congruence|]. exact Hk'.
  - contradiction.
  - destruct H as [H|H]; congruence.
Qed.

(* from a fresh object (or its two fresh halves): the sending direction is the C07 stream of the
   concatenated encrypt chunks, the receiving direction that of the decrypt chunks *)
Theorem independent_vanilla_new K ops (o : v_obj) : length K = 40%nat ->
  v_view o = (V.half_new K, V.half_new K) ->
  exists o', v_run o ops =
    Ok (o', encrypt_stream K (concat (encs ops)), decrypt_stream K (concat (decs ops))) /\
    v_view o' = (PV.mk_half K (N.of_nat (length (concat (encs ops)) mod 40)) (last (encrypt_stream K (concat (encs ops))) 0),
                 PV.mk_half K (N.of_nat (length (concat (decs ops)) mod 40)) (last (concat (decs ops)) 0)).
Proof.
  intros HK Hv.
  assert (Hok : v_ok o) by (unfold v_ok; rewrite Hv; cbn [fst snd]; auto using wf_v_new).
  destruct (independent_vanilla ops o Hok) as (o' & oe & od & E & _ & He & Hd).
  rewrite Hv in He, Hd. cbn [fst snd] in He, Hd.
  rewrite (PV.enc_calls K _ HK) in He. rewrite (PV.dec_calls K _ HK) in Hd.
  inversion He; inversion Hd; subst. exists o'. split; [exact E|].
  destruct (v_view o') as [e' d']. cbn [fst snd] in *. congruence.
Qed.

(* re-joining *)
Theorem unsplit_iff e d :
  (V.unsplit e d = Ok {| V.cr_dec := d; V.cr_enc := e |} <-> V.h_key e = V.h_key d) /\
  (V.unsplit e d = Err tt <-> V.h_key e <> V.h_key d) /\
  (V.is_pair_of e d = true <-> V.h_key e = V.h_key d) /\
  (forall i, nth_error (V.h_key e) i <> nth_error (V.h_key d) i -> V.unsplit e d = Err tt) /\
  V.unsplit e d <> Panic.
Proof.
  unfold V.unsplit, V.is_pair_of.
  destruct (list_eqb (V.h_key e) (V.h_key d)) eqn:E.
  - apply list_eqb_spec in E. split; [tauto|]. split; [split; [discriminate|tauto]|]. split; [tauto|].
    split; [|discriminate]. intros i X. exfalso. apply X. now rewrite E.
  - apply list_eqb_neq in E. split; [split; [discriminate|tauto]|]. split; [tauto|].
    split; [split; [discriminate|tauto]|]. split; [reflexivity|discriminate].
Qed.

Theorem unsplit_split :
  (forall c, V.h_key (V.cr_enc c) = V.h_key (V.cr_dec c) ->
     V.unsplit (fst (V.split c)) (snd (V.split c)) = Ok c) /\
  (forall K, V.unsplit (fst (V.split (V.crypto_new K))) (snd (V.split (V.crypto_new K))) = Ok (V.crypto_new K)) /\
  (forall c e d, V.unsplit e d = Ok c -> V.split c = (e, d)).
Proof.
  split; [|split].
  - intros [d e] Hk. cbn [V.split fst snd V.cr_enc V.cr_dec] in *. unfold V.unsplit, V.is_pair_of.
    rewrite Hk, list_eqb_refl. reflexivity.
  - intros K. cbn [V.split V.crypto_new fst snd V.cr_enc V.cr_dec]. unfold V.unsplit, V.is_pair_of.
    cbn [V.half_new V.h_key]. now rewrite list_eqb_refl.
  - intros c e d. unfold V.unsplit. destruct (V.is_pair_of e d); [|discriminate].
    intros X. inversion X; subst. reflexivity.
Qed.

(* ================================================================ tbc ======================== *)
Definition t_mk (e d : T.half) : T.crypto := {| T.cr_dec := d; T.cr_enc := e |}.

Lemma t_run_view_holds ops (o : t_obj) :
  match t_run o ops with
  | Ok (o', oe, od) =>
    run_calls T.encrypt (fst (t_view o)) (encs ops) = Ok (fst (t_view o'), oe) /\
    run_calls T.decrypt (snd (t_view o)) (decs ops) = Ok (snd (t_view o'), od)
  | Panic => run_calls T.encrypt (fst (t_view o)) (encs ops) = Panic \/
             run_calls T.decrypt (snd (t_view o)) (decs ops) = Panic
  | Err _ => False
  end.
Proof.
  pose proof (run_view T.crypto_encrypt T.crypto_decrypt T.encrypt T.decrypt T.split None t_mk (fun _ _ => True)) as H.
  specialize (H ltac:(reflexivity) ltac:(reflexivity) ltac:(reflexivity)).
  specialize (H ltac:(intros; discriminate) ltac:(auto) ltac:(auto) ops o I).
  fold t_run t_view in H. destruct (t_run o ops) as [[[o' oe] od]|u|]; [tauto|exact H|exact H].
Qed.

Lemma t_enc_calls_total chunks : forall h, wf_t h ->
  exists h' out, run_calls T.encrypt h chunks = Ok (h', out) /\ wf_t h'.
Proof.
  induction chunks as [|c r IH]; intros h Hw; cbn [run_calls]; [eauto|].
  destruct (t_enc_total h c Hw) as (h1 & o1 & E & Hw1 & _). rewrite E.
  destruct (IH h1 Hw1) as (h2 & o2 & E2 & Hw2). rewrite E2. eauto.
Qed.
Lemma t_dec_calls_total chunks : forall h, wf_t h ->
  exists h' out, run_calls T.decrypt h chunks = Ok (h', out) /\ wf_t h'.
Proof.
  induction chunks as [|c r IH]; intros h Hw; cbn [run_calls]; [eauto|].
  destruct (t_dec_total h c Hw) as (h1 & o1 & E & Hw1 & _). rewrite E.
  destruct (IH h1 Hw1) as (h2 & o2 & E2 & Hw2). rewrite E2. eauto.
Qed.

Definition t_ok (o : t_obj) : Prop := wf_t (fst (t_view o)) /\ wf_t (snd (t_view o)).

Theorem independent_tbc ops (o : t_obj) : t_ok o ->
  exists o' oe od, t_run o ops = Ok (o', oe, od) /\ t_ok o' /\
    run_calls T.encrypt (fst (t_view o)) (encs ops) = Ok (fst (t_view o'), oe) /\
    run_calls T.decrypt (snd (t_view o)) (decs ops) = Ok (snd (t_view o'), od).
Proof.
  intros (Hwe & Hwd).
  destruct (t_enc_calls_total (encs ops) _ Hwe) as (e' & oe & Ee & Hwe').
  destruct (t_dec_calls_total (decs ops) _ Hwd) as (d' & od & Ed & Hwd').
  pose proof (t_run_view_holds ops o) as H.
  destruct (t_run o ops) as [[[o' oe'] od']|u|].
  - destruct H as (He & Hd). rewrite Ee in He. rewrite Ed in Hd. inversion He; inversion Hd; subst.
    exists o', oe', od'. split; [reflexivity|]. split; [|split; assumption]. split; congruence.
  - contradiction.
  - destruct H as [H|H]; congruence.
Qed.

Theorem independent_tbc_new K ops : exists e d,
  T.encrypter_new K = Ok e /\ T.decrypter_new K = Ok d /\ T.crypto_new K = Ok (t_mk e d) /\
  forall o : t_obj, t_view o = (e, d) ->
    exists o', t_run o ops =
      Ok (o', encrypt_stream (PT.tbc_key K) (concat (encs ops)), decrypt_stream (PT.tbc_key K) (concat (decs ops))).
Proof.
  destruct (PT.new_spec K) as [Ee Ed].
  set (h0 := PT.mk_half (PT.tbc_key K) 0 0) in *.
  assert (Ec : T.crypto_new K = Ok (t_mk h0 h0)).
  { unfold T.crypto_new. rewrite Ee, Ed. reflexivity. }
  assert (Hw : wf_t h0).
  { unfold wf_t, h0, PT.mk_half. cbn [T.h_key T.h_st c_idx]. rewrite PT.tbc_key_length. split; lia. }
  pose proof (PT.enc_calls_gen (PT.tbc_key K) (encs ops) (PT.tbc_key_length K) 0%nat 0) as HE.
  pose proof (PT.dec_calls_gen (PT.tbc_key K) (decs ops) (PT.tbc_key_length K) 0%nat 0) as HD.
  change (PT.mk_half (PT.tbc_key K) (N.of_nat (0 mod 20)) 0) with h0 in HE, HD.
  exists h0, h0. split; [exact Ee|]. split; [exact Ed|]. split; [exact Ec|].
  intros o Hv. destruct (independent_tbc ops o) as (o' & oe & od & E & _ & He & Hd).
  { unfold t_ok. rewrite Hv. split; exact Hw. }
  rewrite Hv in He, Hd. cbn [fst snd] in He, Hd. rewrite HE in He. rewrite HD in Hd.
  inversion He; inversion Hd; subst. exists o'. exact E.
Qed.

(* ================================================================ wrath ====================== *)
Definition wc_mk (e : W.client_enc) (d : W.client_dec) : W.client_crypto := {| W.cc_dec := d; W.cc_enc := e |}.
Definition ws_mk (e : W.server_enc) (d : W.server_dec) : W.server_crypto := {| W.sc_dec := d; W.sc_enc := e |}.

Lemma wc_run_view_holds ops (o : wc_obj) :
  match wc_run o ops with
  | Ok (o', oe, od) =>
    run_calls W.ce_encrypt (fst (wc_view o)) (encs ops) = Ok (fst (wc_view o'), oe) /\
    run_calls W.cd_decrypt (snd (wc_view o)) (decs ops) = Ok (snd (wc_view o'), od)
  | Panic => run_calls W.ce_encrypt (fst (wc_view o)) (encs ops) = Panic \/
             run_calls W.cd_decrypt (snd (wc_view o)) (decs ops) = Panic
  | Err _ => False
  end.
Proof.
  pose proof (run_view W.cc_encrypt W.cc_decrypt W.ce_encrypt W.cd_decrypt W.cc_split None wc_mk (fun _ _ => True)) as H.
  specialize (H ltac:(reflexivity) ltac:(reflexivity) ltac:(reflexivity)).
  specialize (H ltac:(intros; discriminate) ltac:(auto) ltac:(auto) ops o I).
  fold wc_run wc_view in H. destruct (wc_run o ops) as [[[o' oe] od]|u|]; [tauto|exact H|exact H].
Qed.

Lemma ws_run_view_holds ops (o : ws_obj) :
  match ws_run o ops with
  | Ok (o', oe, od) =>
    run_calls W.se_encrypt (fst (ws_view o)) (encs ops) = Ok (fst (ws_view o'), oe) /\
    run_calls W.sd_decrypt (snd (ws_view o)) (decs ops) = Ok (snd (ws_view o'), od)
  | Panic => run_calls W.se_encrypt (fst (ws_view o)) (encs ops) = Panic \/
             run_calls W.sd_decrypt (snd (ws_view o)) (decs ops) = Panic
  | Err _ => False
  end.
Proof.
  pose proof (run_view W.sc_encrypt W.sc_decrypt W.se_encrypt W.sd_decrypt W.sc_split None ws_mk (fun _ _ => True)) as H.
  specialize (H ltac:(reflexivity) ltac:(reflexivity) ltac:(reflexivity)).
  specialize (H ltac:(intros; discriminate) ltac:(auto) ltac:(auto) ops o I).
  fold ws_run ws_view in H. destruct (ws_run o ops) as [[[o' oe] od]|u|]; [tauto|exact H|exact H].
Qed.

Definition wc_ok (o : wc_obj) : Prop := rc4_inv (W.ce_rc4 (fst (wc_view o))) /\ PW.wf_cd (snd (wc_view o)).
Definition ws_ok (o : ws_obj) : Prop := PW.wf_se (fst (ws_view o)) /\ rc4_inv (W.sd_rc4 (snd (ws_view o))).

Theorem independent_wrath_client ops (o : wc_obj) : wc_ok o ->
  exists o' oe od, wc_run o ops = Ok (o', oe, od) /\ wc_ok o' /\
    run_calls W.ce_encrypt (fst (wc_view o)) (encs ops) = Ok (fst (wc_view o'), oe) /\
    run_calls W.cd_decrypt (snd (wc_view o)) (decs ops) = Ok (snd (wc_view o'), od).
Proof.
  intros (Hie & Hid & Hh).
  pose proof (PW.ce_calls (encs ops) _ Hie) as Ee. pose proof (PW.cd_calls (decs ops) _ Hid) as Ed.
  pose proof (wc_run_view_holds ops o) as H.
  destruct (wc_run o ops) as [[[o' oe'] od']|u|].
  - destruct H as (He & Hd). exists o', oe', od'. split; [reflexivity|]. split; [|split; assumption].
    rewrite Ee in He. rewrite Ed in Hd. inversion He as [[He1 He2]]. inversion Hd as [[Hd1 Hd2]].
    unfold wc_ok. rewrite <- He1, <- Hd1. cbn [PW.ce_upd W.ce_rc4 PW.cd_upd W.cd_rc4 W.cd_hdr].
    split; [now apply adv_inv|]. split; [now apply adv_inv|exact Hh].
  - contradiction.
  - destruct H as [H|H]; congruence.
Qed.

Theorem independent_wrath_server ops (o : ws_obj) : ws_ok o ->
  exists o' oe od, ws_run o ops = Ok (o', oe, od) /\ ws_ok o' /\
    run_calls W.se_encrypt (fst (ws_view o)) (encs ops) = Ok (fst (ws_view o'), oe) /\
    run_calls W.sd_decrypt (snd (ws_view o)) (decs ops) = Ok (snd (ws_view o'), od).
Proof.
  intros ((Hie & Hb) & Hid).
  pose proof (PW.se_calls (encs ops) _ Hie) as Ee. pose proof (PW.sd_calls (decs ops) _ Hid) as Ed.
  pose proof (ws_run_view_holds ops o) as H.
  destruct (ws_run o ops) as [[[o' oe'] od']|u|].
  - destruct H as (He & Hd). exists o', oe', od'. split; [reflexivity|]. split; [|split; assumption].
    rewrite Ee in He. rewrite Ed in Hd. inversion He as [[He1 He2]]. inversion Hd as [[Hd1 Hd2]].
    unfold ws_ok. rewrite <- He1, <- Hd1. cbn [PW.se_upd W.se_rc4 W.se_buf PW.sd_upd W.sd_rc4].
    split; [split; [now apply adv_inv|exact Hb]|now apply adv_inv].
  - contradiction.
  - destruct H as [H|H]; congruence.
Qed.

(* from fresh objects: each direction is RC4-drop1024 under its own direction key (C09), whatever
   the other direction and the object's life cycle do *)
Theorem independent_wrath_new K ops :
  (exists e d, W.client_enc_new K = Ok e /\ W.client_dec_new K = Ok d /\ W.client_crypto_new K = Ok (wc_mk e d) /\
     forall o : wc_obj, wc_view o = (e, d) ->
       exists o', wc_run o ops =
         Ok (o', spec.Rc4.rc4_crypt (lib.Hmac.hmac_sha1 Consts.wrath_S K) 1024 (concat (encs ops)),
                 spec.Rc4.rc4_crypt (lib.Hmac.hmac_sha1 Consts.wrath_R K) 1024 (concat (decs ops)))) /\
  (exists e d, W.server_enc_new K = Ok e /\ W.server_dec_new K = Ok d /\ W.server_crypto_new K = Ok (ws_mk e d) /\
     forall o : ws_obj, ws_view o = (e, d) ->
       exists o', ws_run o ops =
         Ok (o', spec.Rc4.rc4_crypt (lib.Hmac.hmac_sha1 Consts.wrath_R K) 1024 (concat (encs ops)),
                 spec.Rc4.rc4_crypt (lib.Hmac.hmac_sha1 Consts.wrath_S K) 1024 (concat (decs ops)))).
Proof.
  destruct (PW.new_no_panic K) as (ce & sd & se & cd & Ece & Esd & Ese & Ecd & Hce & Hsd & Hse & Hcd & _).
  destruct (PW.stream_is_drop1024 K (encs ops)) as ((ce1 & ce1' & Ece1 & Sce) & _ & (se1 & se1' & Ese1 & Sse) & _).
  destruct (PW.stream_is_drop1024 K (decs ops)) as (_ & (sd1 & sd1' & Esd1 & Ssd) & _ & (cd1 & cd1' & Ecd1 & Scd)).
  rewrite Ece in Ece1. rewrite Ese in Ese1. rewrite Esd in Esd1. rewrite Ecd in Ecd1.
  inversion Ece1; inversion Ese1; inversion Esd1; inversion Ecd1; subst. split.
  - exists ce1, cd1. split; [exact Ece|]. split; [exact Ecd|]. split.
    { unfold W.client_crypto_new. rewrite Ece, Ecd. reflexivity. }
    intros o Hv. destruct (independent_wrath_client ops o) as (o' & oe & od & E & _ & He & Hd).
    { unfold wc_ok. rewrite Hv. split; assumption. }
    rewrite Hv in He, Hd. cbn [fst snd] in He, Hd. rewrite Sce in He. rewrite Scd in Hd.
    inversion He; inversion Hd; subst. exists o'. exact E.
  - exists se1, sd1. split; [exact Ese|]. split; [exact Esd|]. split.
    { unfold W.server_crypto_new. rewrite Ese, Esd. reflexivity. }
    intros o Hv. destruct (independent_wrath_server ops o) as (o' & oe & od & E & _ & He & Hd).
    { unfold ws_ok. rewrite Hv. split; assumption. }
    rewrite Hv in He, Hd. cbn [fst snd] in He, Hd. rewrite Sse in He. rewrite Ssd in Hd.
    inversion He; inversion Hd; subst. exists o'. exact E.
Qed.

(* clone operations anywhere in a history change nothing; a history can be cut anywhere *)
Theorem clone_transparent :
  (forall ops (o : v_obj), v_run o ops = v_run o (filter (fun x => negb (is_clone x)) ops)) /\
  (forall ops (o : t_obj), t_run o ops = t_run o (filter (fun x => negb (is_clone x)) ops)) /\
  (forall ops (o : wc_obj), wc_run o ops = wc_run o (filter (fun x => negb (is_clone x)) ops)) /\
  (forall ops (o : ws_obj), ws_run o ops = ws_run o (filter (fun x => negb (is_clone x)) ops)).
Proof. repeat split; intros; apply run_clone. Qed.

Definition then_run {O} (run2 : O -> list op -> res (O * list N * list N) unit) (r : res (O * list N * list N) unit) (b : list op) :=
  match r with
  | Ok (o1, oe1, od1) =>
    match run2 o1 b with
    | Ok (o2, oe2, od2) => Ok (o2, oe1 ++ oe2, od1 ++ od2) | Err u => Err u | Panic => Panic end
  | Err u => Err u | Panic => Panic
  end.

Theorem history_cut :
  (forall a b (o : v_obj), v_run o (a ++ b) = then_run v_run (v_run o a) b) /\
  (forall a b (o : t_obj), t_run o (a ++ b) = then_run t_run (t_run o a) b) /\
  (forall a b (o : wc_obj), wc_run o (a ++ b) = then_run wc_run (wc_run o a) b) /\
  (forall a b (o : ws_obj), ws_run o (a ++ b) = then_run ws_run (ws_run o a) b).
Proof. repeat split; intros; apply run_app. Qed.

(* ================================================================ wrath client, header level == *)
Lemma wch_run_view_holds ops (o : wc_obj) :
  match wch_run o ops with
  | Ok (o', oe, od) =>
    run_calls W.ce_encrypt (fst (wc_view o)) (encs ops) = Ok (fst (wc_view o'), oe) /\
    run_calls cd_receive (snd (wc_view o)) (decs ops) = Ok (snd (wc_view o'), od)
  | Panic => run_calls W.ce_encrypt (fst (wc_view o)) (encs ops) = Panic \/
             run_calls cd_receive (snd (wc_view o)) (decs ops) = Panic
  | Err _ => False
  end.
Proof.
  pose proof (run_view W.cc_encrypt cc_receive W.ce_encrypt cd_receive W.cc_split None wc_mk (fun _ _ => True)) as H.
  specialize (H ltac:(reflexivity) ltac:(reflexivity) ltac:(reflexivity)).
  specialize (H ltac:(intros; discriminate) ltac:(auto) ltac:(auto) ops o I).
  fold wch_run wc_view in H. destruct (wch_run o ops) as [[[o' oe] od]|u|]; [tauto|exact H|exact H].
Qed.

Theorem wch_clone_and_cut :
  (forall ops (o : wc_obj), wch_run o ops = wch_run o (filter (fun x => negb (is_clone x)) ops)) /\
  (forall a b (o : wc_obj), wch_run o (a ++ b) = then_run wch_run (wch_run o a) b).
Proof. split; intros; [apply run_clone | apply run_app]. Qed.

(* a pending long header survives whatever happens between its two steps: the attempt, then any
   operations that are not receive calls (sends, split, clone), then the fifth byte give the same
   header and the same decrypter as the two steps back to back *)
Theorem pending_header_survives : forall (o : wc_obj) buf byte mid,
  decs mid = [] ->
  match wch_run o (Dec buf :: mid ++ [Dec [byte]]) with
  | Ok (o', _, od) =>
    exists d1 out1 d2 out2,
      cd_receive (snd (wc_view o)) buf = Ok (d1, out1) /\ cd_receive d1 [byte] = Ok (d2, out2) /\
      snd (wc_view o') = d2 /\ od = out1 ++ out2
  | Panic =>
    run_calls W.ce_encrypt (fst (wc_view o)) (encs mid) = Panic \/
    cd_receive (snd (wc_view o)) buf = Panic \/
    (exists d1 out1, cd_receive (snd (wc_view o)) buf = Ok (d1, out1) /\ cd_receive d1 [byte] = Panic)
  | Err _ => False
  end.
Proof.
  intros o buf byte mid Hmid.
  pose proof (wch_run_view_holds (Dec buf :: mid ++ [Dec [byte]]) o) as H.
  assert (Hd : decs (Dec buf :: mid ++ [Dec [byte]]) = [buf; [byte]]).
  { cbn [decs]. f_equal. clear -Hmid. induction mid as [|x r IH]; [reflexivity|].
    destruct x; cbn [decs app] in *; try discriminate; auto. }
  assert (He : encs (Dec buf :: mid ++ [Dec [byte]]) = encs mid).
  { cbn [encs]. clear. induction mid as [|x r IH]; [reflexivity|]. destruct x; cbn [encs app]; congruence. }
  rewrite Hd, He in H. cbn [run_calls] in H.
  destruct (wch_run o (Dec buf :: mid ++ [Dec [byte]])) as [[[o' oe] od]|u|]; [| exact H |].
  - destruct H as [_ H].
    destruct (cd_receive (snd (wc_view o)) buf) as [[d1 out1]|e|] eqn:E1; [|destruct e|discriminate].
    destruct (cd_receive d1 [byte]) as [[d2 out2]|e|] eqn:E2; [|destruct e|discriminate].
    injection H as <- <-. exists d1, out1, d2, out2. rewrite app_nil_r. auto.
  - destruct H as [H|H]; [left; exact H|right].
    destruct (cd_receive (snd (wc_view o)) buf) as [[d1 out1]|e|] eqn:E1; [|destruct e|left; reflexivity].
    right. exists d1, out1. split; [reflexivity|].
    destruct (cd_receive d1 [byte]) as [[d2 out2]|e|] eqn:E2; [discriminate|destruct e|reflexivity].
Qed.

