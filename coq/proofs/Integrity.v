From WS Require Import lib.Bytes lib.Res lib.Sha1 lib.Hmac Consts model.Integrity proofs.Handshake.
From Coq Require Import ZifyN ZifyNat ZifyBool.
Local Open Scope N_scope.
Local Opaque sha1 hmac_sha1.

Definition integrity_spec (files salt key : list N) : list N := sha1 (key ++ hmac_sha1 salt files).

Theorem windows_spec f1 f2 f3 f4 f5 salt key :
  login_integrity_check_windows f1 f2 f3 f4 f5 salt key = integrity_spec (f1 ++ f2 ++ f3 ++ f4 ++ f5) salt key.
Proof.
  unfold login_integrity_check_windows, checksum, finalise, hmac_finalize, hmac_update, hmac_new, integrity_spec.
  cbn [hm_key hm_msg app]. now rewrite <- !app_assoc.
Qed.

Theorem mac_spec f1 f2 f3 f4 f5 salt key :
  login_integrity_check_mac f1 f2 f3 f4 f5 salt key = integrity_spec (f1 ++ f2 ++ f3 ++ f4 ++ f5) salt key.
Proof.
  unfold login_integrity_check_mac, finalise, hmac_finalize, hmac_update, hmac_new, integrity_spec.
  cbn [hm_key hm_msg app]. now rewrite <- !app_assoc.
Qed.

Theorem generic_spec files salt key : login_integrity_check_generic files salt key = integrity_spec files salt key.
Proof. reflexivity. Qed.

Theorem split_invariant f1 f2 f3 f4 f5 g1 g2 g3 g4 g5 salt key :
  f1 ++ f2 ++ f3 ++ f4 ++ f5 = g1 ++ g2 ++ g3 ++ g4 ++ g5 ->
  login_integrity_check_windows f1 f2 f3 f4 f5 salt key = login_integrity_check_windows g1 g2 g3 g4 g5 salt key /\
  login_integrity_check_mac f1 f2 f3 f4 f5 salt key = login_integrity_check_windows g1 g2 g3 g4 g5 salt key /\
  login_integrity_check_generic (f1 ++ f2 ++ f3 ++ f4 ++ f5) salt key = login_integrity_check_windows g1 g2 g3 g4 g5 salt key.
Proof.
  intros E. pose proof (windows_spec f1 f2 f3 f4 f5 salt key) as W1. pose proof (windows_spec g1 g2 g3 g4 g5 salt key) as W2.
  pose proof (mac_spec f1 f2 f3 f4 f5 salt key) as M1. pose proof (generic_spec (f1 ++ f2 ++ f3 ++ f4 ++ f5) salt key) as G1.
  rewrite E in W1, M1, G1. repeat split; congruence.
Qed.

Theorem reconnect_spec salt : reconnect_integrity_check salt = sha1 (salt ++ repeat 0 20).
Proof. reflexivity. Qed.

(* ---- binding (collision form) ---- *)
Transparent hmac_sha1.
Lemma xor_bytes_inj a b c : length a = length c -> length b = length c -> xor_bytes a c = xor_bytes b c -> a = b.
Proof.
  revert b c; induction a as [|x a IH]; intros [|y b] [|z c] Ha Hb E; cbn in *; try discriminate; try reflexivity.
  inversion E as [[E1 E2]]. f_equal.
  - rewrite <- (lxor_cancel_r x z), E1. apply lxor_cancel_r.
  - apply (IH b c); [lia | lia | exact E2].
Qed.

Theorem hmac_binding salt m salt' m' : length salt = 16%nat -> length salt' = 16%nat ->
  hmac_sha1 salt m = hmac_sha1 salt' m' -> (salt = salt' /\ m = m') \/ collision.
Proof.
  intros Hs Hs' E. unfold hmac_sha1 in E.
  apply sha1_inj_or_collision in E. destruct E as [E|E]; [|now right].
  assert (L : forall k, length (xor_bytes (hmac_key k) hmac_opad) = 64%nat).
  { intros k. unfold xor_bytes. rewrite map_length, combine_length, hmac_key_length. reflexivity. }
  assert (L' : forall k, length (xor_bytes (hmac_key k) hmac_ipad) = 64%nat).
  { intros k. unfold xor_bytes. rewrite map_length, combine_length, hmac_key_length. reflexivity. }
  apply app_inj_length in E; [|now rewrite !L]. destruct E as [Ek Ei].
  apply sha1_inj_or_collision in Ei. destruct Ei as [Ei|Ei]; [|now right].
  apply app_inj_length in Ei; [|now rewrite !L']. destruct Ei as [_ ->].
  apply xor_bytes_inj in Ek; [|now rewrite hmac_key_length|now rewrite hmac_key_length].
  rewrite !hmac_key_short in Ek by lia. rewrite Hs, Hs' in Ek.
  apply app_inj_length in Ek; [|congruence]. destruct Ek as [-> _]. left; auto.
Qed.
Opaque hmac_sha1.

Theorem integrity_binding files salt key files' salt' key' :
  length salt = 16%nat -> length salt' = 16%nat -> length key = 32%nat -> length key' = 32%nat ->
  integrity_spec files salt key = integrity_spec files' salt' key' ->
  (files = files' /\ salt = salt' /\ key = key') \/ collision.
Proof.
  intros Hs Hs' Hk Hk' E. unfold integrity_spec in E.
  apply sha1_inj_or_collision in E. destruct E as [E|E]; [|now right].
  apply app_inj_length in E; [|congruence]. destruct E as [-> E].
  apply hmac_binding in E; try assumption. destruct E as [[-> ->]|E]; [left; auto | now right].
Qed.
