(* C09 (RC4 part): the list-based model of src/rc4.rs refines the textbook, function-based RC4 of
   spec/Rc4.v for every non-empty key; it never panics from any state with a 256-element array;
   chunking is irrelevant; the state evolution depends only on the byte count; xor involution. *)
From WS Require Import lib.Bytes lib.Res lib.Calls spec.Rc4 model.Rc4.
From Coq Require Import ZifyN ZifyNat ZifyBool.
Local Open Scope N_scope.
Ltac Zify.zify_post_hook ::= Z.div_mod_to_equations.

(* ---- a finite sweep over all byte values lifts to a quantified statement ---- *)
Lemma byte_sweep (P : N -> bool) :
  forallb P (map N.of_nat (seq 0 256)) = true -> forall b, b < 256 -> P b = true.
Proof.
  intros H b Hb. rewrite forallb_forall in H. apply H.
  apply in_map_iff. exists (N.to_nat b). split; [lia|]. apply in_seq. lia.
Qed.

(* ---- xor_bytes ---- *)
Lemma xor_bytes_nil_l k : xor_bytes [] k = [].
Proof. reflexivity. Qed.

Lemma xor_bytes_cons x a v k : xor_bytes (x :: a) (v :: k) = N.lxor x v :: xor_bytes a k.
Proof. reflexivity. Qed.

Lemma xor_bytes_length a k : length a = length k -> length (xor_bytes a k) = length a.
Proof. intros H. unfold xor_bytes. rewrite map_length, combine_length. lia. Qed.

Lemma xor_bytes_invol a k : length a = length k -> xor_bytes (xor_bytes a k) k = a.
Proof.
  revert k; induction a as [|x a IH]; intros [|v k] H; cbn [length] in H; try discriminate; [reflexivity|].
  rewrite !xor_bytes_cons, lxor_cancel_r, IH by lia. reflexivity.
Qed.

Lemma xor_bytes_app a b ka kb : length a = length ka ->
  xor_bytes (a ++ b) (ka ++ kb) = xor_bytes a ka ++ xor_bytes b kb.
Proof.
  revert ka; induction a as [|x a IH]; intros [|v ka] H; cbn [length] in H; try discriminate; [reflexivity|].
  cbn [app]. rewrite !xor_bytes_cons, IH by lia. reflexivity.
Qed.

Lemma xor_bytes_bytes a k : bytes a -> bytes k -> bytes (xor_bytes a k).
Proof.
  intros Ha; revert k; induction Ha as [|x a Hx Ha IH]; intros k Hk; [constructor|].
  destruct Hk as [|v k Hv Hk]; [constructor|].
  rewrite xor_bytes_cons. constructor; [now apply lxor_byte | now apply IH].
Qed.

Lemma xor_bytes_zeros k : xor_bytes (repeat 0 (length k)) k = k.
Proof. induction k as [|v k IH]; [reflexivity|]. cbn [length repeat]. now rewrite xor_bytes_cons, IH, N.lxor_0_l. Qed.

(* ---- checked array access ---- *)
Lemma upd_length n v l : length (upd n v l) = length l.
Proof. revert n; induction l as [|x l IH]; intros [|n]; cbn [upd length]; auto. Qed.

Lemma nth_error_upd n m v l : (n < length l)%nat ->
  nth_error (upd n v l) m = if Nat.eqb m n then Some v else nth_error l m.
Proof.
  revert n m; induction l as [|x l IH]; intros [|n] [|m] H; cbn [upd nth_error length Nat.eqb] in *;
    try lia; auto.
  apply IH. lia.
Qed.

Lemma upd_bytes n v l : bytes l -> v < 256 -> bytes (upd n v l).
Proof.
  intros Hl Hv; revert n; induction Hl as [|x l Hx Hl IH]; intros [|n]; cbn [upd];
    [constructor | constructor | constructor; [exact Hv | exact Hl] | constructor; [exact Hx | apply IH]].
Qed.

Lemma get_byte l k v : bytes l -> get l k = Some v -> v < 256.
Proof.
  intros Hl E. apply nth_error_In in E. unfold bytes in Hl. rewrite Forall_forall in Hl. exact (Hl _ E).
Qed.

(* the list [l] holds the S-box [sb] *)
Definition rep (l : list N) (sb : sbox) : Prop :=
  length l = 256%nat /\ forall k, k < 256 -> get l k = Some (sb k).

Lemma rep_of_list l : length l = 256%nat -> rep l (fun k => nth (N.to_nat k) l 0).
Proof. intros H. split; [exact H|]. intros k Hk. unfold get. apply nth_error_nth'. lia. Qed.

Lemma swap_rep l sb a b : rep l sb -> a < 256 -> b < 256 ->
  exists l', swap l a b = Some l' /\ rep l' (swap_sbox sb a b).
Proof.
  intros [HL HG] Ha Hb. unfold swap. rewrite (HG a Ha), (HG b Hb). eexists; split; [reflexivity|].
  split; [now rewrite !upd_length|].
  intros k Hk. pose proof (HG k Hk) as Ek. unfold get in *.
  rewrite !nth_error_upd by (rewrite ?upd_length; lia). rewrite Ek. unfold swap_sbox.
  destruct (Nat.eqb_spec (N.to_nat k) (N.to_nat b)), (Nat.eqb_spec (N.to_nat k) (N.to_nat a)),
    (N.eqb_spec k a), (N.eqb_spec k b); try lia; subst; reflexivity.
Qed.

Lemma swap_bytes l a b l' : swap l a b = Some l' -> bytes l -> bytes l'.
Proof.
  unfold swap. intros E Hl. destruct (get l a) eqn:Ea; [|discriminate]. destruct (get l b) eqn:Eb; [|discriminate].
  inversion E; subst. apply upd_bytes; [apply upd_bytes|]; eauto using get_byte.
Qed.

(* ---- one generator step ---- *)
Definition refines (r : rc4) (g : gen) : Prop :=
  rep (st r) (g_S g) /\ bytes (st r) /\ ri r = g_i g /\ rj r = g_j g.

(* what every array access needs, and what holds for ever *)
Definition rc4_inv (r : rc4) : Prop :=
  length (st r) = 256%nat /\ bytes (st r) /\ ri r < 256 /\ rj r < 256.

Lemma prga_refines r g : refines r g ->
  exists r' v, pseudo_random_generation r = Some (r', v) /\ v = snd (prga g) /\
               refines r' (fst (prga g)) /\ v < 256 /\ ri r' < 256 /\ rj r' < 256.
Proof.
  intros (HR & HB & Hi & Hj). pose proof HR as [HL HG].
  unfold pseudo_random_generation, prga. rewrite Hi, Hj.
  remember ((g_i g + 1) mod 256) as i eqn:Ei. assert (Hi' : i < 256) by lia.
  rewrite (HG i Hi').
  remember ((g_j g + g_S g i) mod 256) as j eqn:Ej. assert (Hj' : j < 256) by lia.
  destruct (swap_rep _ _ i j HR Hi' Hj') as (s & Es & Hs). rewrite Es.
  pose proof (swap_bytes _ _ _ _ Es HB) as HBs.
  pose proof Hs as [HLs HGs].
  rewrite (HGs i Hi'), (HGs j Hj'). cbv beta iota.
  assert (Hk : (swap_sbox (g_S g) i j i + swap_sbox (g_S g) i j j) mod 256 < 256) by lia.
  rewrite (HGs _ Hk).
  eexists; eexists; split; [reflexivity|]. cbn [fst snd st ri rj g_S g_i g_j].
  split; [reflexivity|]. split; [repeat split; assumption|].
  split; [|split; assumption].
  eapply get_byte; [exact HBs | apply (HGs _ Hk)].
Qed.

Lemma inv_refines r : rc4_inv r ->
  refines r {| g_S := fun k => nth (N.to_nat k) (st r) 0; g_i := ri r; g_j := rj r |}.
Proof.
  intros (HL & HB & _ & _). split; [exact (rep_of_list _ HL)|]. split; [exact HB|]. split; reflexivity.
Qed.

Lemma prga_inv r : rc4_inv r ->
  exists r' v, pseudo_random_generation r = Some (r', v) /\ rc4_inv r' /\ v < 256.
Proof.
  intros H. destruct (prga_refines _ _ (inv_refines r H)) as (r' & v & E & _ & ((HL & _) & HB & _ & _) & Hv & Hi & Hj).
  exists r', v. repeat split; assumption.
Qed.

(* ---- apply_keystream: chunking, totality ---- *)
Lemma apply_nil r : apply_keystream r [] = Ok (r, []).
Proof. reflexivity. Qed.

Lemma apply_app r a b :
  apply_keystream r (a ++ b) =
  match apply_keystream r a with
  | Ok (r1, o1) => match apply_keystream r1 b with
                   | Ok (r2, o2) => Ok (r2, o1 ++ o2) | Err e => Err e | Panic => Panic end
  | Err e => Err e | Panic => Panic
  end.
Proof.
  revert r; induction a as [|x a IH]; intros r; cbn [app apply_keystream].
  - destruct (apply_keystream r b) as [[r2 o2]|e|]; reflexivity.
  - destruct (pseudo_random_generation r) as [[r' v]|]; [|reflexivity]. rewrite IH.
    destruct (apply_keystream r' a) as [[r1 o1]|e|]; try reflexivity.
    destruct (apply_keystream r1 b) as [[r2 o2]|e|]; reflexivity.
Qed.

Lemma apply_ok r xs : rc4_inv r ->
  exists r' o, apply_keystream r xs = Ok (r', o) /\ rc4_inv r' /\ length o = length xs /\
               (bytes xs -> bytes o).
Proof.
  revert r; induction xs as [|x xs IH]; intros r H; cbn [apply_keystream].
  - exists r, []. split; [reflexivity|]. split; [exact H|]. split; [reflexivity|auto].
  - destruct (prga_inv r H) as (r' & v & E & H' & Hv). rewrite E.
    destruct (IH r' H') as (r'' & o & E' & H'' & HL & HB). rewrite E'.
    exists r'', (N.lxor x v :: o). split; [reflexivity|]. split; [exact H''|]. split; [cbn [length]; lia|].
    intros Hx. apply bytes_cons in Hx. apply bytes_cons. split; [apply lxor_byte; tauto | tauto].
Qed.

(* the state after n bytes and the next n keystream bytes, read off the model itself
   (the keystream is what the cipher does to zero bytes) *)
Definition adv (r : rc4) (n : nat) : rc4 :=
  match apply_keystream r (repeat 0 n) with Ok (r', _) => r' | _ => r end.
Definition ks (r : rc4) (n : nat) : list N :=
  match apply_keystream r (repeat 0 n) with Ok (_, o) => o | _ => [] end.

Lemma apply_zeros r n : rc4_inv r -> apply_keystream r (repeat 0 n) = Ok (adv r n, ks r n).
Proof.
  intros H. unfold adv, ks. destruct (apply_ok r (repeat 0 n) H) as (r' & o & E & _). now rewrite E.
Qed.

Lemma adv_0 r : adv r 0 = r.  Proof. reflexivity. Qed.
Lemma ks_0 r : ks r 0 = [].   Proof. reflexivity. Qed.

Lemma adv_ks_S r r' v n : rc4_inv r' -> pseudo_random_generation r = Some (r', v) ->
  adv r (S n) = adv r' n /\ ks r (S n) = v :: ks r' n.
Proof.
  intros H' E. unfold adv at 1, ks at 1. cbn [repeat apply_keystream]. rewrite E, (apply_zeros r' n H').
  now rewrite N.lxor_0_l.
Qed.

Theorem apply_norm r xs : rc4_inv r ->
  apply_keystream r xs = Ok (adv r (length xs), xor_bytes xs (ks r (length xs))).
Proof.
  revert r; induction xs as [|x xs IH]; intros r H; [reflexivity|].
  destruct (prga_inv r H) as (r' & v & E & H' & Hv).
  destruct (adv_ks_S r r' v (length xs) H' E) as [Ea Ek].
  cbn [apply_keystream length]. rewrite Ea, Ek, E, (IH r' H'). now rewrite xor_bytes_cons.
Qed.

Lemma adv_inv r n : rc4_inv r -> rc4_inv (adv r n).
Proof.
  intros H. destruct (apply_ok r (repeat 0 n) H) as (r' & o & E & H' & _).
  rewrite (apply_zeros r n H) in E. inversion E; subst. exact H'.
Qed.

Lemma ks_length r n : rc4_inv r -> length (ks r n) = n.
Proof.
  intros H. destruct (apply_ok r (repeat 0 n) H) as (r' & o & E & _ & HL & _).
  rewrite (apply_zeros r n H) in E. inversion E; subst. now rewrite HL, repeat_length.
Qed.

Lemma ks_bytes r n : rc4_inv r -> bytes (ks r n).
Proof.
  intros H. destruct (apply_ok r (repeat 0 n) H) as (r' & o & E & _ & _ & HB).
  rewrite (apply_zeros r n H) in E. inversion E; subst. apply HB, bytes_repeat0.
Qed.

Lemma adv_ks_add r n m : rc4_inv r ->
  adv r (n + m) = adv (adv r n) m /\ ks r (n + m) = ks r n ++ ks (adv r n) m.
Proof.
  intros H. pose proof (apply_zeros r (n + m) H) as E.
  rewrite repeat_app, apply_app, (apply_zeros r n H), (apply_zeros _ m (adv_inv r n H)) in E.
  inversion E; auto.
Qed.

Lemma adv_add r n m : rc4_inv r -> adv r (n + m) = adv (adv r n) m.
Proof. intros H. apply (adv_ks_add r n m H). Qed.
Lemma ks_add r n m : rc4_inv r -> ks r (n + m) = ks r n ++ ks (adv r n) m.
Proof. intros H. apply (adv_ks_add r n m H). Qed.

(* any partition of a stream into calls = one call; the final state is [adv r (byte count)] *)
Theorem apply_calls_concat r chunks :
  run_calls apply_keystream r chunks = apply_keystream r (concat chunks).
Proof. apply run_calls_concat; [exact apply_nil | exact apply_app]. Qed.

Theorem apply_calls r chunks : rc4_inv r ->
  run_calls apply_keystream r chunks = apply_keystream r (concat chunks) /\
  apply_keystream r (concat chunks) =
    Ok (adv r (length (concat chunks)), xor_bytes (concat chunks) (ks r (length (concat chunks)))) /\
  rc4_inv (adv r (length (concat chunks))) /\
  (forall chunks', length (concat chunks') = length (concat chunks) ->
     exists o', run_calls apply_keystream r chunks' = Ok (adv r (length (concat chunks)), o')).
Proof.
  intros H. split; [apply apply_calls_concat|]. split; [now apply apply_norm|]. split; [now apply adv_inv|].
  intros c' E. rewrite apply_calls_concat, (apply_norm r _ H), E. eauto.
Qed.

(* applying the keystream twice from the same state is the identity, and the states agree *)
Theorem apply_roundtrip r xs : rc4_inv r ->
  exists r' ys, apply_keystream r xs = Ok (r', ys) /\ apply_keystream r ys = Ok (r', xs) /\
                rc4_inv r' /\ length ys = length xs.
Proof.
  intros H. pose proof (ks_length r (length xs) H) as HL.
  exists (adv r (length xs)), (xor_bytes xs (ks r (length xs))).
  split; [now apply apply_norm|]. rewrite (apply_norm r _ H), xor_bytes_length by lia.
  rewrite xor_bytes_invol by lia. auto using adv_inv.
Qed.

(* ---- key schedule ---- *)
Lemma cycle_aux_spec key pre cur n : key = pre ++ cur -> key <> [] ->
  cycle_aux key cur n = map (fun i => nth ((length pre + i) mod length key) key 0) (seq 0 n).
Proof.
  revert pre cur; induction n as [|n IH]; intros pre cur E Hne; [reflexivity|].
  cbn [cycle_aux seq map]. destruct cur as [|k cur'].
  - rewrite app_nil_r in E. subst pre. destruct key as [|k cur']; [congruence|].
    rewrite (IH [k] cur' eq_refl Hne). f_equal.
    + rewrite Nat.add_0_r, Nat.mod_same by (cbn [length]; lia). reflexivity.
    + rewrite <- seq_shift, map_map. apply map_ext. intros i.
      replace (length (k :: cur') + S i)%nat with ((length [k] + i) + 1 * length (k :: cur'))%nat
        by (cbn [length]; lia).
      rewrite Nat.mod_add by (cbn [length]; lia). reflexivity.
  - assert (Hlt : (length pre < length key)%nat) by (subst key; rewrite app_length; cbn [length]; lia).
    rewrite (IH (pre ++ [k]) cur') by (subst key; rewrite ?app_assoc_reverse; auto). f_equal.
    + rewrite Nat.add_0_r, Nat.mod_small by exact Hlt. subst key.
      rewrite app_nth2, Nat.sub_diag by lia. reflexivity.
    + rewrite <- seq_shift, map_map. apply map_ext. intros i. rewrite app_length. cbn [length].
      f_equal. f_equal. lia.
Qed.

Lemma cycle_spec key n : key <> [] -> cycle key n = map (key_at key) (seq 0 n).
Proof. intros H. unfold cycle. rewrite (cycle_aux_spec key [] key n eq_refl H). reflexivity. Qed.

Lemma combine_seq_map {A} (f : nat -> A) a n :
  combine (seq a n) (map f (seq a n)) = map (fun i => (i, f i)) (seq a n).
Proof. revert a; induction n as [|n IH]; intros a; cbn [seq map combine]; [reflexivity|]. now rewrite IH. Qed.

Lemma ksa_loop_refines key n : forall a s j, (a + n <= 256)%nat ->
  rep s (fst (ksa_steps key a)) -> bytes s -> j = snd (ksa_steps key a) ->
  exists s', ksa_loop (map (fun i => (i, key_at key i)) (seq a n)) s j = Some s' /\
             rep s' (fst (ksa_steps key (a + n))) /\ bytes s'.
Proof.
  induction n as [|n IH]; intros a s j Ha HR HB Hj.
  - exists s. rewrite Nat.add_0_r. auto.
  - cbn [seq map ksa_loop]. pose proof HR as [HL HG].
    assert (Hai : N.of_nat a < 256) by lia. rewrite (HG _ Hai).
    destruct (ksa_steps key a) as [sb j0] eqn:Ek. cbn [fst snd] in *. subst j0.
    remember (((j + sb (N.of_nat a)) mod 256 + key_at key a) mod 256) as j' eqn:Ej'.
    assert (Hj' : j' < 256) by lia.
    destruct (swap_rep _ _ (N.of_nat a) j' HR Hai Hj') as (s' & Es & Hs). rewrite Es.
    assert (Ej2 : j' = (j + sb (N.of_nat a) + key_at key a) mod 256) by lia.
    destruct (IH (S a) s' j') as (s'' & E'' & HR'' & HB'').
    + lia.
    + cbn [ksa_steps]. rewrite Ek. cbn [fst]. rewrite <- Ej2. exact Hs.
    + eapply swap_bytes; eauto.
    + cbn [ksa_steps]. rewrite Ek. cbn [snd]. exact Ej2.
    + exists s''. rewrite E''. replace (a + S n)%nat with (S a + n)%nat by lia. auto.
Qed.

(* from any 256-element byte array, over any (index, key byte) pairs with index < 256 *)
Lemma ksa_loop_ok pairs : forall s j, Forall (fun p => (fst p < 256)%nat) pairs ->
  length s = 256%nat -> bytes s ->
  exists s', ksa_loop pairs s j = Some s' /\ length s' = 256%nat /\ bytes s'.
Proof.
  induction pairs as [|[i k] r IH]; intros s j HP HL HB; cbn [ksa_loop]; [eauto|].
  inversion HP as [|? ? Hi HP']; subst. cbn [fst] in Hi.
  pose proof (rep_of_list s HL) as HR. pose proof HR as [_ HG].
  assert (Hi' : N.of_nat i < 256) by lia. rewrite (HG _ Hi').
  remember (((j + nth (N.to_nat (N.of_nat i)) s 0) mod 256 + k) mod 256) as j' eqn:Ej'.
  assert (Hj' : j' < 256) by lia.
  destruct (swap_rep _ _ _ j' HR Hi' Hj') as (s' & Es & [HL' _]). rewrite Es.
  apply IH; [assumption | assumption | eapply swap_bytes; eauto].
Qed.

Lemma identity_rep : rep identity_state id_sbox.
Proof.
  split; [reflexivity|]. intros k Hk.
  pose proof (byte_sweep (fun k => match get identity_state k with Some v => v =? k | None => false end)
                ltac:(vm_compute; reflexivity) k Hk) as H.
  cbv beta in H. unfold id_sbox. destruct (get identity_state k); [|discriminate].
  apply N.eqb_eq in H. now subst.
Qed.

Lemma identity_bytes : bytes identity_state.
Proof. apply bytesb_spec. vm_compute. reflexivity. Qed.

(* Rc4::new never panics, whatever the key (empty included) *)
Theorem rc4_new_ok key : exists r, rc4_new key = Ok r /\ rc4_inv r.
Proof.
  unfold rc4_new.
  destruct (ksa_loop_ok (combine (seq 0 256) (cycle key 256)) identity_state 0) as (s & E & HL & HB).
  - apply Forall_forall. intros [i k] Hin. apply in_combine_l in Hin. apply in_seq in Hin. cbn [fst]. lia.
  - reflexivity.
  - exact identity_bytes.
  - rewrite E. eexists; split; [reflexivity|]. repeat split; cbn [st ri rj]; auto; lia.
Qed.

Theorem rc4_new_empty : rc4_new [] = Ok {| st := identity_state; ri := 0; rj := 0 |}.
Proof. reflexivity. Qed.

Theorem rc4_new_refines key : key <> [] -> exists r, rc4_new key = Ok r /\ refines r (gen_init key).
Proof.
  intros Hne. unfold rc4_new. rewrite (cycle_spec key 256 Hne), combine_seq_map.
  destruct (ksa_loop_refines key 256 0 identity_state 0) as (s & E & HR & HB).
  - lia.
  - exact identity_rep.
  - exact identity_bytes.
  - reflexivity.
  - rewrite E. eexists; split; [reflexivity|]. repeat split; cbn [st ri rj gen_init g_S g_i g_j]; auto; apply HR.
Qed.

(* ---- the generator, for ever ---- *)
Lemma refines_inv r g : refines r g -> g_i g < 256 -> g_j g < 256 -> rc4_inv r.
Proof. intros ([HL _] & HB & Hi & Hj) ? ?. repeat split; auto; lia. Qed.

Lemma gen_after_bounds key n : g_i (gen_after key n) < 256 /\ g_j (gen_after key n) < 256.
Proof. destruct n; cbn [gen_after gen_init prga fst g_i g_j]; lia. Qed.

Lemma keystream_from_S key off n :
  keystream_from key off (S n) = keystream_byte key off :: keystream_from key (S off) n.
Proof. reflexivity. Qed.

Lemma keystream_from_add key off n m :
  keystream_from key off (n + m) = keystream_from key off n ++ keystream_from key (off + n) m.
Proof. unfold keystream_from. now rewrite seq_app, map_app. Qed.

Lemma keystream_from_length key off n : length (keystream_from key off n) = n.
Proof. unfold keystream_from. now rewrite map_length, seq_length. Qed.

Lemma adv_ks_refines key m : forall r n, refines r (gen_after key n) ->
  ks r m = keystream_from key n m /\ refines (adv r m) (gen_after key (n + m)).
Proof.
  induction m as [|m IH]; intros r n HR.
  - rewrite Nat.add_0_r. split; [reflexivity | exact HR].
  - destruct (prga_refines _ _ HR) as (r' & v & E & Ev & HR' & Hv & Hi & Hj).
    change (fst (prga (gen_after key n))) with (gen_after key (S n)) in HR'.
    assert (H' : rc4_inv r').
    { destruct (gen_after_bounds key (S n)). eapply refines_inv; eauto. }
    destruct (adv_ks_S r r' v m H' E) as [-> ->].
    destruct (IH r' (S n) HR') as [Ek HR''].
    rewrite keystream_from_S, Ek, Ev. replace (n + S m)%nat with (S n + m)%nat by lia. auto.
Qed.

(* the model after any prefix is RC4 at that offset *)
Theorem rc4_refines_spec key : key <> [] ->
  exists r0, rc4_new key = Ok r0 /\ rc4_inv r0 /\
  forall pre data, exists r1 r2,
    apply_keystream r0 pre = Ok (r1, rc4_crypt key 0 pre) /\ rc4_inv r1 /\
    ks r1 (length data) = keystream_from key (length pre) (length data) /\
    apply_keystream r1 data = Ok (r2, rc4_crypt key (length pre) data) /\ rc4_inv r2 /\
    r2 = adv r0 (length pre + length data).
Proof.
  intros Hne. destruct (rc4_new_refines key Hne) as (r0 & E0 & HR0).
  assert (H0 : rc4_inv r0) by (eapply refines_inv; [exact HR0 | cbn; lia | cbn; lia]).
  exists r0. split; [exact E0|]. split; [exact H0|]. intros pre data.
  change (gen_init key) with (gen_after key 0) in HR0.
  destruct (adv_ks_refines key (length pre) r0 0%nat HR0) as [Ek1 HR1]. cbn [Nat.add] in HR1.
  pose proof (adv_inv r0 (length pre) H0) as H1.
  destruct (adv_ks_refines key (length data) _ _ HR1) as [Ek2 HR2].
  exists (adv r0 (length pre)), (adv (adv r0 (length pre)) (length data)).
  unfold rc4_crypt. rewrite <- Ek1, <- Ek2.
  split; [now apply apply_norm|]. split; [exact H1|]. split; [reflexivity|].
  split; [now apply apply_norm|]. split; [now apply adv_inv|]. now rewrite adv_add.
Qed.

(* RFC 6229 through the model *)
Example rfc6229_model :
  match rc4_new [1;2;3;4;5] with
  | Ok r => match apply_keystream r (repeat 0 32) with Ok (_, o) => o | _ => [] end
  | _ => []
  end =
  [0xb2;0x39;0x63;0x05;0xf0;0x3d;0xc0;0x27;0xcc;0xc3;0x52;0x4a;0x0a;0x11;0x18;0xa8;
   0x69;0x82;0x94;0x4f;0x18;0xfc;0x82;0xd5;0x89;0xc4;0x03;0xa4;0x7a;0x0d;0x09;0x19].
Proof. vm_compute. reflexivity. Qed.
