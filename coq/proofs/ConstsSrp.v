(* Size constants of the SRP group as re-extracted from src/primes.rs / src/key.rs on this run: the
   models use 32-byte keys and a 32-byte prime; the declared lengths must say the same. *)
From Coq Require Import List NArith.
From WS Require Import lib.Bytes Consts.
Local Open Scope N_scope.

Lemma prime_length_declared : large_safe_prime_length = N.of_nat (length n_le) /\ large_safe_prime_length = 32.
Proof. split; reflexivity. Qed.
Lemma prime_encodings_agree : n_be = rev n_le.
Proof. reflexivity. Qed.
Lemma key_lengths_declared :
  public_key_length = large_safe_prime_length /\ private_key_length = 32 /\ salt_length = 32 /\
  s_length = 32 /\ sha1_hash_length = 20 /\ proof_length = 20 /\ session_key_length = 40 /\
  reconnect_challenge_data_length = 16.
Proof. repeat split; reflexivity. Qed.
