(* C18, geometric part: the cell returned for (x, y) is the cell printed at row y, column x; the
   challenged coordinates are a selection without replacement from the cells of the card; a round
   outside 0..count-1 yields no coordinates and nothing panics. *)
From WS Require Import lib.Bytes lib.Res Consts model.Arr model.MatrixCard model.Legacy spec.Select proofs.Arr.
From Coq Require Import Permutation ZifyN ZifyNat ZifyBool.
Local Open Scope N_scope.
Ltac Zify.zify_post_hook ::= Z.div_mod_to_equations.

(* ---------------------------------------------------------------- chunks ---- *)
Lemma skipn_skipn' {A} a : forall b (l : list A), skipn a (skipn b l) = skipn (b + a) l.
Proof.
  intros b. induction b as [|b IH]; intros l; [reflexivity|].
  destruct l as [|x l]; [now rewrite !skipn_nil|]. cbn [Nat.add skipn]. apply IH.
Qed.

Lemma chunks_nth n : (1 <= n)%nat -> forall fuel l j, (length l <= fuel)%nat ->
  nth_error (chunks_fuel fuel n l) j =
  if (j * n <? length l)%nat then Some (firstn n (skipn (j * n) l)) else None.
Proof.
  intros Hn. induction fuel as [|f IH]; intros l j Hl.
  - destruct l; [|cbn [length] in Hl; lia]. cbn [chunks_fuel length].
    destruct (j * n <? 0)%nat eqn:E; [lia|]. now destruct j.
  - destruct l as [|x l].
    + cbn [chunks_fuel length]. destruct (j * n <? 0)%nat eqn:E; [lia|]. now destruct j.
    + cbn [chunks_fuel]. destruct j as [|j].
      * cbn [nth_error Nat.mul skipn]. destruct (0 <? length (x :: l))%nat eqn:E; [reflexivity|cbn [length] in E; lia].
      * cbn [nth_error]. rewrite IH by (rewrite skipn_length; cbn [length] in *; lia).
        rewrite skipn_length, skipn_skipn'.
        replace (S j * n)%nat with (n + j * n)%nat by lia.
        destruct (j * n <? length (x :: l) - n)%nat eqn:E1; destruct (n + j * n <? length (x :: l))%nat eqn:E2;
          try reflexivity; lia.
Qed.

Lemma chunks_concat n : (1 <= n)%nat -> forall fuel l, (length l <= fuel)%nat ->
  concat (chunks_fuel fuel n l) = l.
Proof.
  intros Hn. induction fuel as [|f IH]; intros l Hl.
  - destruct l; [reflexivity|cbn [length] in Hl; lia].
  - destruct l as [|x l]; [reflexivity|]. cbn [chunks_fuel concat].
    rewrite IH by (rewrite skipn_length; cbn [length] in *; lia). apply firstn_skipn.
Qed.

(* a slice of k * n elements is cut into exactly k pieces of exactly n elements *)
Lemma chunks_exact n k l : (1 <= n)%nat -> length l = (k * n)%nat ->
  length (chunks_fuel (length l) n l) = k /\
  Forall (fun c => length c = n) (chunks_fuel (length l) n l) /\
  forall j, (j < k)%nat -> nth_error (chunks_fuel (length l) n l) j = Some (firstn n (skipn (j * n) l)).
Proof.
  intros Hn Hl. set (cells := chunks_fuel (length l) n l).
  assert (Hnth : forall j, nth_error cells j =
            if (j * n <? length l)%nat then Some (firstn n (skipn (j * n) l)) else None)
    by (intros j; apply chunks_nth; [exact Hn|lia]).
  assert (Hj : forall j, (j * n < length l)%nat <-> (j < k)%nat).
  { intros j. rewrite Hl. split; intros H.
    - destruct (Nat.lt_ge_cases j k) as [|Hge]; [assumption|].
      pose proof (Nat.mul_le_mono_r k j n Hge). lia.
    - apply Nat.mul_lt_mono_pos_r; lia. }
  assert (Hsome : forall j, (j < k)%nat -> nth_error cells j = Some (firstn n (skipn (j * n) l))).
  { intros j Hlt. rewrite Hnth. apply Hj in Hlt. destruct (j * n <? length l)%nat eqn:E; [reflexivity|lia]. }
  split; [|split; [|exact Hsome]].
  - assert (H1 : (length cells <= k)%nat).
    { apply nth_error_None. rewrite Hnth. destruct (k * n <? length l)%nat eqn:E; [lia|reflexivity]. }
    destruct k as [|k]; [lia|].
    assert (H2 : (k < length cells)%nat) by (apply nth_error_Some; rewrite Hsome by lia; discriminate).
    lia.
  - apply Forall_forall. intros c Hc. apply In_nth_error in Hc. destruct Hc as [j E].
    rewrite Hnth in E. destruct (j * n <? length l)%nat eqn:E1; [|discriminate].
    inversion E; subst c. rewrite firstn_length, skipn_length.
    assert (j < k)%nat by (apply Hj; lia).
    assert ((j + 1) * n <= k * n)%nat by (apply Nat.mul_le_mono_r; lia). lia.
Qed.

(* ---------------------------------------------------------------- lookup ---- *)
Lemma cell_index_lt w h x y : x < w -> y < h -> y * w + x < w * h.
Proof.
  intros Hx Hy. assert ((y + 1) * w <= h * w) by (apply N.mul_le_mono_r; lia). lia.
Qed.

Lemma cell_index_inj w x y x' y' : x < w -> x' < w -> (x, y) <> (x', y') -> y * w + x <> y' * w + x'.
Proof.
  intros Hx Hx' Hne E.
  destruct (N.lt_trichotomy y y') as [Hlt|[->|Hlt]].
  - assert ((y + 1) * w <= y' * w) by (apply N.mul_le_mono_r; lia). lia.
  - apply Hne. f_equal. lia.
  - assert ((y' + 1) * w <= y * w) by (apply N.mul_le_mono_r; lia). lia.
Qed.

Lemma from_data_ok d w h (data : list N) : length data = N.to_nat (d * h * w) ->
  from_data d h w data = Some {| c_digits := d; c_width := w; c_height := h; c_data := data |}.
Proof.
  intros Hl. unfold from_data, get_matrix_card_size. rewrite Hl, Nnat.N2Nat.id, N.eqb_refl. reflexivity.
Qed.

Lemma data_length_cells d w h (data : list N) : length data = N.to_nat (d * h * w) ->
  length data = (N.to_nat (w * h) * N.to_nat d)%nat.
Proof. intros H. rewrite H, <- Nnat.N2Nat.inj_mul. f_equal. lia. Qed.

Lemma lookup d w h data x y :
  1 <= d -> 1 <= w * h <= 255 -> length data = N.to_nat (d * h * w) -> x < w -> y < h ->
  exists c cells cell,
    from_data d h w data = Some c /\
    printer_cells c = Ok cells /\
    get_number_at_coordinates c x y = Ok cell /\
    nth_error cells (N.to_nat (y * w + x)) = Some cell /\
    cell = firstn (N.to_nat d) (skipn (N.to_nat ((y * w + x) * d)) data) /\
    length cell = N.to_nat d.
Proof.
  intros Hd Hwh Hl Hx Hy.
  pose proof (cell_index_lt w h x y Hx Hy) as Hj. set (j := y * w + x) in *.
  pose proof (data_length_cells d w h data Hl) as Hl'.
  destruct (chunks_exact (N.to_nat d) (N.to_nat (w * h)) data ltac:(lia) Hl') as (Hlen & Hall & Hnth).
  assert (Hend : (j + 1) * d <= w * h * d) by (apply N.mul_le_mono_r; lia).
  assert (HL : N.of_nat (length data) = w * h * d) by (rewrite Hl'; lia).
  eexists. exists (chunks_fuel (length data) (N.to_nat d) data).
  exists (firstn (N.to_nat d) (skipn (N.to_nat (j * d)) data)).
  split; [apply from_data_ok, Hl|]. split; [|split; [|split; [|split; [reflexivity|]]]].
  - unfold printer_cells, chunks. cbn [c_digits c_data]. destruct (d =? 0) eqn:E; [lia|reflexivity].
  - unfold get_number_at_coordinates, slice. cbn [c_digits c_data c_width]. fold j.
    destruct ((j * d + d <? j * d) || (N.of_nat (length data) <? j * d + d)) eqn:E; [lia|].
    cbn [of_option]. do 3 f_equal. lia.
  - rewrite Hnth by lia. do 3 f_equal. lia.
  - rewrite firstn_length, skipn_length. lia.
Qed.

Lemma cells_layout d w h data :
  1 <= d -> 1 <= w * h <= 255 -> length data = N.to_nat (d * h * w) ->
  exists c cells,
    from_data d h w data = Some c /\
    printer_cells c = Ok cells /\
    length cells = N.to_nat (w * h) /\
    Forall (fun cell => length cell = N.to_nat d) cells /\
    concat cells = data /\
    (forall x y, x < w -> y < h -> y * w + x < w * h) /\
    (forall x y x' y', x < w -> y < h -> x' < w -> y' < h -> (x, y) <> (x', y') ->
       (y * w + x + 1) * d <= (y' * w + x') * d \/ (y' * w + x' + 1) * d <= (y * w + x) * d).
Proof.
  intros Hd Hwh Hl.
  pose proof (data_length_cells d w h data Hl) as Hl'.
  destruct (chunks_exact (N.to_nat d) (N.to_nat (w * h)) data ltac:(lia) Hl') as (Hlen & Hall & _).
  eexists. exists (chunks_fuel (length data) (N.to_nat d) data).
  split; [apply from_data_ok, Hl|]. split; [|split; [exact Hlen|split; [exact Hall|split; [|split]]]].
  - unfold printer_cells, chunks. cbn [c_digits c_data]. destruct (d =? 0) eqn:E; [lia|reflexivity].
  - apply chunks_concat; lia.
  - intros x y. apply cell_index_lt.
  - intros x y x' y' Hx Hy Hx' Hy' Hne.
    pose proof (cell_index_inj w x y x' y' Hx Hx' Hne) as Hj.
    destruct (N.lt_ge_cases (y * w + x) (y' * w + x')) as [Hlt|Hge].
    + left. apply N.mul_le_mono_r. lia.
    + right. apply N.mul_le_mono_r. lia.
Qed.

(* the String the printer yields for a cell of decimal digits is the digits in ASCII *)
Lemma print_cell_digits cell : Forall (fun b => b <= max_matrix_card_value) cell ->
  print_cell cell = map (fun b => 48 + b) cell.
Proof.
  unfold print_cell. induction 1 as [|b l Hb _ IH]; [reflexivity|].
  cbn [map concat]. rewrite IH. unfold u8_to_string. change max_matrix_card_value with 9 in Hb.
  destruct (b <? 10) eqn:E; [reflexivity|lia].
Qed.

Lemma printer_strings_nth c cells j cell : printer_cells c = Ok cells -> nth_error cells j = Some cell ->
  exists strs, printer_strings c = Ok strs /\ nth_error strs j = Some (print_cell cell) /\ length strs = length cells.
Proof.
  intros Hc Hj. unfold printer_strings. rewrite Hc. cbn [bind]. eexists. split; [reflexivity|].
  split; [now apply map_nth_error | apply map_length].
Qed.

(* ---------------------------------------------------------------- generate_coordinates ---- *)
Lemma set_nth_app' {A} (pre : list A) n x post v : length pre = n ->
  set_nth n v (pre ++ x :: post) = Some (pre ++ v :: post).
Proof. intros <-. apply set_nth_app. Qed.

Lemma iota_S k : iota (S k) = iota k ++ [N.of_nat k].
Proof. unfold iota. now rewrite seq_S, map_app. Qed.

Lemma fill_loop_spec m : forall k, fill_loop (seq k m) (iota k ++ repeat 0 m) = Some (iota (k + m)).
Proof.
  induction m as [|m IH]; intros k.
  - cbn [seq fill_loop repeat]. now rewrite app_nil_r, Nat.add_0_r.
  - cbn [seq fill_loop repeat]. rewrite set_nth_app' by apply iota_length.
    replace (iota k ++ N.of_nat k :: repeat 0 m) with (iota (S k) ++ repeat 0 m)
      by (rewrite iota_S, <- app_assoc; reflexivity).
    rewrite IH. do 2 f_equal. lia.
Qed.

Lemma fill_loop_iota ms : fill_loop (seq 1 (ms - 1)) (repeat 0 ms) = Some (iota ms).
Proof.
  destruct ms as [|m]; [reflexivity|].
  replace (S m - 1)%nat with m by lia.
  exact (fill_loop_spec m 1).
Qed.

Lemma gen_loop_spec ms k : forall i0 seed live junk taken rest,
  (length live + i0 = ms)%nat -> length taken = i0 -> length rest = k -> (k <= length live)%nat ->
  gen_loop (map N.of_nat (seq i0 k)) (N.of_nat ms) seed (live ++ junk) (taken ++ rest) =
  Ok (taken ++ select k seed live).
Proof.
  induction k as [|k IH]; intros i0 seed live junk taken rest Hms Ht Hr Hk.
  - destruct rest; [|discriminate]. reflexivity.
  - cbn [seq map gen_loop select].
    destruct (N.of_nat ms <? N.of_nat i0) eqn:E0; [lia|].
    replace (N.of_nat ms - N.of_nat i0) with (N.of_nat (length live)) by lia.
    set (c := N.of_nat (length live)). assert (Hc : c <> 0) by (subst c; lia).
    destruct (c =? 0) eqn:E1; [lia|].
    assert (Hne : live <> []) by (destruct live; cbn in Hk; [lia|congruence]).
    destruct (select_pick seed live Hne) as [Hlt Enth]. fold c in Hlt, Enth.
    set (r := N.to_nat (seed mod c)) in *.
    destruct (nth_error_split live r Enth) as (pre & mid & Elive & Hpre).
    set (x := nth r live 0) in *.
    rewrite nth_error_app1, Enth by lia.
    destruct rest as [|z rest]; [discriminate|].
    rewrite set_nth_app' by lia.
    assert (Hmid : N.to_nat (c - 1 - seed mod c) = length mid).
    { subst c r. rewrite Elive, app_length in *. cbn [length] in *. lia. }
    rewrite Hmid. fold r. rewrite <- Hpre. rewrite Elive, <- app_assoc. cbn [app].
    rewrite shift_left_spec, remove_nth_app.
    replace (pre ++ mid ++ last mid x :: junk) with ((pre ++ mid) ++ last mid x :: junk)
      by (now rewrite <- app_assoc).
    replace (taken ++ x :: rest) with ((taken ++ [x]) ++ rest) by (now rewrite <- app_assoc).
    rewrite (IH (S i0) (seed / c) (pre ++ mid) (last mid x :: junk) (taken ++ [x]) rest).
    + rewrite <- app_assoc. reflexivity.
    + rewrite Elive, app_length in Hms. cbn [length] in Hms. rewrite app_length. lia.
    + rewrite app_length. cbn [length]. lia.
    + cbn [length] in Hr. lia.
    + rewrite Elive, app_length in Hk. cbn [length] in Hk. rewrite app_length. lia.
Qed.

Lemma generate_coordinates_spec w h count seed : 1 <= w * h <= 255 -> 1 <= count <= w * h ->
  generate_coordinates w h count seed = Ok (select (N.to_nat count) seed (iota (N.to_nat (w * h)))).
Proof.
  intros Hwh Hc. unfold generate_coordinates.
  destruct (255 <? w * h) eqn:E; [lia|].
  rewrite fill_loop_iota.
  pose proof (gen_loop_spec (N.to_nat (w * h)) (N.to_nat count) 0 seed (iota (N.to_nat (w * h))) [] []
               (repeat 0 (N.to_nat count))) as G.
  rewrite Nnat.N2Nat.id, app_nil_r in G. cbn [app] in G. apply G.
  - rewrite iota_length. lia.
  - reflexivity.
  - apply repeat_length.
  - rewrite iota_length. lia.
Qed.

Lemma coordinates w h count seed : 1 <= w * h <= 255 -> 1 <= count <= w * h -> seed < 2 ^ 64 ->
  exists cs, generate_coordinates w h count seed = Ok cs /\
             cs = select (N.to_nat count) seed (iota (N.to_nat (w * h))) /\
             length cs = N.to_nat count /\ NoDup cs /\ Forall (fun c => c < w * h) cs.
Proof.
  intros Hwh Hc _. eexists. split; [apply generate_coordinates_spec; assumption|]. split; [reflexivity|].
  assert (Hk : (N.to_nat count <= length (iota (N.to_nat (w * h))))%nat) by (rewrite iota_length; lia).
  split; [apply select_length|]. split.
  - apply select_nodup; [exact Hk | apply iota_nodup].
  - apply Forall_forall. intros c Hin. apply select_incl in Hin; [|exact Hk].
    apply iota_in in Hin. lia.
Qed.

(* exhausting the card yields every cell exactly once *)
Lemma coordinates_all w h seed : 1 <= w * h <= 255 ->
  exists cs, generate_coordinates w h (w * h) seed = Ok cs /\ Permutation cs (iota (N.to_nat (w * h))).
Proof.
  intros Hwh. eexists. split; [apply generate_coordinates_spec; lia|].
  apply select_perm, iota_length.
Qed.

(* ---------------------------------------------------------------- get_matrix_coordinates ---- *)
Lemma get_coordinates_spec count w h cs round :
  1 <= w * h -> length cs = N.to_nat count -> Forall (fun c => c < w * h) cs ->
  (count <= round -> get_matrix_coordinates count w h cs round = Ok None) /\
  (round < count -> exists c, nth_error cs (N.to_nat round) = Some c /\
                              get_matrix_coordinates count w h cs round = Ok (Some (c mod w, c / w)) /\
                              c mod w < w /\ c / w < h /\ (c / w) * w + c mod w = c).
Proof.
  intros Hwh Hl Hall. unfold get_matrix_coordinates. split; intros Hr.
  - destruct (count <=? round) eqn:E; [reflexivity|lia].
  - destruct (count <=? round) eqn:E; [lia|].
    destruct (nth_error cs (N.to_nat round)) as [c|] eqn:En; [|apply nth_error_None in En; lia].
    exists c. split; [reflexivity|].
    assert (Hw : w <> 0) by (intros ->; lia).
    assert (Hc : c < w * h) by (rewrite Forall_forall in Hall; apply Hall; eapply nth_error_In, En).
    assert (Hy : c / w < h) by (apply N.div_lt_upper_bound; [exact Hw|exact Hc]).
    destruct (w =? 0) eqn:E0; [lia|]. destruct (h <=? c / w) eqn:E1; [lia|].
    split; [reflexivity|]. split; [apply N.mod_lt, Hw|]. split; [exact Hy|].
    pose proof (N.div_mod c w Hw). lia.
Qed.

Lemma round_spec w h count seed round :
  1 <= w * h <= 255 -> 1 <= count <= w * h -> seed < 2 ^ 64 -> round < 256 ->
  exists cs, generate_coordinates w h count seed = Ok cs /\
    no_panic (verifier_coordinates count h seed w round) /\
    verifier_coordinates count h seed w round = get_matrix_coordinates count w h cs round /\
    (count <= round -> get_matrix_coordinates count w h cs round = Ok None) /\
    (round < count -> exists c, nth_error cs (N.to_nat round) = Some c /\
                                get_matrix_coordinates count w h cs round = Ok (Some (c mod w, c / w)) /\
                                c mod w < w /\ c / w < h /\ (c / w) * w + c mod w = c).
Proof.
  intros Hwh Hc Hs _. destruct (coordinates w h count seed Hwh Hc Hs) as (cs & Hg & _ & Hl & _ & Hall).
  exists cs. split; [exact Hg|].
  destruct (get_coordinates_spec count w h cs round ltac:(lia) Hl Hall) as [H1 H2].
  assert (Hv : verifier_coordinates count h seed w round = get_matrix_coordinates count w h cs round)
    by (unfold verifier_coordinates; rewrite Hg; reflexivity).
  split; [|split; [exact Hv|split; [exact H1|exact H2]]].
  rewrite Hv. unfold no_panic. destruct (N.lt_ge_cases round count) as [Hlt|Hge].
  - destruct (H2 Hlt) as (c & _ & -> & _). discriminate.
  - rewrite (H1 Hge). discriminate.
Qed.

(* ---------------------------------------------------------------- the pinned code (LEGACY) ---- *)
Definition card_4x3 : card :=
  {| c_digits := 2; c_width := 4; c_height := 3; c_data := concat (map (fun i => [i; i]) (iota 12)) |}.

Lemma lookup_v070_refuted :
  from_data 2 3 4 (c_data card_4x3) = Some card_4x3 /\
  printer_cells card_4x3 = Ok (map (fun i => [i; i]) (iota 12)) /\
  get_number_at_coordinates_v070 card_4x3 1 0 = Ok [0; 0] /\
  get_number_at_coordinates_v070 card_4x3 0 1 = Ok [0; 0] /\
  get_number_at_coordinates_v070 card_4x3 0 0 = Ok [0; 0] /\
  get_number_at_coordinates card_4x3 1 0 = Ok [1; 1] /\
  get_number_at_coordinates card_4x3 0 1 = Ok [4; 4] /\
  get_number_at_coordinates card_4x3 0 0 = Ok [0; 0].
Proof. vm_compute. repeat split. Qed.

Lemma round_v070_refuted :
  exists cs, generate_coordinates 4 3 2 0 = Ok cs /\
    get_matrix_coordinates_v070 2 4 3 cs 2 = Panic /\
    get_matrix_coordinates 2 4 3 cs 2 = Ok None.
Proof. eexists. vm_compute. repeat split. Qed.
