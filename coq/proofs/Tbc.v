(* C08: TBC halves — HMAC-derived 20-byte key, the Vanilla recurrence modulo 20, exact inverse. *)
From WS Require Import lib.Bytes lib.Res lib.Calls lib.Hmac Consts spec.HeaderCipher model.HeaderCipher model.Tbc
  proofs.HeaderCipher.
From Coq Require Import ZifyN ZifyNat ZifyBool.
Local Open Scope N_scope.

Definition tbc_seed : list N := [0x38; 0xA7; 0x83; 0x15; 0xF8; 0x92; 0x25; 0x30; 0x71; 0x98; 0x67; 0xB1; 0x8C; 0x04; 0xE2; 0xAA].
Definition tbc_key (K : list N) : list N := hmac_sha1 tbc_seed K.

Definition mk_half (k : list N) (i p : N) : half := {| h_key := k; h_st := {| c_idx := i; c_prev := p |} |}.

(* the two duplicated seed literals are the TBC seed (obligation on the extracted constants) *)
Theorem seeds_equal : tbc_seed_enc = tbc_seed /\ tbc_seed_dec = tbc_seed.
Proof. split; reflexivity. Qed.

Lemma tbc_key_length K : length (tbc_key K) = 20%nat. Proof. apply hmac_sha1_length. Qed.
Lemma tbc_key_bytes K : bytes (tbc_key K). Proof. apply hmac_sha1_bytes. Qed.

Theorem new_spec K :
  encrypter_new K = Ok (mk_half (tbc_key K) 0 0) /\ decrypter_new K = Ok (mk_half (tbc_key K) 0 0).
Proof.
  unfold encrypter_new, decrypter_new, into_key_array.
  destruct seeds_equal as [-> ->]. fold (tbc_key K). rewrite tbc_key_length.
  change (N.to_nat proof_length) with 20%nat. cbn [Nat.eqb bind]. split; reflexivity.
Qed.

Lemma pl : proof_length = N.of_nat 20. Proof. reflexivity. Qed.

Lemma encrypt_spec k n p data : length k = 20%nat ->
  encrypt (mk_half k (N.of_nat (n mod 20)) p) data =
  Ok (mk_half k (N.of_nat ((n + length data) mod 20)) (last (enc_stream k n p data) p), enc_stream k n p data).
Proof.
  intros Hk. unfold encrypt, mk_half. cbn [h_key h_st]. rewrite pl.
  rewrite (enc_loop_spec 20 k Hk ltac:(lia) ltac:(lia) _ data n) by reflexivity. reflexivity.
Qed.

Lemma decrypt_spec k n p data : length k = 20%nat ->
  decrypt (mk_half k (N.of_nat (n mod 20)) p) data =
  Ok (mk_half k (N.of_nat ((n + length data) mod 20)) (last data p), dec_stream k n p data).
Proof.
  intros Hk. unfold decrypt, mk_half. cbn [h_key h_st]. rewrite pl.
  rewrite (dec_loop_spec 20 k Hk ltac:(lia) ltac:(lia) _ data n) by reflexivity. reflexivity.
Qed.

Lemma enc_calls_gen k chunks : length k = 20%nat -> forall n p,
  run_calls encrypt (mk_half k (N.of_nat (n mod 20)) p) chunks =
  Ok (mk_half k (N.of_nat ((n + length (concat chunks)) mod 20)) (last (enc_stream k n p (concat chunks)) p),
      enc_stream k n p (concat chunks)).
Proof.
  intros Hk. induction chunks as [|c r IH]; intros n p; cbn [run_calls concat].
  - cbn [length enc_stream last]. now rewrite Nat.add_0_r.
  - rewrite encrypt_spec by exact Hk. rewrite IH.
    rewrite enc_stream_app, app_length, Nat.add_assoc. f_equal. f_equal.
    unfold mk_half. f_equal. f_equal.
    set (a := enc_stream k n p c). set (b := enc_stream k (n + length c) (last a p) (concat r)).
    destruct b as [|z l] eqn:Eb; [now rewrite app_nil_r|]. rewrite last_last_app. reflexivity.
Qed.

Lemma dec_calls_gen k chunks : length k = 20%nat -> forall n p,
  run_calls decrypt (mk_half k (N.of_nat (n mod 20)) p) chunks =
  Ok (mk_half k (N.of_nat ((n + length (concat chunks)) mod 20)) (last (concat chunks) p),
      dec_stream k n p (concat chunks)).
Proof.
  intros Hk. induction chunks as [|c r IH]; intros n p; cbn [run_calls concat].
  - cbn [length dec_stream last]. now rewrite Nat.add_0_r.
  - rewrite decrypt_spec by exact Hk. rewrite IH.
    rewrite dec_stream_app, app_length, Nat.add_assoc. f_equal. f_equal.
    unfold mk_half. f_equal. f_equal.
    destruct (concat r) as [|z l] eqn:Eb; [now rewrite app_nil_r|]. apply last_last_app.
Qed.

Theorem enc_calls K chunks : exists h,
  encrypter_new K = Ok h /\
  run_calls encrypt h chunks =
  Ok (mk_half (tbc_key K) (N.of_nat (length (concat chunks) mod 20)) (last (encrypt_stream (tbc_key K) (concat chunks)) 0),
      encrypt_stream (tbc_key K) (concat chunks)).
Proof.
  destruct (new_spec K) as [E _]. eexists. split; [exact E|].
  exact (enc_calls_gen (tbc_key K) chunks (tbc_key_length K) 0%nat 0).
Qed.

Theorem dec_calls K chunks : exists h,
  decrypter_new K = Ok h /\
  run_calls decrypt h chunks =
  Ok (mk_half (tbc_key K) (N.of_nat (length (concat chunks) mod 20)) (last (concat chunks) 0),
      decrypt_stream (tbc_key K) (concat chunks)).
Proof.
  destruct (new_spec K) as [_ E]. eexists. split; [exact E|].
  exact (dec_calls_gen (tbc_key K) chunks (tbc_key_length K) 0%nat 0).
Qed.

Theorem roundtrip K xs cs1 cs2 : bytes xs ->
  concat cs1 = xs -> concat cs2 = encrypt_stream (tbc_key K) xs ->
  exists e d he hd,
    encrypter_new K = Ok e /\ decrypter_new K = Ok d /\
    run_calls encrypt e cs1 = Ok (he, encrypt_stream (tbc_key K) xs) /\
    run_calls decrypt d cs2 = Ok (hd, xs) /\ h_st hd = h_st he /\ h_key hd = h_key he.
Proof.
  intros Hxs H1 H2. destruct (new_spec K) as [Ee Ed].
  eexists; eexists; eexists; eexists. split; [exact Ee|]. split; [exact Ed|].
  pose proof (enc_calls_gen (tbc_key K) cs1 (tbc_key_length K) 0%nat 0) as HE.
  pose proof (dec_calls_gen (tbc_key K) cs2 (tbc_key_length K) 0%nat 0) as HD.
  change (N.of_nat (0 mod 20)) with 0 in HE, HD. rewrite HE, HD.
  rewrite H1, H2. split; [reflexivity|]. split.
  - f_equal. f_equal. unfold encrypt_stream. apply dec_enc_stream; [apply tbc_key_bytes|assumption|lia|].
    intros E. pose proof (tbc_key_length K) as L. rewrite E in L. discriminate.
  - cbn [h_st h_key mk_half]. unfold encrypt_stream. rewrite enc_stream_length. auto.
Qed.

Theorem empty_call h : encrypt h [] = Ok (h, []) /\ decrypt h [] = Ok (h, []).
Proof. destruct h as [k [i p]]. split; reflexivity. Qed.

Theorem step_table k i p x : length k = 20%nat -> (i < 20)%nat ->
  encrypt (mk_half k (N.of_nat i) p) [x] =
    Ok (mk_half k (N.of_nat (S i mod 20)) ((N.lxor x (nth i k 0) + p) mod 256), [(N.lxor x (nth i k 0) + p) mod 256]) /\
  decrypt (mk_half k (N.of_nat i) p) [x] =
    Ok (mk_half k (N.of_nat (S i mod 20)) x, [N.lxor ((x + 256 - p) mod 256) (nth i k 0)]).
Proof.
  intros Hk Hi.
  pose proof (encrypt_spec k i p [x] Hk) as E. pose proof (decrypt_spec k i p [x] Hk) as D.
  rewrite (Nat.mod_small i 20) in E, D by lia.
  cbn [enc_stream dec_stream length last] in E, D.
  rewrite Hk, Nat.add_1_r, (Nat.mod_small i 20) in E, D by lia. split; assumption.
Qed.

Theorem no_panic_inv h data : length (h_key h) = 20%nat -> c_idx (h_st h) < 20 ->
  (exists h' out, encrypt h data = Ok (h', out) /\ h_key h' = h_key h /\ c_idx (h_st h') < 20 /\ length out = length data) /\
  (exists h' out, decrypt h data = Ok (h', out) /\ h_key h' = h_key h /\ c_idx (h_st h') < 20 /\ length out = length data).
Proof.
  destruct h as [k [i p]]. cbn [h_key h_st c_idx]. intros Hk Hi.
  assert (E : i = N.of_nat (N.to_nat i mod 20)) by (rewrite Nat.mod_small by lia; lia).
  change {| h_key := k; h_st := {| c_idx := i; c_prev := p |} |} with (mk_half k i p).
  rewrite E. split.
  - rewrite encrypt_spec by exact Hk. eexists; eexists. split; [reflexivity|]. cbn [mk_half h_key h_st c_idx].
    split; [reflexivity|]. split; [|apply enc_stream_length].
    pose proof (Nat.mod_upper_bound (N.to_nat i + length data) 20). lia.
  - rewrite decrypt_spec by exact Hk. eexists; eexists. split; [reflexivity|]. cbn [mk_half h_key h_st c_idx].
    split; [reflexivity|]. split; [|apply dec_stream_length].
    pose proof (Nat.mod_upper_bound (N.to_nat i + length data) 20). lia.
Qed.
