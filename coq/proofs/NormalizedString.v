(* C13: `NormalizedString::new` equals its one-equation spec on every list of code points; from
   that: acceptance, stored text, errors, absence of panics, idempotence, case-insensitivity,
   agreement of the constructors, derived Eq/Ord = equality/ordering of the texts, Display,
   and injectivity text -> struct.  No lemma here needs the input to consist of scalar values. *)
From WS Require Import lib.Bytes lib.Res Consts model.NormalizedString spec.NormalizedString.
From Coq Require Import ZifyN ZifyNat ZifyBool.
Local Open Scope N_scope.

(* ---- modelled std functions against the spec vocabulary ---- *)
Lemma msl : max_string_length = 16. Proof. reflexivity. Qed.

Lemma str_len_eq s : str_len s = str_bytes s.
Proof. induction s as [|c r IH]; cbn [str_len str_bytes fold_right]; [reflexivity|]. now rewrite IH. Qed.

Lemma bad_eq c : negb (is_ascii c) || is_ascii_control c = negb (printableb c).
Proof.
  unfold is_ascii, is_ascii_control, printableb.
  destruct (c <=? 127) eqn:?, (c <=? 31) eqn:?, (c =? 127) eqn:?, (32 <=? c) eqn:?, (c <=? 126) eqn:?;
    cbn [negb orb andb]; try reflexivity; exfalso; lia.
Qed.

Lemma printableb_spec c : printableb c = true <-> printable c.
Proof. unfold printableb, printable. lia. Qed.

Lemma lxor32_nat k : (k < 26)%nat -> N.lxor (97 + N.of_nat k) 32 = 97 + N.of_nat k - 32.
Proof. intros H. do 26 (destruct k as [|k]; [reflexivity|]). lia. Qed.

Lemma lxor32 c : 97 <= c <= 122 -> N.lxor c 32 = c - 32.
Proof.
  intros H. replace c with (97 + N.of_nat (N.to_nat (c - 97))) by lia. apply lxor32_nat. lia.
Qed.

Lemma upper_eq c : printable c -> to_ascii_uppercase c mod 256 = upper c.
Proof.
  unfold printable, to_ascii_uppercase, is_ascii_lowercase, upper. intros H.
  destruct ((97 <=? c) && (c <=? 122)) eqn:L.
  - rewrite lxor32 by lia. apply N.mod_small. lia.
  - apply N.mod_small. lia.
Qed.

Lemma upper_printable c : printable c -> printable (upper c).
Proof. unfold printable, upper. destruct ((97 <=? c) && (c <=? 122)) eqn:L; lia. Qed.

Lemma upper_idem c : upper (upper c) = upper c.
Proof.
  unfold upper. destruct ((97 <=? c) && (c <=? 122)) eqn:L; [|now rewrite L].
  destruct ((97 <=? c - 32) && (c - 32 <=? 122)) eqn:L2; [lia|reflexivity].
Qed.

Lemma upper_not_lower c : ~ (97 <= upper c <= 122).
Proof. unfold upper. destruct ((97 <=? c) && (c <=? 122)) eqn:L; lia. Qed.

Lemma upper_utf8_len c : utf8_len (upper c) = utf8_len c.
Proof.
  unfold upper, utf8_len. destruct ((97 <=? c) && (c <=? 122)) eqn:L; [|reflexivity].
  destruct (c - 32 <? 128) eqn:?, (c <? 128) eqn:?; try reflexivity; lia.
Qed.

(* upper identifies only a..z with A..Z, all of them permitted: a forbidden character is kept *)
Lemma upper_eq_bad c c' : upper c = upper c' ->
  printableb c = printableb c' /\ (printableb c = false -> c = c').
Proof.
  unfold upper, printableb.
  destruct ((97 <=? c) && (c <=? 122)) eqn:L, ((97 <=? c') && (c' <=? 122)) eqn:L'; intros E; split; lia.
Qed.

(* ---- lists ---- *)
Lemma first_bad_cons c r : first_bad (c :: r) = if printableb c then first_bad r else Some c.
Proof. unfold first_bad. cbn [find]. now destruct (printableb c). Qed.

Lemma first_bad_none s : first_bad s = None <-> Forall printable s.
Proof.
  induction s as [|c r IH]; [split; [constructor|reflexivity]|].
  rewrite first_bad_cons. destruct (printableb c) eqn:P.
  - rewrite IH. apply printableb_spec in P. split; intros H; [now constructor|now inversion H].
  - split; [discriminate|]. intros H. inversion H as [|? ? Hc]. apply printableb_spec in Hc. congruence.
Qed.

Lemma utf8_len_pos c : (1 <= utf8_len c)%nat.
Proof. unfold utf8_len. destruct (c <? 128), (c <? 2048), (c <? 65536); lia. Qed.

(* number of characters <= number of bytes: the reason the indexed write stays in range *)
Lemma length_le_str_bytes s : (length s <= str_bytes s)%nat.
Proof.
  induction s as [|c r IH]; cbn [length str_bytes fold_right]; [lia|].
  fold (str_bytes r). pose proof (utf8_len_pos c). lia.
Qed.

Lemma printable_str_bytes s : Forall printable s -> str_bytes s = length s.
Proof.
  induction 1 as [|c r Hc Hr IH]; cbn [length str_bytes fold_right]; [reflexivity|].
  fold (str_bytes r). rewrite IH. unfold utf8_len. unfold printable in Hc.
  destruct (c <? 128) eqn:?; [reflexivity|lia].
Qed.

Lemma str_bytes_map_upper s : str_bytes (map upper s) = str_bytes s.
Proof.
  induction s as [|c r IH]; cbn [map str_bytes fold_right]; [reflexivity|].
  fold (str_bytes (map upper r)) (str_bytes r). now rewrite IH, upper_utf8_len.
Qed.

Lemma first_bad_map_upper s s' : map upper s = map upper s' -> first_bad s = first_bad s'.
Proof.
  revert s'; induction s as [|c r IH]; intros [|c' r'] E; cbn [map] in E; try discriminate; [reflexivity|].
  inversion E as [[Ec Er]]. rewrite !first_bad_cons.
  destruct (upper_eq_bad c c' Ec) as [Hp Hb]. rewrite <- Hp.
  destruct (printableb c) eqn:P; [now apply IH|]. now rewrite (Hb eq_refl).
Qed.

Lemma Forall_printable_upper s : Forall printable s -> Forall printable (map upper s).
Proof. induction 1; cbn [map]; constructor; [now apply upper_printable|assumption]. Qed.

Lemma map_upper_idem s : map upper (map upper s) = map upper s.
Proof. rewrite map_map. apply map_ext. intros c. apply upper_idem. Qed.

(* ---- the checked write and the loop ---- *)
Lemma write_app pre v x rest : write (length pre) v (pre ++ x :: rest) = Some (pre ++ v :: rest).
Proof. induction pre as [|p pre IH]; cbn [length app write]; [reflexivity|]. now rewrite IH. Qed.

Lemma loop_spec cs : forall pre k, (length cs <= k)%nat ->
  ns_loop (length pre) cs (pre ++ repeat 0 k) =
  match first_bad cs with
  | Some c => Err (CharacterNotAllowed c)
  | None => Ok (pre ++ map upper cs ++ repeat 0 (k - length cs))
  end.
Proof.
  induction cs as [|c r IH]; intros pre k Hk.
  - cbn [ns_loop first_bad find map length app]. now rewrite Nat.sub_0_r.
  - cbn [ns_loop]. rewrite bad_eq, first_bad_cons. destruct (printableb c) eqn:P; cbn [negb]; [|reflexivity].
    cbn [length] in Hk. destruct k as [|k]; [lia|]. cbn [repeat].
    rewrite write_app. apply printableb_spec in P. rewrite (upper_eq c P).
    replace (S (length pre)) with (length (pre ++ [upper c])) by (rewrite app_length; cbn [length]; lia).
    replace (pre ++ upper c :: repeat 0 k) with ((pre ++ [upper c]) ++ repeat 0 k)
      by (now rewrite <- app_assoc).
    rewrite IH by lia. destruct (first_bad r); [reflexivity|].
    cbn [map length Nat.sub]. now rewrite <- app_assoc.
Qed.

(* ---- the constructor is its spec, for every list of code points ---- *)
Lemma new_spec s : ns_new s = ns_spec s.
Proof.
  unfold ns_new, ns_spec. rewrite msl, str_len_eq.
  replace ((16 <? N.of_nat (str_bytes s)) || (str_bytes s =? 0)%nat)
    with ((str_bytes s =? 0)%nat || (16 <? str_bytes s)%nat)
    by (destruct (str_bytes s =? 0)%nat eqn:?, (16 <? str_bytes s)%nat eqn:?,
                 (16 <? N.of_nat (str_bytes s)) eqn:?; cbn [orb]; try reflexivity; lia).
  destruct ((str_bytes s =? 0)%nat || (16 <? str_bytes s)%nat) eqn:G; [reflexivity|].
  pose proof (length_le_str_bytes s) as Hl.
  change (N.to_nat 16) with 16%nat.
  change (ns_loop 0 s (repeat 0 16)) with (ns_loop (length (@nil N)) s ([] ++ repeat 0 16)).
  rewrite loop_spec by lia.
  destruct (first_bad s) eqn:F; [reflexivity|].
  apply first_bad_none in F. rewrite (printable_str_bytes s F) in *.
  unfold ns_of_text. rewrite map_length. cbn [app]. f_equal. f_equal. apply N.mod_small. lia.
Qed.

Lemma new_ok_iff s t : ns_new s = Ok t <->
  (1 <= length s <= 16)%nat /\ Forall printable s /\ t = ns_of_text (map upper s).
Proof.
  rewrite new_spec. unfold ns_spec. split.
  - destruct ((str_bytes s =? 0)%nat || (16 <? str_bytes s)%nat) eqn:G; [discriminate|].
    destruct (first_bad s) eqn:F; [discriminate|]. intros E.
    apply first_bad_none in F. rewrite (printable_str_bytes s F) in G.
    split; [lia|]. split; [assumption|]. congruence.
  - intros (Hl & Hp & ->). rewrite (printable_str_bytes s Hp).
    destruct ((length s =? 0)%nat || (16 <? length s)%nat) eqn:G; [lia|].
    apply first_bad_none in Hp. now rewrite Hp.
Qed.

(* ---- facts about [ns_of_text] ---- *)
Lemma text_of_text txt : ns_text (ns_of_text txt) = txt.
Proof.
  unfold ns_text, ns_of_text. cbn [ns_arr ns_len]. rewrite Nnat.Nat2N.id.
  rewrite firstn_app, firstn_all, Nat.sub_diag. cbn [firstn]. apply app_nil_r.
Qed.

Lemma arr_of_text_length txt : (length txt <= 16)%nat -> length (ns_arr (ns_of_text txt)) = 16%nat.
Proof. intros H. unfold ns_of_text. cbn [ns_arr]. rewrite app_length, repeat_length. lia. Qed.

Lemma arr_of_text_padding txt :
  skipn (length txt) (ns_arr (ns_of_text txt)) = repeat 0 (16 - length txt).
Proof.
  unfold ns_of_text. cbn [ns_arr]. rewrite skipn_app, skipn_all, Nat.sub_diag. reflexivity.
Qed.

Lemma as_ref_of_text txt : (length txt <= 16)%nat -> Forall printable txt ->
  ns_as_ref (ns_of_text txt) = Ok txt.
Proof.
  intros Hl Hp. unfold ns_as_ref. rewrite text_of_text, (arr_of_text_length txt Hl).
  unfold ns_of_text at 1. cbn [ns_len]. rewrite Nnat.Nat2N.id.
  destruct (16 <? length txt)%nat eqn:G; [lia|].
  replace (forallb (fun b => b <? 128) txt) with true; [reflexivity|].
  symmetry. apply forallb_forall. rewrite Forall_forall in Hp. intros b Hb.
  specialize (Hp b Hb). unfold printable in Hp. lia.
Qed.

(* ---- the property's clauses ---- *)
Lemma accept_iff s : (exists t, ns_new s = Ok t) <-> (1 <= length s <= 16)%nat /\ Forall printable s.
Proof.
  split.
  - intros [t H]. apply new_ok_iff in H. tauto.
  - intros [Hl Hp]. exists (ns_of_text (map upper s)). apply new_ok_iff. tauto.
Qed.

Lemma text_spec s t : ns_new s = Ok t ->
  ns_text t = map upper s /\ length (ns_arr t) = 16%nat /\ ns_len t = N.of_nat (length s) /\
  skipn (length s) (ns_arr t) = repeat 0 (16 - length s) /\
  str_bytes s = length s /\ bytes (ns_arr t) /\
  Forall (fun b => printable b /\ ~ (97 <= b <= 122)) (ns_text t).
Proof.
  intros H. apply new_ok_iff in H. destruct H as (Hl & Hp & ->).
  rewrite text_of_text. repeat split.
  - apply arr_of_text_length. rewrite map_length. lia.
  - unfold ns_of_text. cbn [ns_len]. now rewrite map_length.
  - rewrite <- (map_length upper s) at 1. rewrite arr_of_text_padding. now rewrite map_length.
  - now apply printable_str_bytes.
  - unfold ns_of_text. cbn [ns_arr]. apply bytes_app. split; [|apply bytes_repeat0].
    apply Forall_printable_upper in Hp. unfold bytes. rewrite Forall_forall in *.
    intros b Hb. specialize (Hp b Hb). unfold printable in Hp. unfold byte_ok. lia.
  - apply Forall_forall. intros b Hb. apply in_map_iff in Hb. destruct Hb as (c & <- & Hc).
    rewrite Forall_forall in Hp. split; [apply upper_printable; now apply Hp|apply upper_not_lower].
Qed.

Lemma errors_spec s :
  (str_bytes s = 0%nat \/ (16 < str_bytes s)%nat -> ns_new s = Err StringTooLong) /\
  ((1 <= str_bytes s <= 16)%nat -> forall c, first_bad s = Some c ->
     ns_new s = Err (CharacterNotAllowed c)).
Proof.
  rewrite new_spec. unfold ns_spec. split.
  - intros H. destruct ((str_bytes s =? 0)%nat || (16 <? str_bytes s)%nat) eqn:G; [reflexivity|lia].
  - intros H c F. destruct ((str_bytes s =? 0)%nat || (16 <? str_bytes s)%nat) eqn:G; [lia|].
    now rewrite F.
Qed.

(* the reported character is forbidden, occurs in the input, and everything before it is permitted *)
Lemma first_bad_some s c : first_bad s = Some c ->
  exists pre post, s = pre ++ c :: post /\ Forall printable pre /\ ~ printable c.
Proof.
  induction s as [|x r IH]; [discriminate|]. rewrite first_bad_cons.
  destruct (printableb x) eqn:P.
  - intros H. destruct (IH H) as (pre & post & -> & Hpre & Hc).
    exists (x :: pre), post. split; [reflexivity|]. split; [|assumption].
    constructor; [now apply printableb_spec|assumption].
  - intros H. inversion H; subst. exists [], r. split; [reflexivity|]. split; [constructor|].
    intros Hc. apply printableb_spec in Hc. congruence.
Qed.

Lemma no_panic_spec s : no_panic (ns_new s).
Proof.
  unfold no_panic. rewrite new_spec. unfold ns_spec.
  destruct ((str_bytes s =? 0)%nat || (16 <? str_bytes s)%nat); [discriminate|].
  destruct (first_bad s); discriminate.
Qed.

(* every outcome is one of the three the property names *)
Lemma outcomes s :
  (exists t, ns_new s = Ok t) \/ ns_new s = Err StringTooLong \/
  (exists c, first_bad s = Some c /\ ns_new s = Err (CharacterNotAllowed c)).
Proof.
  rewrite new_spec. unfold ns_spec.
  destruct ((str_bytes s =? 0)%nat || (16 <? str_bytes s)%nat); [tauto|].
  destruct (first_bad s) as [c|]; [right; right; now exists c|left; eauto].
Qed.

Lemma idempotent s t : ns_new s = Ok t -> ns_new (ns_text t) = Ok t.
Proof.
  intros H. apply new_ok_iff in H. destruct H as (Hl & Hp & ->).
  rewrite text_of_text. apply new_ok_iff. rewrite map_length, map_upper_idem.
  split; [assumption|]. split; [now apply Forall_printable_upper|reflexivity].
Qed.

Lemma case_insensitive s s' : map upper s = map upper s' -> ns_new s = ns_new s'.
Proof.
  intros E. rewrite !new_spec. unfold ns_spec.
  rewrite <- (str_bytes_map_upper s), <- (str_bytes_map_upper s'), E.
  rewrite (first_bad_map_upper s s' E). reflexivity.
Qed.

Lemma new_upper s : ns_new (map upper s) = ns_new s.
Proof. apply case_insensitive. apply map_upper_idem. Qed.

Lemma constructors_agree s :
  ns_from_str s = ns_new s /\ ns_from_string s = ns_new s /\
  ns_try_from_str s = ns_new s /\ ns_try_from_string s = ns_new s.
Proof. repeat split. Qed.

(* ---- struct <-> text ---- *)
Lemma struct_of_text s t : ns_new s = Ok t -> t = ns_of_text (ns_text t).
Proof. intros H. apply new_ok_iff in H. destruct H as (_ & _ & ->). now rewrite text_of_text. Qed.

Lemma text_injective s1 s2 t1 t2 : ns_new s1 = Ok t1 -> ns_new s2 = Ok t2 ->
  ns_text t1 = ns_text t2 -> t1 = t2.
Proof.
  intros H1 H2 E. rewrite (struct_of_text s1 t1 H1), (struct_of_text s2 t2 H2). now rewrite E.
Qed.

Lemma function_of_text {X : Type} (h : nstr -> X) s t : ns_new s = Ok t ->
  h t = (fun txt => h (ns_of_text txt)) (ns_text t).
Proof. intros H. cbv beta. now rewrite <- (struct_of_text s t H). Qed.

Lemma ns_eqb_spec t1 t2 : ns_eqb t1 t2 = true <-> t1 = t2.
Proof.
  unfold ns_eqb. rewrite andb_true_iff, list_eqb_spec, N.eqb_eq.
  destruct t1 as [a1 l1], t2 as [a2 l2]. cbn [ns_arr ns_len].
  split; [intros [-> ->]; reflexivity|intros H; inversion H; auto].
Qed.

(* ---- ordering ---- *)
Lemma arr_cmp_lex a : forall b, arr_cmp a b = lex_cmp a b.
Proof. reflexivity. Qed.      (* the two fixpoints have the same body *)

Lemma lex_cmp_refl a : lex_cmp a a = Eq.
Proof. induction a as [|x a IH]; cbn [lex_cmp]; [reflexivity|]. now rewrite N.compare_refl. Qed.

Lemma lex_cmp_eq_iff a : forall b, lex_cmp a b = Eq <-> a = b.
Proof.
  induction a as [|x a IH]; intros [|y b]; cbn [lex_cmp]; try (split; [discriminate|discriminate]);
    [split; reflexivity|].
  destruct (x ?= y) eqn:C.
  - apply N.compare_eq_iff in C. subst. rewrite IH. split; [now intros ->|intros H; now inversion H].
  - split; [discriminate|]. intros H. inversion H; subst. rewrite N.compare_refl in C. discriminate.
  - split; [discriminate|]. intros H. inversion H; subst. rewrite N.compare_refl in C. discriminate.
Qed.

Lemma lex_cmp_antisym a : forall b, lex_cmp b a = CompOpp (lex_cmp a b).
Proof.
  induction a as [|x a IH]; intros [|y b]; cbn [lex_cmp CompOpp]; try reflexivity.
  rewrite (N.compare_antisym x y). destruct (x ?= y); cbn [CompOpp]; auto.
Qed.

(* Comparing zero-padded arrays and then the lengths is comparing the texts, because every byte of
   a text is above the padding byte. *)
Lemma pad_cmp n : forall a b, (length a <= n)%nat -> (length b <= n)%nat ->
  Forall (fun x => 0 < x) a -> Forall (fun x => 0 < x) b ->
  match lex_cmp (a ++ repeat 0 (n - length a)) (b ++ repeat 0 (n - length b)) with
  | Eq => (length a ?= length b)%nat
  | c => c
  end = lex_cmp a b.
Proof.
  induction n as [|n IH]; intros a b Ha Hb Pa Pb.
  - destruct a; [|cbn [length] in Ha; lia]. destruct b; [|cbn [length] in Hb; lia]. reflexivity.
  - destruct a as [|x a], b as [|y b]; cbn [length app Nat.sub repeat lex_cmp].
    + rewrite N.compare_refl. fold (lex_cmp (repeat 0 n) (repeat 0 n)). now rewrite lex_cmp_refl.
    + inversion Pb as [|? ? Hy _]. now rewrite (proj2 (N.compare_lt_iff 0 y) Hy).
    + inversion Pa as [|? ? Hx _]. now rewrite (proj2 (N.compare_gt_iff x 0) Hx).
    + cbn [length] in Ha, Hb. inversion Pa; inversion Pb; subst.
      destruct (x ?= y); [|reflexivity|reflexivity].
      cbn [Nat.compare]. apply IH; try assumption; lia.
Qed.

Lemma printable_pos txt : Forall printable txt -> Forall (fun x => 0 < x) txt.
Proof. apply Forall_impl. unfold printable. intros; lia. Qed.

Lemma cmp_of_text a b : (length a <= 16)%nat -> (length b <= 16)%nat ->
  Forall printable a -> Forall printable b ->
  ns_cmp (ns_of_text a) (ns_of_text b) = lex_cmp a b.
Proof.
  intros Ha Hb Pa Pb. unfold ns_cmp, ns_of_text. cbn [ns_arr ns_len].
  rewrite arr_cmp_lex, <- Nnat.Nat2N.inj_compare.
  apply pad_cmp; auto using printable_pos.
Qed.

Lemma eq_ord s1 s2 t1 t2 : ns_new s1 = Ok t1 -> ns_new s2 = Ok t2 ->
  ns_cmp t1 t2 = lex_cmp (ns_text t1) (ns_text t2) /\
  (t1 = t2 <-> ns_text t1 = ns_text t2) /\
  (ns_eqb t1 t2 = true <-> ns_text t1 = ns_text t2) /\
  (ns_cmp t1 t2 = Eq <-> ns_eqb t1 t2 = true).
Proof.
  intros H1 H2.
  assert (I : t1 = t2 <-> ns_text t1 = ns_text t2)
    by (split; [now intros ->|now apply (text_injective s1 s2)]).
  assert (C : ns_cmp t1 t2 = lex_cmp (ns_text t1) (ns_text t2)).
  { apply new_ok_iff in H1, H2. destruct H1 as (Hl1 & Hp1 & ->), H2 as (Hl2 & Hp2 & ->).
    rewrite !text_of_text. apply cmp_of_text; rewrite ?map_length; try lia;
      now apply Forall_printable_upper. }
  split; [exact C|]. split; [exact I|]. split; [now rewrite ns_eqb_spec|].
  now rewrite C, lex_cmp_eq_iff, ns_eqb_spec.
Qed.

Lemma display_spec s t : ns_new s = Ok t ->
  ns_display t = Ok (ns_text t) /\ ns_as_ref t = Ok (ns_text t).
Proof.
  intros H. apply new_ok_iff in H. destruct H as (Hl & Hp & ->). unfold ns_display.
  rewrite text_of_text, as_ref_of_text; [split; reflexivity| |now apply Forall_printable_upper].
  rewrite map_length. lia.
Qed.
