(* The inline literals of the Rust decisions that the models render as literals (threshold and
   marker masks of the Wrath server header, the ASCII offset of PIN digits, the RC4 state size) are
   re-extracted from the source on every run; the models were written against exactly these values. *)
From WS Require Import lib.Bytes Consts.
Local Open Scope N_scope.

Lemma inline_wrath :
  wrath_large_threshold = 0x7FFF /\ wrath_marker_set = 0x80 /\ wrath_marker_clear = 0x7F /\ wrath_marker_test = 0x80.
Proof. repeat split; reflexivity. Qed.
Lemma inline_pin : pin_ascii_offset = 0x30.
Proof. reflexivity. Qed.
Lemma inline_rc4 : rc4_state_size = 256.
Proof. reflexivity. Qed.
