(* C18, cryptographic part: the proof a MatrixCardVerifier produces is HMAC-SHA1, keyed by
   MD5(seed | session key), over the RC4 encryption (same key, offset 0) of the entered digits, in
   whatever portions they are entered; verify_matrix_card_hash accepts exactly the proof of the digits
   printed at the challenged cells; the honest client is accepted; another digit sequence is
   rejected unless it exhibits an HMAC-SHA1 collision.  The hashes are never unfolded. *)
From WS Require Import lib.Bytes lib.Res lib.Sha1 lib.Md5 lib.Hmac Consts model.Arr model.Rc4 model.MatrixCard
  model.MatrixProof spec.Rc4 spec.Select spec.MatrixProof proofs.Arr proofs.Rc4 proofs.MatrixCard.
From Coq Require Import ZifyN ZifyNat ZifyBool.
Local Open Scope N_scope.
Ltac Zify.zify_post_hook ::= Z.div_mod_to_equations.
Local Opaque sha1 md5 hmac_sha1.

(* ---------------------------------------------------------------- enter_value(s) ---- *)
Definition with_stream (v : verifier) (r : rc4) (m : list N) : verifier :=
  {| v_count := v_count v; v_height := v_height v; v_width := v_width v; v_coordinates := v_coordinates v;
     v_hmac_key := v_hmac_key v; v_hmac_msg := m; v_rc4 := r |}.

Lemma enter_value_unfold v d : enter_value v d =
  match apply_keystream (v_rc4 v) [d] with
  | Ok (r, o) => Ok (with_stream v r (v_hmac_msg v ++ o))
  | Err e => Err e
  | Panic => Panic
  end.
Proof. unfold enter_value, bind. destruct (apply_keystream (v_rc4 v) [d]) as [[r o]|e|]; reflexivity. Qed.

(* entering digits one call at a time = one apply_keystream over all of them, the outputs appended
   to the HMAC message in order *)
Lemma enter_values_apply ds : forall v, enter_values v ds =
  match apply_keystream (v_rc4 v) ds with
  | Ok (r, o) => Ok (with_stream v r (v_hmac_msg v ++ o))
  | Err e => Err e
  | Panic => Panic
  end.
Proof.
  induction ds as [|d ds IH]; intros v.
  - cbn [enter_values apply_keystream]. rewrite app_nil_r. destruct v; reflexivity.
  - cbn [enter_values]. rewrite enter_value_unfold. cbn [apply_keystream].
    destruct (pseudo_random_generation (v_rc4 v)) as [[r' val]|]; [|reflexivity].
    cbn [bind]. rewrite IH. cbn [with_stream v_rc4 v_hmac_msg v_count v_height v_width v_coordinates v_hmac_key].
    destruct (apply_keystream r' ds) as [[r2 o]|e|]; try reflexivity.
    unfold with_stream. cbn [v_rc4 v_hmac_msg v_count v_height v_width v_coordinates v_hmac_key].
    rewrite <- app_assoc. reflexivity.
Qed.

Lemma enter_values_app a : forall v b,
  enter_values v (a ++ b) = (let* v' := enter_values v a in enter_values v' b).
Proof.
  induction a as [|x a IH]; intros v b; [reflexivity|].
  cbn [app enter_values]. destruct (enter_value v x) as [v1|e|]; cbn [bind]; [apply IH|reflexivity|reflexivity].
Qed.

(* any partition of the digits into groups (cells, or anything else) *)
Fixpoint enter_chunks (v : verifier) (chunks : list (list N)) : nres verifier :=
  match chunks with
  | [] => Ok v
  | c :: r => let* v' := enter_values v c in enter_chunks v' r
  end.

Lemma enter_chunks_concat chunks : forall v, enter_chunks v chunks = enter_values v (concat chunks).
Proof.
  induction chunks as [|c r IH]; intros v; [reflexivity|].
  cbn [enter_chunks concat]. rewrite enter_values_app.
  destruct (enter_values v c) as [v1|e|]; cbn [bind]; [apply IH|reflexivity|reflexivity].
Qed.

Definition vgeom (v : verifier) (count w h : N) (cs : list N) : Prop :=
  v_count v = count /\ v_width v = w /\ v_height v = h /\ v_coordinates v = cs.

Lemma enter_values_fields v ds v' count w h cs : enter_values v ds = Ok v' -> vgeom v count w h cs ->
  vgeom v' count w h cs /\ v_hmac_key v' = v_hmac_key v.
Proof.
  rewrite enter_values_apply. destruct (apply_keystream (v_rc4 v) ds) as [[r o]|e|]; try discriminate.
  intros E G. inversion E; subst v'. split; [exact G|reflexivity].
Qed.

(* ---------------------------------------------------------------- RC4 encryption is injective ---- *)
Lemma rc4_crypt_length k off a : length (rc4_crypt k off a) = length a.
Proof. unfold rc4_crypt. apply xor_bytes_length. now rewrite keystream_from_length. Qed.

Lemma rc4_crypt_inj k off a b : rc4_crypt k off a = rc4_crypt k off b -> a = b.
Proof.
  intros E. assert (HL : length a = length b) by (rewrite <- (rc4_crypt_length k off a), E; apply rc4_crypt_length).
  unfold rc4_crypt in E. rewrite <- HL in E.
  rewrite <- (xor_bytes_invol a (keystream_from k off (length a))) by (now rewrite keystream_from_length).
  rewrite E. apply xor_bytes_invol. now rewrite keystream_from_length.
Qed.

(* ---------------------------------------------------------------- MatrixCardVerifier::new ---- *)
Lemma matrix_key_nonempty seed K : matrix_key seed K <> [].
Proof.
  intros E. pose proof (md5_length (le64 seed ++ K)) as H. unfold matrix_key in E. rewrite E in H. discriminate.
Qed.

Lemma verifier_new_ok count h seed w K cs : generate_coordinates w h count seed = Ok cs ->
  exists r0, rc4_inv r0 /\
    (forall ds, exists r1, apply_keystream r0 ds = Ok (r1, rc4_crypt (matrix_key seed K) 0 ds)) /\
    verifier_new count h seed w K =
      Ok {| v_count := count; v_height := h; v_width := w; v_coordinates := cs;
            v_hmac_key := matrix_key seed K; v_hmac_msg := []; v_rc4 := r0 |}.
Proof.
  intros Hg.
  destruct (rc4_refines_spec (matrix_key seed K) (matrix_key_nonempty seed K)) as (r0 & E0 & H0 & HF).
  exists r0. split; [exact H0|]. split.
  - intros ds. destruct (HF ds []) as (r1 & _ & E1 & _). exists r1. exact E1.
  - unfold verifier_new. rewrite Hg. cbn [bind]. fold (matrix_key seed K). rewrite E0. reflexivity.
Qed.

(* the proof of an entered digit sequence *)
Lemma proof_value count h seed w K ds :
  1 <= w * h <= 255 -> 1 <= count <= w * h -> seed < 2 ^ 64 ->
  exists v v', verifier_new count h seed w K = Ok v /\
    enter_values v ds = Ok v' /\
    into_proof v' = hmac_sha1 (md5 (le64 seed ++ K)) (rc4_crypt (md5 (le64 seed ++ K)) 0 ds) /\
    into_proof v' = matrix_proof seed K ds /\
    (forall chunks, concat chunks = ds -> enter_chunks v chunks = Ok v') /\
    client_proof_of count h seed w K ds = Ok (matrix_proof seed K ds) /\
    bytesn 20 (into_proof v').
Proof.
  intros Hwh Hc Hs. destruct (coordinates w h count seed Hwh Hc Hs) as (cs & Hg & _).
  destruct (verifier_new_ok count h seed w K cs Hg) as (r0 & H0 & HF & Hn).
  destruct (HF ds) as (r1 & E1).
  eexists. eexists. split; [exact Hn|].
  assert (Ev : enter_values
            {| v_count := count; v_height := h; v_width := w; v_coordinates := cs;
               v_hmac_key := matrix_key seed K; v_hmac_msg := []; v_rc4 := r0 |} ds =
          Ok {| v_count := count; v_height := h; v_width := w; v_coordinates := cs;
                v_hmac_key := matrix_key seed K; v_hmac_msg := rc4_crypt (matrix_key seed K) 0 ds; v_rc4 := r1 |}).
  { rewrite enter_values_apply. cbn [v_rc4]. rewrite E1. reflexivity. }
  split; [exact Ev|]. split; [reflexivity|]. split; [reflexivity|]. split; [|split].
  - intros chunks <-. rewrite enter_chunks_concat. exact Ev.
  - unfold client_proof_of. rewrite Hn. cbn [bind]. rewrite Ev. reflexivity.
  - apply hmac_sha1_bytesn.
Qed.

(* ---------------------------------------------------------------- the rounds ---- *)
(* the cells printed at the challenged coordinates exist *)
Lemma picked_exists (cells : list (list N)) cs : Forall (fun co => (N.to_nat co < length cells)%nat) cs ->
  exists picked, Forall2 (fun co cell => nth_error cells (N.to_nat co) = Some cell) cs picked.
Proof.
  induction 1 as [|co cs Hco _ [picked IH]]; [exists []; constructor|].
  destruct (nth_error cells (N.to_nat co)) as [cell|] eqn:E; [|apply nth_error_None in E; lia].
  exists (cell :: picked). constructor; assumption.
Qed.

Lemma rounds_spec d w h data c cells count cs :
  1 <= d -> 1 <= w * h <= 255 -> length data = N.to_nat (d * h * w) ->
  from_data d h w data = Some c -> printer_cells c = Ok cells ->
  length cs = N.to_nat count -> Forall (fun co => co < w * h) cs ->
  forall suf picked, Forall2 (fun co cell => nth_error cells (N.to_nat co) = Some cell) suf picked ->
  forall pre v, cs = pre ++ suf -> vgeom v count w h cs ->
    verify_rounds c v (map N.of_nat (seq (length pre) (length suf))) = enter_values v (concat picked) /\
    client_rounds cells v (map N.of_nat (seq (length pre) (length suf))) = enter_values v (concat picked).
Proof.
  intros Hd Hwh Hl Hfd Hpc Hlen Hall.
  induction 1 as [|co cell suf picked Hcell _ IH]; intros pre v Hcs G; [split; reflexivity|].
  cbn [length seq map verify_rounds client_rounds concat].
  pose proof G as (Gc & Gw & Gh & Gcs).
  unfold v_get_matrix_coordinates. rewrite Gc, Gw, Gh, Gcs.
  destruct (get_coordinates_spec count w h cs (N.of_nat (length pre)) ltac:(lia) Hlen Hall) as [_ H2].
  assert (Hround : N.of_nat (length pre) < count).
  { rewrite Hcs, app_length in Hlen. cbn [length] in Hlen. lia. }
  destruct (H2 Hround) as (co' & Hnth & Hget & Hx & Hy & Hco).
  rewrite Nnat.Nat2N.id, Hcs, nth_error_app2, Nat.sub_diag in Hnth by lia. cbn [nth_error] in Hnth.
  inversion Hnth; subst co'. clear Hnth.
  rewrite Hget. cbn [bind].
  destruct (lookup d w h data (co mod w) (co / w) Hd Hwh Hl Hx Hy) as (c' & cells' & cell' & Hfd' & Hpc' & Hnum & Hnth' & _).
  rewrite Hfd in Hfd'. inversion Hfd'; subst c'. rewrite Hpc in Hpc'. inversion Hpc'; subst cells'.
  rewrite Hco in Hnth'. rewrite Hcell in Hnth'. inversion Hnth'; subst cell'.
  rewrite Hnum. cbn [bind]. rewrite Hco, Hcell.
  rewrite enter_values_app.
  destruct (enter_values v cell) as [v1|e|] eqn:Ev; cbn [bind]; [|destruct e|split; reflexivity].
  destruct (enter_values_fields v cell v1 count w h cs Ev G) as [G1 _].
  specialize (IH (pre ++ [co]) v1).
  rewrite app_length in IH. cbn [length] in IH. rewrite Nat.add_1_r in IH.
  apply IH; [rewrite <- app_assoc; exact Hcs | exact G1].
Qed.

(* ---------------------------------------------------------------- verify_matrix_card_hash ---- *)
Lemma verify_spec d w h data count seed K :
  1 <= d -> 1 <= w * h <= 255 -> length data = N.to_nat (d * h * w) ->
  1 <= count <= w * h -> seed < 2 ^ 64 ->
  exists c cells cs picked,
    from_data d h w data = Some c /\ printer_cells c = Ok cells /\
    generate_coordinates w h count seed = Ok cs /\
    Forall2 (fun co cell => nth_error cells (N.to_nat co) = Some cell) cs picked /\
    honest_client cells count h seed w K = Ok (matrix_proof seed K (concat picked)) /\
    forall p, verify_matrix_card_hash c count seed K p =
              Ok (list_eqb (matrix_proof seed K (concat picked)) p).
Proof.
  intros Hd Hwh Hl Hc Hs.
  destruct (cells_layout d w h data Hd Hwh Hl) as (c & cells & Hfd & Hpc & Hlc & _).
  destruct (coordinates w h count seed Hwh Hc Hs) as (cs & Hg & _ & Hlen & _ & Hall).
  destruct (picked_exists cells cs) as [picked Hp].
  { rewrite Hlc. eapply Forall_impl; [|exact Hall]. cbv beta. intros co Hco. lia. }
  exists c, cells, cs, picked. split; [exact Hfd|]. split; [exact Hpc|]. split; [exact Hg|]. split; [exact Hp|].
  destruct (verifier_new_ok count h seed w K cs Hg) as (r0 & H0 & HF & Hn).
  set (v0 := {| v_count := count; v_height := h; v_width := w; v_coordinates := cs;
                v_hmac_key := matrix_key seed K; v_hmac_msg := []; v_rc4 := r0 |}) in *.
  assert (G0 : vgeom v0 count w h cs) by (repeat split).
  destruct (rounds_spec d w h data c cells count cs Hd Hwh Hl Hfd Hpc Hlen Hall cs picked Hp [] v0 eq_refl G0)
    as [Hv Hcl].
  cbn [length] in Hv, Hcl. rewrite Hlen in Hv, Hcl.
  destruct (HF (concat picked)) as (r1 & E1).
  assert (Ev : enter_values v0 (concat picked) =
               Ok (with_stream v0 r1 (rc4_crypt (matrix_key seed K) 0 (concat picked)))).
  { rewrite enter_values_apply. unfold v0 at 1. cbn [v_rc4]. rewrite E1. reflexivity. }
  split.
  - unfold honest_client, rounds_of. rewrite Hn. cbn [bind]. rewrite Hcl, Ev. reflexivity.
  - intros p. unfold verify_matrix_card_hash, rounds_of.
    rewrite (from_data_ok d w h data Hl) in Hfd. inversion Hfd; subst c. cbn [c_height c_width].
    rewrite Hn. cbn [bind]. rewrite Hv, Ev. reflexivity.
Qed.

Lemma verify_iff d w h data count seed K p :
  1 <= d -> 1 <= w * h <= 255 -> length data = N.to_nat (d * h * w) ->
  1 <= count <= w * h -> seed < 2 ^ 64 ->
  exists c cells cs picked b,
    from_data d h w data = Some c /\ printer_cells c = Ok cells /\
    generate_coordinates w h count seed = Ok cs /\
    Forall2 (fun co cell => nth_error cells (N.to_nat co) = Some cell) cs picked /\
    verify_matrix_card_hash c count seed K p = Ok b /\
    (b = true <-> p = matrix_proof seed K (concat picked)).
Proof.
  intros Hd Hwh Hl Hc Hs.
  destruct (verify_spec d w h data count seed K Hd Hwh Hl Hc Hs) as (c & cells & cs & picked & Hfd & Hpc & Hg & Hp & _ & Hv).
  exists c, cells, cs, picked, (list_eqb (matrix_proof seed K (concat picked)) p).
  repeat (split; [assumption|]). split; [apply Hv|].
  rewrite list_eqb_spec. split; intros E; symmetry; exact E.
Qed.

Lemma honest_client_accepted d w h data count seed K :
  1 <= d -> 1 <= w * h <= 255 -> length data = N.to_nat (d * h * w) ->
  1 <= count <= w * h -> seed < 2 ^ 64 ->
  exists c cells p,
    from_data d h w data = Some c /\ printer_cells c = Ok cells /\
    honest_client cells count h seed w K = Ok p /\
    verify_matrix_card_hash c count seed K p = Ok true.
Proof.
  intros Hd Hwh Hl Hc Hs.
  destruct (verify_spec d w h data count seed K Hd Hwh Hl Hc Hs) as (c & cells & cs & picked & Hfd & Hpc & _ & _ & Hh & Hv).
  exists c, cells, (matrix_proof seed K (concat picked)).
  repeat (split; [assumption|]). rewrite Hv, list_eqb_refl. reflexivity.
Qed.

Lemma other_digits_rejected d w h data count seed K ds :
  1 <= d -> 1 <= w * h <= 255 -> length data = N.to_nat (d * h * w) ->
  1 <= count <= w * h -> seed < 2 ^ 64 ->
  exists c cells cs picked p',
    from_data d h w data = Some c /\ printer_cells c = Ok cells /\
    generate_coordinates w h count seed = Ok cs /\
    Forall2 (fun co cell => nth_error cells (N.to_nat co) = Some cell) cs picked /\
    client_proof_of count h seed w K ds = Ok p' /\
    (ds <> concat picked ->
       verify_matrix_card_hash c count seed K p' = Ok false \/
       exists m m', m <> m' /\ hmac_sha1 (matrix_key seed K) m = hmac_sha1 (matrix_key seed K) m').
Proof.
  intros Hd Hwh Hl Hc Hs.
  destruct (verify_spec d w h data count seed K Hd Hwh Hl Hc Hs) as (c & cells & cs & picked & Hfd & Hpc & Hg & Hp & _ & Hv).
  destruct (proof_value count h seed w K ds Hwh Hc Hs) as (_ & _ & _ & _ & _ & _ & _ & Hcp & _).
  exists c, cells, cs, picked, (matrix_proof seed K ds).
  repeat (split; [assumption|]). intros Hne. rewrite Hv.
  destruct (list_eqb (matrix_proof seed K (concat picked)) (matrix_proof seed K ds)) eqn:E; [right|left; reflexivity].
  apply list_eqb_spec in E.
  exists (matrix_message seed K ds), (matrix_message seed K (concat picked)). split.
  - intros Em. apply Hne. unfold matrix_message in Em. exact (rc4_crypt_inj _ _ _ _ Em).
  - symmetry. exact E.
Qed.
