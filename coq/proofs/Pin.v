(* C16: the model of src/pin.rs computes the specified PIN hash and never panics. *)
From WS Require Import lib.Bytes lib.Res lib.Sha1 Consts model.Arr model.Pin spec.Select spec.Pin proofs.Arr.
From Coq Require Import Permutation ZifyN ZifyNat ZifyBool.
Local Open Scope N_scope.
Ltac Zify.zify_post_hook ::= Z.div_mod_to_equations.

(* ---------------------------------------------------------------- decimal digits ---- *)
Lemma digits_fuel_acc f : forall n acc, digits_fuel f n acc = digits_fuel f n [] ++ acc.
Proof.
  induction f as [|f IH]; intros n acc; cbn [digits_fuel]; [reflexivity|].
  destruct (n =? 0); [reflexivity|].
  rewrite (IH _ (_ :: acc)), (IH _ [_]), <- app_assoc. reflexivity.
Qed.

Lemma digits_fuel_enough f1 : forall f2 n acc, n < 2 ^ N.of_nat f1 -> n < 2 ^ N.of_nat f2 ->
  digits_fuel f1 n acc = digits_fuel f2 n acc.
Proof.
  induction f1 as [|f1 IH]; intros f2 n acc H1 H2.
  - assert (n = 0) by (cbn in H1; lia). subst n. destruct f2; reflexivity.
  - destruct f2 as [|f2].
    + assert (n = 0) by (cbn in H2; lia). subst n. reflexivity.
    + cbn [digits_fuel]. destruct (n =? 0) eqn:E; [reflexivity|].
      rewrite Nnat.Nat2N.inj_succ, N.pow_succ_r in H1, H2 by lia.
      apply IH; lia.
Qed.

Lemma digits_0 : digits 0 = []. Proof. reflexivity. Qed.

Lemma log2_fuel n : n < 2 ^ N.of_nat (S (N.to_nat (N.log2 n))).
Proof.
  rewrite Nnat.Nat2N.inj_succ, Nnat.N2Nat.id.
  destruct (N.eq_dec n 0) as [->|Hn]; [cbn; lia|]. apply N.log2_spec. lia.
Qed.

Lemma digits_step n : n <> 0 -> digits n = digits (n / 10) ++ [n mod 10].
Proof.
  intros Hn. unfold digits at 1. cbn [digits_fuel].
  destruct (n =? 0) eqn:E; [lia|]. rewrite digits_fuel_acc. f_equal.
  apply digits_fuel_enough; [|apply log2_fuel].
  pose proof (log2_fuel n) as H. rewrite Nnat.Nat2N.inj_succ, N.pow_succ_r in H by lia. lia.
Qed.

Lemma digits_ind (P : N -> Prop) :
  P 0 -> (forall n, n <> 0 -> P (n / 10) -> P n) -> forall n, P n.
Proof.
  intros H0 Hs n. induction n as [n IH] using (well_founded_induction N.lt_wf_0).
  destruct (N.eq_dec n 0) as [->|Hn]; [exact H0|]. apply Hs; [exact Hn|]. apply IH. lia.
Qed.

Lemma digits_lt10 n : Forall (fun d => d < 10) (digits n).
Proof.
  induction n as [|n Hn IH] using digits_ind; [constructor|].
  rewrite digits_step by exact Hn. apply Forall_app. split; [exact IH|]. constructor; [lia|constructor].
Qed.

Lemma undigits_snoc l d : undigits (l ++ [d]) = 10 * undigits l + d.
Proof. unfold undigits. now rewrite fold_left_app. Qed.

Lemma undigits_digits n : undigits (digits n) = n.
Proof.
  induction n as [|n Hn IH] using digits_ind; [reflexivity|].
  rewrite digits_step, undigits_snoc, IH by exact Hn. lia.
Qed.

Lemma digits_nil_iff n : digits n = [] <-> n = 0.
Proof.
  split; [|intros ->; reflexivity]. intros H.
  destruct (N.eq_dec n 0) as [|Hn]; [assumption|]. rewrite digits_step in H by exact Hn.
  now destruct (digits (n / 10)).
Qed.

(* no leading zero *)
Lemma digits_hd n : n <> 0 -> hd 0 (digits n) <> 0.
Proof.
  induction n as [|n Hn IH] using digits_ind; [congruence|]. intros _.
  rewrite digits_step by exact Hn.
  destruct (N.eq_dec (n / 10) 0) as [E|E].
  - rewrite E, digits_0. cbn [app hd]. lia.
  - specialize (IH E). destruct (digits (n / 10)) as [|a l] eqn:D; [now apply digits_nil_iff in D|].
    exact IH.
Qed.

Lemma digits_length_le k : forall n, n < 10 ^ N.of_nat k -> (length (digits n) <= k)%nat.
Proof.
  induction k as [|k IH]; intros n H.
  - assert (n = 0) by (cbn in H; lia). subst n. cbn. lia.
  - destruct (N.eq_dec n 0) as [->|Hn]; [cbn; lia|].
    rewrite digits_step, app_length by exact Hn. cbn [length].
    rewrite Nnat.Nat2N.inj_succ, N.pow_succ_r in H by lia.
    specialize (IH (n / 10) ltac:(lia)). lia.
Qed.

Lemma digits_length_gt k : forall n, 10 ^ N.of_nat k <= n -> (k < length (digits n))%nat.
Proof.
  induction k as [|k IH]; intros n H.
  - assert (Hn : n <> 0) by (cbn in H; lia). rewrite digits_step, app_length by exact Hn. cbn [length]. lia.
  - rewrite Nnat.Nat2N.inj_succ, N.pow_succ_r in H by lia.
    assert (Hp : 0 < 10 ^ N.of_nat k) by (apply N.neq_0_lt_0, N.pow_nonzero; lia).
    assert (Hn : n <> 0) by lia.
    rewrite digits_step, app_length by exact Hn. cbn [length].
    specialize (IH (n / 10) ltac:(lia)). lia.
Qed.

Lemma digits_length_u32 pin : pin < 2 ^ 32 -> (length (digits pin) <= 10)%nat.
Proof. intros H. apply (digits_length_le 10). change (10 ^ N.of_nat 10) with 10000000000. lia. Qed.

Lemma digits_length_ge4 pin : (4 <= length (digits pin))%nat <-> 1000 <= pin.
Proof.
  split; intros H.
  - destruct (N.lt_ge_cases pin 1000) as [Hlt|]; [|assumption].
    pose proof (digits_length_le 3 pin Hlt). lia.
  - pose proof (digits_length_gt 3 pin H). lia.
Qed.

(* ---------------------------------------------------------------- pin_to_bytes ---- *)
Lemma set_nth_length {A} (l : list A) : forall n v l', set_nth n v l = Some l' -> length l' = length l.
Proof.
  induction l as [|x l IH]; intros [|n] v l' H; cbn [set_nth] in H; try discriminate.
  - now inversion H.
  - destruct (set_nth n v l) as [r|] eqn:E; [|discriminate]. inversion H; subst. cbn [length].
    f_equal. eapply IH, E.
Qed.

(* the fuel is never the reason for a Panic *)
Lemma pin_loop_fuel f : forall pin arr i, (i <= length arr)%nat -> (length arr < f + i)%nat ->
  pin_loop f pin arr i = pin_loop (S f) pin arr i.
Proof.
  induction f as [|f IH]; intros pin arr i Hi Hf; [lia|].
  cbn [pin_loop]. destruct (pin =? 0); [reflexivity|].
  destruct (set_nth i _ arr) as [arr'|] eqn:E; [|reflexivity].
  pose proof (set_nth_length _ _ _ _ E) as Hl.
  assert (i < length arr)%nat.
  { destruct (Nat.lt_ge_cases i (length arr)); [assumption|]. rewrite set_nth_none in E by lia. discriminate. }
  rewrite (IH (pin / 10) arr' (S i)) by lia. reflexivity.
Qed.

Lemma pin_loop_spec fuel : forall pin pre zs,
  (length (digits pin) <= length zs)%nat -> (length (digits pin) < fuel)%nat ->
  pin_loop fuel pin (pre ++ zs) (length pre) =
  Ok (pre ++ rev (digits pin) ++ skipn (length (digits pin)) zs, (length pre + length (digits pin))%nat).
Proof.
  induction fuel as [|f IH]; intros pin pre zs Hz Hf; [lia|].
  cbn [pin_loop]. destruct (N.eq_dec pin 0) as [->|Hn].
  - cbn. now rewrite Nat.add_0_r.
  - destruct (pin =? 0) eqn:E; [lia|].
    rewrite digits_step in * by exact Hn. rewrite app_length in *. cbn [length] in *.
    destruct zs as [|z zs]; [cbn [length] in Hz; lia|].
    replace ((pin mod 10) mod 256) with (pin mod 10) by lia.
    rewrite set_nth_app.
    replace (S (length pre)) with (length (pre ++ [pin mod 10])) by (rewrite app_length; cbn; lia).
    change (pre ++ pin mod 10 :: zs) with (pre ++ [pin mod 10] ++ zs). rewrite app_assoc.
    cbn [length] in Hz.
    rewrite IH by lia. rewrite rev_app_distr, app_length. cbn [rev app length].
    rewrite <- app_assoc. cbn [app].
    replace (length (digits (pin / 10)) + 1)%nat with (S (length (digits (pin / 10)))) by lia.
    cbn [skipn]. f_equal. f_equal. lia.
Qed.

Lemma pin_to_bytes_spec pin out : (length (digits pin) <= length out)%nat ->
  pin_to_bytes pin out = Ok (digits pin).
Proof.
  intros H. unfold pin_to_bytes.
  pose proof (pin_loop_spec (S (length out)) pin [] out H ltac:(lia)) as E.
  cbn [app length Nat.add] in E. rewrite E. clear E. cbn [bind].
  set (L := length (digits pin)). unfold slice.
  assert (Hlen : length (rev (digits pin) ++ skipn L out) = length out).
  { rewrite app_length, rev_length, skipn_length. fold L. lia. }
  rewrite Hlen.
  destruct ((N.of_nat L <? 0) || (N.of_nat (length out) <? N.of_nat L)) eqn:E; [lia|].
  replace (N.to_nat (N.of_nat L - 0)) with L by lia. cbn [N.to_nat skipn].
  rewrite firstn_app, rev_length. fold L. rewrite Nat.sub_diag, firstn_O, app_nil_r.
  rewrite firstn_all2 by (rewrite rev_length; fold L; lia).
  now rewrite rev_involutive.
Qed.

(* ---------------------------------------------------------------- remap_pin_grid ---- *)
Lemma countdown_S n : countdown (S n) = N.of_nat (S n) :: countdown n.
Proof. unfold countdown. rewrite seq_S, map_app, rev_app_distr. reflexivity. Qed.

Lemma remap_loop_spec n : forall seed live junk taken rest,
  length live = n -> length rest = n ->
  remap_loop (countdown n) (length taken) seed (live ++ junk) (taken ++ rest) =
  Ok (taken ++ select n seed live).
Proof.
  induction n as [|n IH]; intros seed live junk taken rest Hl Hr.
  - destruct rest; [|discriminate]. reflexivity.
  - rewrite countdown_S. cbn [remap_loop select]. rewrite Hl.
    set (i := N.of_nat (S n)). assert (Hi : i <> 0) by (subst i; lia).
    destruct (i =? 0) eqn:E0; [lia|].
    assert (Hne : live <> []) by (destruct live; cbn in Hl; [lia|congruence]).
    destruct (select_pick seed live Hne) as [Hlt Enth]. rewrite Hl in Hlt, Enth. fold i in Hlt, Enth.
    set (r := N.to_nat (seed mod i)) in *.
    destruct (nth_error_split live r Enth) as (pre & mid & Elive & Hpre).
    set (x := nth r live 0) in *.
    rewrite nth_error_app1, Enth by lia.
    destruct rest as [|z rest]; [discriminate|].
    rewrite set_nth_app.
    destruct (i <? seed mod i + 1) eqn:E1; [lia|].
    assert (Hmid : N.to_nat (i - seed mod i - 1) = length mid).
    { rewrite Elive, app_length in Hl. cbn [length] in Hl. subst i r. lia. }
    rewrite Hmid. fold r. rewrite <- Hpre. rewrite Elive, <- app_assoc. cbn [app].
    rewrite shift_left_spec, remove_nth_app.
    replace (S (length taken)) with (length (taken ++ [x])) by (rewrite app_length; cbn; lia).
    replace (pre ++ mid ++ last mid x :: junk) with ((pre ++ mid) ++ last mid x :: junk)
      by (now rewrite <- app_assoc).
    replace (taken ++ x :: rest) with ((taken ++ [x]) ++ rest) by (now rewrite <- app_assoc).
    rewrite (IH (seed / i) (pre ++ mid) (last mid x :: junk) (taken ++ [x]) rest).
    + rewrite <- app_assoc. reflexivity.
    + rewrite Elive, app_length in Hl. cbn [length] in Hl. rewrite app_length. lia.
    + cbn [length] in Hr. lia.
Qed.

Lemma initial_grid_iota : initial_grid = iota 10. Proof. reflexivity. Qed.

Lemma remap_pin_grid_select seed : remap_pin_grid seed = Ok (select 10 seed (iota 10)).
Proof.
  unfold remap_pin_grid. change (N.to_nat max_pin_length) with 10%nat.
  exact (remap_loop_spec 10 seed initial_grid [] [] initial_grid eq_refl eq_refl).
Qed.

Lemma grid_spec seed : remap_pin_grid seed = Ok (grid seed).
Proof.
  rewrite remap_pin_grid_select. unfold grid.
  rewrite (select_mod 10 seed (iota 10) eq_refl). reflexivity.
Qed.

Lemma grid_perm_spec seed : Permutation (grid seed) [0; 1; 2; 3; 4; 5; 6; 7; 8; 9].
Proof. unfold grid. apply (select_perm 10 _ (iota 10)). reflexivity. Qed.

Lemma grid_perm seed : exists g, remap_pin_grid seed = Ok g /\ Permutation g [0; 1; 2; 3; 4; 5; 6; 7; 8; 9].
Proof. exists (grid seed). split; [apply grid_spec | apply grid_perm_spec]. Qed.

Lemma grid_mod seed : remap_pin_grid seed = remap_pin_grid (seed mod 3628800).
Proof. rewrite !grid_spec. unfold grid. now rewrite N.mod_mod by lia. Qed.

Lemma grid_spec_mod seed : grid seed = grid (seed mod 3628800).
Proof. unfold grid. now rewrite N.mod_mod by lia. Qed.

(* ---------------------------------------------------------------- the lookup ---- *)
Lemma find_index_spec b l : forall i, In b l -> find_index b l i = Some (i + index_of b l) /\ index_of b l < N.of_nat (length l).
Proof.
  induction l as [|a l IH]; intros i Hin; [destruct Hin|].
  cbn [find_index index_of length]. destruct (a =? b) eqn:E.
  - split; [f_equal; lia | lia].
  - destruct Hin as [->|Hin]; [lia|]. destruct (IH (i + 1) Hin) as [-> Hlt]. split; [f_equal; lia | lia].
Qed.

Lemma find_index_none b l : forall i, ~ In b l -> find_index b l i = None.
Proof.
  induction l as [|a l IH]; intros i Hin; [reflexivity|]. cbn [find_index].
  destruct (a =? b) eqn:E; [exfalso; apply Hin; left; lia|]. apply IH. intros H. apply Hin. now right.
Qed.

Lemma index_of_nth d l : In d l -> nth_error l (N.to_nat (index_of d l)) = Some d.
Proof.
  induction l as [|a l IH]; intros Hin; [destruct Hin|]. cbn [index_of].
  destruct (a =? d) eqn:E.
  - cbn. f_equal. lia.
  - destruct Hin as [->|Hin]; [lia|]. replace (N.to_nat (1 + index_of d l)) with (S (N.to_nat (index_of d l))) by lia.
    cbn [nth_error]. now apply IH.
Qed.

Lemma in_grid seed d : d < 10 -> In d (grid seed).
Proof.
  intros Hd. eapply Permutation_in; [apply Permutation_sym, grid_perm_spec|].
  assert (d = 0 \/ d = 1 \/ d = 2 \/ d = 3 \/ d = 4 \/ d = 5 \/ d = 6 \/ d = 7 \/ d = 8 \/ d = 9) as H by lia.
  cbn [In]. intuition auto.
Qed.

Lemma grid_length seed : length (grid seed) = 10%nat.
Proof. unfold grid. apply select_length. Qed.

Lemma remap_digit_spec seed d : d < 10 ->
  remap_digit (grid seed) d = Ok (index_of d (grid seed)) /\ index_of d (grid seed) < 10.
Proof.
  intros Hd. unfold remap_digit. destruct (find_index_spec d (grid seed) 0 (in_grid seed d Hd)) as [-> Hlt].
  rewrite grid_length in Hlt. cbn [N.add]. split; [f_equal; lia | lia].
Qed.

Lemma to_ascii_spec i : i < 10 -> to_ascii i = Ok (48 + i) /\ 48 + i <= 57.
Proof. intros H. unfold to_ascii. destruct (255 <? i + 48) eqn:E; [lia|]. split; [f_equal; lia | lia]. Qed.

Lemma map_res_ok {A B} (f : A -> nres B) (g : A -> B) l :
  Forall (fun x => f x = Ok (g x)) l -> map_res f l = Ok (map g l).
Proof. induction 1 as [|x l Hx _ IH]; cbn [map_res map]; [reflexivity|]. rewrite Hx. cbn [bind]. rewrite IH. reflexivity. Qed.

(* both loops of calculate_hash, for every digit string *)
Lemma lookup_total seed ds : Forall (fun d => d < 10) ds ->
  exists idx, map_res (remap_digit (grid seed)) ds = Ok idx /\
              idx = map (fun d => index_of d (grid seed)) ds /\
              Forall (fun i => i < 10) idx /\
              map_res to_ascii idx = Ok (map (fun d => 48 + index_of d (grid seed)) ds) /\
              Forall (fun a => 48 <= a <= 57) (map (fun d => 48 + index_of d (grid seed)) ds).
Proof.
  intros H. exists (map (fun d => index_of d (grid seed)) ds).
  split; [|split; [reflexivity|]].
  - apply map_res_ok. eapply Forall_impl; [|exact H]. intros d Hd. apply (remap_digit_spec seed d Hd).
  - assert (Hi : Forall (fun i => i < 10) (map (fun d => index_of d (grid seed)) ds)).
    { apply Forall_map. eapply Forall_impl; [|exact H]. intros d Hd. apply (remap_digit_spec seed d Hd). }
    split; [exact Hi|]. split.
    + rewrite (map_res_ok to_ascii (fun i => 48 + i)).
      * now rewrite map_map.
      * eapply Forall_impl; [|exact Hi]. intros i Hlt. apply (to_ascii_spec i Hlt).
    + apply Forall_map. eapply Forall_impl; [|exact H]. intros d Hd.
      pose proof (remap_digit_spec seed d Hd) as [_ Hlt]. cbn beta. lia.
Qed.

(* ---------------------------------------------------------------- calculate_hash ---- *)
Lemma calculate_hash_spec pin seed ss cs : pin < 2 ^ 32 ->
  calculate_hash pin seed ss cs = Ok (if pin <? 1000 then None else Some (pin_hash seed pin ss cs)).
Proof.
  intros Hpin. unfold calculate_hash.
  pose proof (digits_length_u32 pin Hpin) as Hle.
  rewrite pin_to_bytes_spec by (rewrite repeat_length; exact Hle). cbn [bind].
  change min_pin_length with 4. change max_pin_length with 10.
  pose proof (digits_length_ge4 pin) as H4.
  destruct (pin <? 1000) eqn:E.
  - destruct ((N.of_nat (length (digits pin)) <? 4) || (10 <? N.of_nat (length (digits pin)))) eqn:G; [reflexivity|].
    lia.
  - destruct ((N.of_nat (length (digits pin)) <? 4) || (10 <? N.of_nat (length (digits pin)))) eqn:G; [lia|].
    rewrite grid_spec. cbn [bind].
    destruct (lookup_total seed (digits pin) (digits_lt10 pin)) as (idx & E1 & _ & _ & E2 & _).
    rewrite E1. cbn [bind]. rewrite E2. cbn [bind]. reflexivity.
Qed.

Lemma verify_spec pin seed ss cs h : pin < 2 ^ 32 ->
  verify_client_pin_hash pin seed ss cs h =
  Ok (if pin <? 1000 then false else list_eqb (pin_hash seed pin ss cs) h).
Proof.
  intros Hpin. unfold verify_client_pin_hash. rewrite calculate_hash_spec by exact Hpin. cbn [bind].
  destruct (pin <? 1000); reflexivity.
Qed.

Lemma verify_iff pin seed ss cs h : pin < 2 ^ 32 ->
  exists b, verify_client_pin_hash pin seed ss cs h = Ok b /\
            (b = true <-> 1000 <= pin /\ h = pin_hash seed pin ss cs).
Proof.
  intros Hpin. rewrite verify_spec by exact Hpin. eexists. split; [reflexivity|].
  destruct (pin <? 1000) eqn:E.
  - split; [discriminate | lia].
  - rewrite list_eqb_spec. split; [intros <-; split; [lia|reflexivity] | intros [_ ->]; reflexivity].
Qed.

Lemma pin_hash_length seed pin ss cs : length (pin_hash seed pin ss cs) = 20%nat.
Proof. apply sha1_length. Qed.

Lemma verify_bitflip pin seed ss cs h i : pin < 2 ^ 32 -> (i < 160)%nat ->
  verify_client_pin_hash pin seed ss cs h = Ok true ->
  verify_client_pin_hash pin seed ss cs (flip_bit i h) = Ok false.
Proof.
  intros Hpin Hi. rewrite !verify_spec by exact Hpin.
  destruct (pin <? 1000); [discriminate|]. intros H. inversion H as [E]. apply list_eqb_spec in E. subst h.
  f_equal. apply list_eqb_neq. intros E. symmetry in E. revert E. apply flip_bit_neq.
  rewrite pin_hash_length. lia.
Qed.
