(* the batched server call used by the correspondence runner equals the model call on each proof *)
From WS Require Import lib.Bytes lib.Res lib.Tape Consts model.Bigint model.Key model.Srp model.Server corr.Srp.

Theorem into_server_batch_eq be p A ms t :
  match into_server_batch be p A ms t with
  | Ok rs => rs = map (fun m => into_server be p A m t) ms
  | Err e => False
  | Panic => forall m, into_server be p A m t = Panic
  end.
Proof.
  unfold into_server_batch, into_server.
  destruct (calculate_session_key be A (pr_B p) (pr_v p) (pr_b p)) as [sk|[]|]; cbn [lift bind]; [|reflexivity].
  apply map_ext. intros m. reflexivity.
Qed.
Print Assumptions into_server_batch_eq.
