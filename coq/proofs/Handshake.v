(* C02, C03 (public API), C05, C14 at the level of the typestate API model. *)
From WS Require Import lib.Bytes lib.Res lib.Tape lib.Sha1 Consts model.Bigint model.Key model.Srp model.Server model.Client
  spec.Srp6 proofs.Bigint proofs.Key proofs.Srp proofs.Login primes.NFacts.
From Coq Require Import ZifyN ZifyNat ZifyBool Znumtheory Zpow_facts.
Local Open Scope Z_scope.
Local Opaque sha1.

(* ---------------------------------------------------------------- server decision (C02) *)
Definition server_K (pr : srp_proof) (A : list N) : list N :=
  sp_K (sp_S_server Nz (le_to_Z A) (le_to_Z (pr_v pr)) (sp_u A (pr_B pr)) (le_to_Z (pr_b pr))).
Definition server_M1 (pr : srp_proof) (A : list N) : list N :=
  sp_M1 generator n_le (pr_user pr) (pr_salt pr) A (pr_B pr) (server_K pr A).

Theorem into_server_spec pr A m t : length A = 32%nat ->
  into_server Default pr A m t =
  if list_eqb m (server_M1 pr A)
  then Ok ({| ss_user := pr_user pr; ss_K := server_K pr A; ss_chal := fst (draw 16 t) |},
           sp_M2 A (server_M1 pr A) (server_K pr A), snd (draw 16 t))
  else Err {| me_client_proof := m; me_server_proof := server_M1 pr A |}.
Proof.
  intros HA. unfold into_server. rewrite session_key_spec by exact HA. cbn [lift bind].
  rewrite client_proof_spec. fold (server_K pr A). fold (server_M1 pr A).
  destruct (list_eqb m (server_M1 pr A)); cbn [negb]; [|reflexivity].
  change (N.to_nat reconnect_challenge_data_length) with 16%nat. unfold draw. cbn [fst snd].
  rewrite server_proof_spec. reflexivity.
Qed.

Theorem server_iff pr A m t : length A = 32%nat ->
  (m = server_M1 pr A ->
     exists srv t', into_server Default pr A m t = Ok (srv, sp_M2 A (server_M1 pr A) (server_K pr A), t') /\
                    ss_K srv = server_K pr A /\ ss_user srv = pr_user pr) /\
  (m <> server_M1 pr A ->
     into_server Default pr A m t = Err {| me_client_proof := m; me_server_proof := server_M1 pr A |}).
Proof.
  intros HA. rewrite into_server_spec by exact HA. split; intros H.
  - subst m. rewrite list_eqb_refl. eexists; eexists. split; [reflexivity|]. split; reflexivity.
  - apply list_eqb_neq in H. rewrite H. reflexivity.
Qed.

Theorem client_iff c m :
  (m = sp_M2 (cc_A c) (cc_M1 c) (cc_K c) -> verify_server_proof c m = Ok {| sc_user := cc_user c; sc_K := cc_K c |}) /\
  (m <> sp_M2 (cc_A c) (cc_M1 c) (cc_K c) ->
     verify_server_proof c m = Err {| me_client_proof := sp_M2 (cc_A c) (cc_M1 c) (cc_K c); me_server_proof := m |}).
Proof.
  unfold verify_server_proof, calculate_server_proof, sp_M2. split; intros H.
  - subst m. rewrite list_eqb_refl. reflexivity.
  - apply list_eqb_neq in H. rewrite H. reflexivity.
Qed.

(* all 160 single-bit changes of a 20-byte proof are different proofs of the same length *)
Theorem bitflip i m : length m = 20%nat -> (i < 160)%nat -> flip_bit i m <> m /\ length (flip_bit i m) = 20%nat.
Proof. intros Hl Hi. split; [apply flip_bit_neq; lia | now rewrite flip_bit_length]. Qed.

Corollary server_refuses_bitflip pr A t i : length A = 32%nat -> (i < 160)%nat ->
  into_server Default pr A (flip_bit i (server_M1 pr A)) t =
  Err {| me_client_proof := flip_bit i (server_M1 pr A); me_server_proof := server_M1 pr A |}.
Proof.
  intros HA Hi. apply server_iff; [exact HA|]. apply bitflip; [apply sha1_length | exact Hi].
Qed.

(* ---------------------------------------------------------------- binding (collision form) *)
Definition collision : Prop := exists m m', m <> m' /\ sha1 m = sha1 m'.

Lemma sha1_inj_or_collision m m' : sha1 m = sha1 m' -> m = m' \/ collision.
Proof.
  intros H. destruct (list_eq_dec N.eq_dec m m') as [E|E]; [now left|].
  right. exists m, m'. split; assumption.
Qed.

Theorem M1_binding g n U salt A B K U' salt' A' B' K' :
  length salt = 32%nat -> length salt' = 32%nat -> length A = 32%nat -> length A' = 32%nat ->
  length B = 32%nat -> length B' = 32%nat ->
  sp_M1 g n U salt A B K = sp_M1 g n U' salt' A' B' K' ->
  (U = U' /\ salt = salt' /\ A = A' /\ B = B' /\ K = K') \/ collision.
Proof.
  intros Hs Hs' HA HA' HB HB' H. unfold sp_M1 in H.
  apply sha1_inj_or_collision in H. destruct H as [H|H]; [|now right].
  apply app_inv_head in H.
  apply app_inj_length in H; [|now rewrite !sha1_length]. destruct H as [HU H].
  apply app_inj_length in H; [|congruence]. destruct H as [-> H].
  apply app_inj_length in H; [|congruence]. destruct H as [-> H].
  apply app_inj_length in H; [|congruence]. destruct H as [-> ->].
  apply sha1_inj_or_collision in HU. destruct HU as [->|HU]; [left; auto | now right].
Qed.

Theorem M2_binding A M1 K A' M1' K' :
  length A = 32%nat -> length A' = 32%nat -> length M1 = 20%nat -> length M1' = 20%nat ->
  sp_M2 A M1 K = sp_M2 A' M1' K' -> (A = A' /\ M1 = M1' /\ K = K') \/ collision.
Proof.
  intros HA HA' HM HM' H. unfold sp_M2 in H.
  apply sha1_inj_or_collision in H. destruct H as [H|H]; [|now right].
  apply app_inj_length in H; [|congruence]. destruct H as [-> H].
  apply app_inj_length in H; [|congruence]. destruct H as [-> ->]. left; auto.
Qed.

(* ---------------------------------------------------------------- client, any B / salt (C03, C14) *)
Definition client_K (U P : list N) (g : N) (n' B salt a : list N) (A : list N) : list N :=
  sp_K (sp_S_client 3 (Z.of_N g) (le_to_Z n') (le_to_Z B) (sp_x U P salt) (le_to_Z a) (sp_u A B)).

Theorem client_new_spec U P g n' B salt t : 0 < le_to_Z n' -> le_to_Z n' < 2 ^ 256 ->
  let a := fst (draw 32 t) in
  let Az := sp_A (Z.of_N g) (le_to_Z n') (le_to_Z a) in
  (Az <> 0 ->
     client_new Default U P g n' B salt t =
     Ok ({| cc_user := U;
            cc_M1 := sp_M1 g n' U salt (LE32 Az) B (client_K U P g n' B salt a (LE32 Az));
            cc_A := LE32 Az;
            cc_K := client_K U P g n' B salt a (LE32 Az) |}, snd (draw 32 t))) /\
  (Az = 0 -> client_new Default U P g n' B salt t = Panic).
Proof.
  intros Hn Hlt. cbn zeta. unfold client_new. change (N.to_nat private_key_length) with 32%nat.
  unfold draw. cbv beta iota. cbn [fst snd].
  destruct (client_public_key_spec (firstn 32 t) g n' Hn Hlt) as [H1 H2].
  split; intros HA.
  - rewrite (H1 HA). rewrite (client_S_spec _ _ _ _ _ _ Hn Hlt). cbn [bind].
    rewrite calculate_interleaved_spec by apply Z_to_le_length. cbn [bind].
    rewrite client_proof_custom_spec, calculate_x_value, calculate_u_value. reflexivity.
  - rewrite (H2 HA). reflexivity.
Qed.

(* built-in group: total, whatever the peer sends as B and salt and whatever the tape holds *)
Theorem client_new_total U P B salt t :
  exists cl, client_new Default U P generator n_le B salt t = Ok (cl, snd (draw 32 t)) /\
             cc_A cl = honest_A (fst (draw 32 t)) /\ length (cc_K cl) = 40%nat /\ length (cc_M1 cl) = 20%nat.
Proof.
  destruct (client_new_spec U P generator n_le B salt t Nz_pos Nz_lt) as [H _].
  eexists. split; [apply H; apply gpow_nonzero, le_to_Z_nonneg|].
  cbn [cc_A cc_K cc_M1]. split; [reflexivity|]. split; [apply interleave_length | apply sha1_length].
Qed.

Theorem verify_server_proof_total c m : exists r, verify_server_proof c m = r /\ r <> Panic.
Proof.
  unfold verify_server_proof. destruct (negb _); eexists; split; try reflexivity; discriminate.
Qed.

(* ---------------------------------------------------------------- server never panics (C14) *)
Theorem into_server_no_panic pr A m t : length A = 32%nat -> into_server Default pr A m t <> Panic.
Proof. intros HA. rewrite into_server_spec by exact HA. destruct (list_eqb _ _); discriminate. Qed.

(* N is prime, so for a proper verifier and an accepted A the shared secret is never 0 *)
Theorem server_S_nonzero A v u b : 0 <= u -> 0 <= b -> A mod Nz <> 0 -> v mod Nz <> 0 ->
  sp_S_server Nz A v u b <> 0.
Proof.
  intros Hu Hb HA Hv. unfold sp_S_server. pose proof Nz_pos as Hp. pose proof Nz_prime as Hpr.
  assert (RA : rel_prime A Nz).
  { apply rel_prime_sym, prime_rel_prime; [exact Hpr|]. intros D. apply Z.mod_divide in D; lia. }
  assert (Rv : rel_prime v Nz).
  { apply rel_prime_sym, prime_rel_prime; [exact Hpr|]. intros D. apply Z.mod_divide in D; lia. }
  assert (Rvu : rel_prime (v ^ u mod Nz) Nz).
  { apply rel_prime_mod; [lia|]. apply rel_prime_sym, rel_prime_Zpower_r; [exact Hu|]. apply rel_prime_sym, Rv. }
  assert (R : rel_prime ((A * (v ^ u mod Nz)) ^ b) Nz).
  { apply rel_prime_sym, rel_prime_Zpower_r; [exact Hb|]. apply rel_prime_mult; apply rel_prime_sym; assumption. }
  intros Hz. apply Z.mod_divide in Hz; [|lia].
  destruct R as [_ _ R]. specialize (R Nz Hz (Z.divide_refl _)).
  apply Z.divide_1_r_nonneg in R; [|lia]. pose proof Nz_double. lia.
Qed.

(* ---------------------------------------------------------------- reconnect histories (C05) *)
Definition attempt := (list N * list N)%type.      (* client challenge data, proof *)

Fixpoint run_attempts (s : srp_server) (t : tape) (att : list attempt) : list (bool * list N) * srp_server * tape :=
  match att with
  | [] => ([], s, t)
  | (cd, pf) :: r =>
      let '(b, s', t') := verify_reconnection_attempt s cd pf t in
      let '(out, s'', t'') := run_attempts s' t' r in
      ((b, ss_chal s) :: out, s'', t'')
  end.

(* the challenge on offer at step i: the login challenge, then the successive 16-byte tape segments *)
Definition chal_at (s : srp_server) (t : tape) (i : nat) : list N :=
  match i with O => ss_chal s | S j => firstn 16 (skipn (16 * j) t) end.

Lemma skipn_skipn_add {A} m n (l : list A) : skipn m (skipn n l) = skipn (n + m) l.
Proof.
  revert l; induction n as [|n IH]; intros l; [reflexivity|].
  destruct l as [|x l]; cbn [skipn Nat.add]; [now rewrite skipn_nil | apply IH].
Qed.

Lemma verify_step s cd pf t :
  verify_reconnection_attempt s cd pf t =
  (list_eqb (sp_reconnect_proof (ss_user s) cd (ss_chal s) (ss_K s)) pf,
   {| ss_user := ss_user s; ss_K := ss_K s; ss_chal := firstn 16 t |}, skipn 16 t).
Proof. reflexivity. Qed.

Theorem attempts_verdicts att : forall s t i cd pf,
  nth_error att i = Some (cd, pf) ->
  nth_error (fst (fst (run_attempts s t att))) i =
  Some (list_eqb (sp_reconnect_proof (ss_user s) cd (chal_at s t i) (ss_K s)) pf, chal_at s t i).
Proof.
  induction att as [|[cd0 pf0] r IH]; intros s t i cd pf Hn; [destruct i; discriminate|].
  cbn [run_attempts]. rewrite verify_step.
  destruct (run_attempts _ (skipn 16 t) r) as [[out s''] t''] eqn:E. cbn [fst].
  destruct i as [|i]; cbn [nth_error] in *.
  - inversion Hn; subst. reflexivity.
  - specialize (IH {| ss_user := ss_user s; ss_K := ss_K s; ss_chal := firstn 16 t |} (skipn 16 t) i cd pf Hn).
    rewrite E in IH. cbn [fst] in IH. rewrite IH. cbn [ss_user ss_K].
    f_equal. destruct i as [|i]; cbn [chal_at ss_chal].
    + reflexivity.
    + replace (16 * S i)%nat with (16 + 16 * i)%nat by lia.
      rewrite <- skipn_skipn_add. reflexivity.
Qed.

(* the state after any history: user and key untouched, challenge = the next tape segment,
   whatever the verdicts were (unconditional refresh) *)
Theorem attempts_state att : forall s t,
  let '(_, s', t') := run_attempts s t att in
  ss_user s' = ss_user s /\ ss_K s' = ss_K s /\ ss_chal s' = chal_at s t (length att) /\
  t' = skipn (16 * length att) t.
Proof.
  induction att as [|[cd pf] r IH]; intros s t; cbn [run_attempts length].
  - repeat split; reflexivity.
  - rewrite verify_step.
    specialize (IH {| ss_user := ss_user s; ss_K := ss_K s; ss_chal := firstn 16 t |} (skipn 16 t)).
    destruct (run_attempts _ (skipn 16 t) r) as [[out s''] t''].
    destruct IH as (H1 & H2 & H3 & H4). cbn [ss_user ss_K] in *.
    repeat split; try assumption.
    + rewrite H3. destruct (length r) as [|n]; cbn [chal_at ss_chal]; [now rewrite Nat.mul_0_r|].
      replace (16 * S n)%nat with (16 + 16 * n)%nat by lia. now rewrite <- skipn_skipn_add.
    + rewrite H4. replace (16 * S (length r))%nat with (16 + 16 * length r)%nat by lia.
      apply skipn_skipn_add.
Qed.

(* the legitimate client, answering each challenge on offer, is accepted any number of times *)
Fixpoint honest_attempts (U K chal : list N) (t : tape) (cds : list (list N)) : list attempt :=
  match cds with
  | [] => []
  | cd :: r => (cd, sp_reconnect_proof U cd chal K) :: honest_attempts U K (firstn 16 t) (skipn 16 t) r
  end.

Theorem legit_forever cds : forall s t,
  Forall (fun v => fst v = true)
         (fst (fst (run_attempts s t (honest_attempts (ss_user s) (ss_K s) (ss_chal s) t cds)))).
Proof.
  induction cds as [|cd r IH]; intros s t; cbn [honest_attempts run_attempts]; [constructor|].
  rewrite verify_step. rewrite list_eqb_refl.
  specialize (IH {| ss_user := ss_user s; ss_K := ss_K s; ss_chal := firstn 16 t |} (skipn 16 t)).
  cbn [ss_user ss_K ss_chal] in IH.
  destruct (run_attempts _ (skipn 16 t) _) as [[out s''] t'']. cbn [fst] in *.
  constructor; [reflexivity | exact IH].
Qed.

(* a pair accepted against two challenges forces the challenges to be equal, or exhibits a collision *)
Theorem reconnect_binding U cd c1 K U' cd' c2 K' pf :
  length cd = 16%nat -> length cd' = 16%nat -> length c1 = 16%nat -> length c2 = 16%nat ->
  length U = length U' ->
  list_eqb (sp_reconnect_proof U cd c1 K) pf = true ->
  list_eqb (sp_reconnect_proof U' cd' c2 K') pf = true ->
  (U = U' /\ cd = cd' /\ c1 = c2 /\ K = K') \/ collision.
Proof.
  intros Hcd Hcd' H1 H2 HU E1 E2. apply list_eqb_spec in E1, E2. subst pf.
  unfold sp_reconnect_proof in E2. symmetry in E2.
  apply sha1_inj_or_collision in E2. destruct E2 as [E|E]; [|now right].
  apply app_inj_length in E; [|exact HU]. destruct E as [-> E].
  apply app_inj_length in E; [|congruence]. destruct E as [-> E].
  apply app_inj_length in E; [|congruence]. destruct E as [-> ->]. left; auto.
Qed.

Theorem replay_needs_same_challenge att s t i j cd pf :
  length cd = 16%nat -> length (chal_at s t i) = 16%nat -> length (chal_at s t j) = 16%nat ->
  nth_error att i = Some (cd, pf) -> nth_error att j = Some (cd, pf) ->
  nth_error (fst (fst (run_attempts s t att))) i = Some (true, chal_at s t i) ->
  nth_error (fst (fst (run_attempts s t att))) j = Some (true, chal_at s t j) ->
  chal_at s t i = chal_at s t j \/ collision.
Proof.
  intros Hcd Hi Hj Ni Nj Vi Vj.
  rewrite (attempts_verdicts att s t i cd pf Ni) in Vi. rewrite (attempts_verdicts att s t j cd pf Nj) in Vj.
  inversion Vi as [Ei]. inversion Vj as [Ej].
  destruct (reconnect_binding _ _ _ _ _ _ _ _ _ Hcd Hcd Hi Hj eq_refl Ei Ej) as [(_ & _ & E & _)|C]; [now left | now right].
Qed.
