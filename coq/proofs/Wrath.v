(* C09 (Wrath part) and C10: the four halves are RC4-drop1024 keyed by HMAC-SHA1(direction constant,
   session key); pairing; round trip with independent chunkings; server-header layout, two-step
   decoding, sequences; no entry point panics from any state satisfying the RC4 invariant.
   [hmac_sha1] is never unfolded: only its output length (20, hence non-empty) is used. *)
From WS Require Import lib.Bytes lib.Res lib.Calls lib.Hmac Consts spec.Rc4 model.Rc4 model.Wrath proofs.Rc4.
From Coq Require Import ZifyN ZifyNat ZifyBool.
Local Open Scope N_scope.
Ltac Zify.zify_post_hook ::= Z.div_mod_to_equations.

Lemma drop_is_1024 : N.to_nat Consts.wrath_drop = 1024%nat.
Proof. reflexivity. Qed.

Lemma hmac_nonempty k m : hmac_sha1 k m <> [].
Proof. intros E. pose proof (hmac_sha1_length k m) as L. rewrite E in L. discriminate. Qed.

(* ---- InnerCrypto::new ---- *)
Definition bad_state : rc4 := {| st := []; ri := 0; rj := 0 |}.
Definition inner_state (K dk : list N) : rc4 :=
  match inner_new K dk with Ok r => r | _ => bad_state end.

Theorem inner_new_spec K dk :
  inner_new K dk = Ok (inner_state K dk) /\ rc4_inv (inner_state K dk) /\
  refines (inner_state K dk) (gen_after (hmac_sha1 dk K) 1024) /\
  (forall n, ks (inner_state K dk) n = keystream_from (hmac_sha1 dk K) 1024 n) /\
  (forall xs, apply_keystream (inner_state K dk) xs =
              Ok (adv (inner_state K dk) (length xs), rc4_crypt (hmac_sha1 dk K) 1024 xs)).
Proof.
  set (key := hmac_sha1 dk K).
  destruct (rc4_new_refines key (hmac_nonempty dk K)) as (r0 & E0 & HR0).
  assert (H0 : rc4_inv r0) by (eapply refines_inv; [exact HR0 | cbn; lia | cbn; lia]).
  change (gen_init key) with (gen_after key 0) in HR0.
  destruct (adv_ks_refines key 1024 r0 0%nat HR0) as [_ HR1]. cbn [Nat.add] in HR1.
  assert (E : inner_new K dk = Ok (adv r0 1024)).
  { unfold inner_new. fold key. rewrite E0, drop_is_1024, (apply_zeros r0 1024 H0). reflexivity. }
  unfold inner_state. rewrite E.
  pose proof (adv_inv r0 1024 H0) as H1.
  assert (Ek : forall n, ks (adv r0 1024) n = keystream_from key 1024 n).
  { intros n. exact (proj1 (adv_ks_refines key n _ _ HR1)). }
  split; [reflexivity|]. split; [exact H1|]. split; [exact HR1|]. split; [exact Ek|].
  intros xs. unfold rc4_crypt. rewrite <- Ek. now apply apply_norm.
Qed.

Lemma inner_new_eq K dk : inner_new K dk = Ok (inner_state K dk).
Proof. exact (proj1 (inner_new_spec K dk)). Qed.
Lemma inner_state_inv K dk : rc4_inv (inner_state K dk).
Proof. exact (proj1 (proj2 (inner_new_spec K dk))). Qed.
Lemma inner_state_stream K dk n : ks (inner_state K dk) n = keystream_from (hmac_sha1 dk K) 1024 n.
Proof. exact (proj1 (proj2 (proj2 (proj2 (inner_new_spec K dk)))) n). Qed.
(* from here on the state after `new` is used through the three facts above only *)
Global Opaque inner_state.

(* ---- the four constructors ---- *)
Definition mk_se (r : rc4) (buf : list N) : server_enc := {| se_rc4 := r; se_buf := buf |}.
Definition mk_cd (r : rc4) (hdr : list N) : client_dec := {| cd_rc4 := r; cd_hdr := hdr |}.

Lemma client_enc_new_eq K : client_enc_new K = Ok {| ce_rc4 := inner_state K Consts.wrath_S |}.
Proof. unfold client_enc_new. now rewrite inner_new_eq. Qed.
Lemma server_dec_new_eq K : server_dec_new K = Ok {| sd_rc4 := inner_state K Consts.wrath_S |}.
Proof. unfold server_dec_new. now rewrite inner_new_eq. Qed.
Lemma server_enc_new_eq K : server_enc_new K = Ok (mk_se (inner_state K Consts.wrath_R) [0;0;0;0;0]).
Proof. unfold server_enc_new. now rewrite inner_new_eq. Qed.
Lemma client_dec_new_eq K : client_dec_new K = Ok (mk_cd (inner_state K Consts.wrath_R) [0;0;0;0]).
Proof. unfold client_dec_new. now rewrite inner_new_eq. Qed.

Theorem pairing K :
  (exists r, client_enc_new K = Ok {| ce_rc4 := r |} /\ server_dec_new K = Ok {| sd_rc4 := r |} /\
             inner_new K Consts.wrath_S = Ok r /\ rc4_inv r) /\
  (exists r, server_enc_new K = Ok {| se_rc4 := r; se_buf := [0;0;0;0;0] |} /\
             client_dec_new K = Ok {| cd_rc4 := r; cd_hdr := [0;0;0;0] |} /\
             inner_new K Consts.wrath_R = Ok r /\ rc4_inv r) /\
  Consts.wrath_S <> Consts.wrath_R.
Proof.
  split; [|split].
  - exists (inner_state K Consts.wrath_S).
    rewrite client_enc_new_eq, server_dec_new_eq, inner_new_eq. auto using inner_state_inv.
  - exists (inner_state K Consts.wrath_R).
    rewrite server_enc_new_eq, client_dec_new_eq, inner_new_eq. auto using inner_state_inv.
  - apply list_eqb_neq. vm_compute. reflexivity.
Qed.

(* ---- a half is a record around the cipher state: lift the RC4 facts through the wrapper ---- *)
Section Lift.
  Context {H : Type} (proj : H -> rc4) (upd : H -> rc4 -> H) (f : H -> list N -> nres (H * list N)).
  Hypothesis f_def : forall h data, f h data =
    match apply_keystream (proj h) data with
    | Ok (r, out) => Ok (upd h r, out) | Err e => Err e | Panic => Panic end.
  Hypothesis proj_upd : forall h r, proj (upd h r) = r.
  Hypothesis upd_upd : forall h r r', upd (upd h r) r' = upd h r'.
  Hypothesis upd_proj : forall h, upd h (proj h) = h.

  Lemma half_call h data : rc4_inv (proj h) ->
    f h data = Ok (upd h (adv (proj h) (length data)), xor_bytes data (ks (proj h) (length data))).
  Proof. intros Hi. now rewrite f_def, (apply_norm _ _ Hi). Qed.

  Lemma half_calls chunks : forall h, rc4_inv (proj h) ->
    run_calls f h chunks =
    Ok (upd h (adv (proj h) (length (concat chunks))),
        xor_bytes (concat chunks) (ks (proj h) (length (concat chunks)))).
  Proof.
    induction chunks as [|c r IH]; intros h Hi; cbn [run_calls concat].
    - cbn [length]. now rewrite adv_0, upd_proj.
    - rewrite (half_call h c Hi), IH by (rewrite proj_upd; now apply adv_inv).
      rewrite proj_upd, upd_upd, app_length, (adv_add _ _ _ Hi), (ks_add _ _ _ Hi).
      rewrite xor_bytes_app by (now rewrite ks_length). reflexivity.
  Qed.
End Lift.

Definition se_upd (h : server_enc) (r : rc4) : server_enc := {| se_rc4 := r; se_buf := se_buf h |}.
Definition ce_upd (h : client_enc) (r : rc4) : client_enc := {| ce_rc4 := r |}.
Definition sd_upd (h : server_dec) (r : rc4) : server_dec := {| sd_rc4 := r |}.
Definition cd_upd (h : client_dec) (r : rc4) : client_dec := {| cd_rc4 := r; cd_hdr := cd_hdr h |}.

Lemma se_call h data : rc4_inv (se_rc4 h) ->
  se_encrypt h data = Ok (se_upd h (adv (se_rc4 h) (length data)), xor_bytes data (ks (se_rc4 h) (length data))).
Proof. apply (half_call se_rc4 se_upd se_encrypt). reflexivity. Qed.
Lemma ce_call h data : rc4_inv (ce_rc4 h) ->
  ce_encrypt h data = Ok (ce_upd h (adv (ce_rc4 h) (length data)), xor_bytes data (ks (ce_rc4 h) (length data))).
Proof. apply (half_call ce_rc4 ce_upd ce_encrypt). reflexivity. Qed.
Lemma sd_call h data : rc4_inv (sd_rc4 h) ->
  sd_decrypt h data = Ok (sd_upd h (adv (sd_rc4 h) (length data)), xor_bytes data (ks (sd_rc4 h) (length data))).
Proof. apply (half_call sd_rc4 sd_upd sd_decrypt). reflexivity. Qed.
Lemma cd_call h data : rc4_inv (cd_rc4 h) ->
  cd_decrypt h data = Ok (cd_upd h (adv (cd_rc4 h) (length data)), xor_bytes data (ks (cd_rc4 h) (length data))).
Proof. apply (half_call cd_rc4 cd_upd cd_decrypt). reflexivity. Qed.

Lemma se_calls chunks h : rc4_inv (se_rc4 h) ->
  run_calls se_encrypt h chunks =
  Ok (se_upd h (adv (se_rc4 h) (length (concat chunks))), xor_bytes (concat chunks) (ks (se_rc4 h) (length (concat chunks)))).
Proof. apply (half_calls se_rc4 se_upd se_encrypt); try reflexivity. now intros []. Qed.
Lemma ce_calls chunks h : rc4_inv (ce_rc4 h) ->
  run_calls ce_encrypt h chunks =
  Ok (ce_upd h (adv (ce_rc4 h) (length (concat chunks))), xor_bytes (concat chunks) (ks (ce_rc4 h) (length (concat chunks)))).
Proof. apply (half_calls ce_rc4 ce_upd ce_encrypt); try reflexivity. now intros []. Qed.
Lemma sd_calls chunks h : rc4_inv (sd_rc4 h) ->
  run_calls sd_decrypt h chunks =
  Ok (sd_upd h (adv (sd_rc4 h) (length (concat chunks))), xor_bytes (concat chunks) (ks (sd_rc4 h) (length (concat chunks)))).
Proof. apply (half_calls sd_rc4 sd_upd sd_decrypt); try reflexivity. now intros []. Qed.
Lemma cd_calls chunks h : rc4_inv (cd_rc4 h) ->
  run_calls cd_decrypt h chunks =
  Ok (cd_upd h (adv (cd_rc4 h) (length (concat chunks))), xor_bytes (concat chunks) (ks (cd_rc4 h) (length (concat chunks)))).
Proof. apply (half_calls cd_rc4 cd_upd cd_decrypt); try reflexivity. now intros []. Qed.

(* the same with the record spelled out *)
Lemma ce_calls' r chunks : rc4_inv r ->
  run_calls ce_encrypt {| ce_rc4 := r |} chunks =
  Ok ({| ce_rc4 := adv r (length (concat chunks)) |}, xor_bytes (concat chunks) (ks r (length (concat chunks)))).
Proof. intros Hi. exact (ce_calls chunks {| ce_rc4 := r |} Hi). Qed.
Lemma sd_calls' r chunks : rc4_inv r ->
  run_calls sd_decrypt {| sd_rc4 := r |} chunks =
  Ok ({| sd_rc4 := adv r (length (concat chunks)) |}, xor_bytes (concat chunks) (ks r (length (concat chunks)))).
Proof. intros Hi. exact (sd_calls chunks {| sd_rc4 := r |} Hi). Qed.
Lemma se_calls' r buf chunks : rc4_inv r ->
  run_calls se_encrypt (mk_se r buf) chunks =
  Ok (mk_se (adv r (length (concat chunks))) buf, xor_bytes (concat chunks) (ks r (length (concat chunks)))).
Proof. intros Hi. exact (se_calls chunks (mk_se r buf) Hi). Qed.
Lemma cd_calls' r hdr chunks : rc4_inv r ->
  run_calls cd_decrypt (mk_cd r hdr) chunks =
  Ok (mk_cd (adv r (length (concat chunks))) hdr, xor_bytes (concat chunks) (ks r (length (concat chunks)))).
Proof. intros Hi. exact (cd_calls chunks (mk_cd r hdr) Hi). Qed.

(* ---- C09_stream_is_drop1024 ---- *)
Theorem stream_is_drop1024 K chunks :
  (exists h h', client_enc_new K = Ok h /\
     run_calls ce_encrypt h chunks = Ok (h', rc4_crypt (hmac_sha1 Consts.wrath_S K) 1024 (concat chunks))) /\
  (exists h h', server_dec_new K = Ok h /\
     run_calls sd_decrypt h chunks = Ok (h', rc4_crypt (hmac_sha1 Consts.wrath_S K) 1024 (concat chunks))) /\
  (exists h h', server_enc_new K = Ok h /\
     run_calls se_encrypt h chunks = Ok (h', rc4_crypt (hmac_sha1 Consts.wrath_R K) 1024 (concat chunks))) /\
  (exists h h', client_dec_new K = Ok h /\
     run_calls cd_decrypt h chunks = Ok (h', rc4_crypt (hmac_sha1 Consts.wrath_R K) 1024 (concat chunks))).
Proof.
  pose proof (inner_state_inv K Consts.wrath_S) as HS. pose proof (inner_state_inv K Consts.wrath_R) as HR.
  unfold rc4_crypt.
  rewrite <- (inner_state_stream K Consts.wrath_S), <- (inner_state_stream K Consts.wrath_R).
  split; [|split; [|split]].
  - eexists; eexists. split; [apply client_enc_new_eq|]. rewrite (ce_calls' _ chunks HS). reflexivity.
  - eexists; eexists. split; [apply server_dec_new_eq|]. rewrite (sd_calls' _ chunks HS). reflexivity.
  - eexists; eexists. split; [apply server_enc_new_eq|]. rewrite (se_calls' _ _ chunks HR). reflexivity.
  - eexists; eexists. split; [apply client_dec_new_eq|]. rewrite (cd_calls' _ _ chunks HR). reflexivity.
Qed.

(* ---- C09_roundtrip ---- *)
(* any two halves whose cipher states are equal: the receiver recovers the plaintext whatever the
   two chunkings are, and the cipher states are equal again afterwards *)
Lemma roundtrip_c2s he hd xs cs1 cs2 : ce_rc4 he = sd_rc4 hd -> rc4_inv (ce_rc4 he) -> concat cs1 = xs ->
  exists he' ys, run_calls ce_encrypt he cs1 = Ok (he', ys) /\ length ys = length xs /\
    (concat cs2 = ys -> exists hd', run_calls sd_decrypt hd cs2 = Ok (hd', xs) /\ sd_rc4 hd' = ce_rc4 he' /\
                                    rc4_inv (sd_rc4 hd')).
Proof.
  intros E Hi H1. pose proof (ks_length _ (length xs) Hi) as HL.
  eexists; eexists. rewrite (ce_calls cs1 he Hi), H1. split; [reflexivity|].
  split; [rewrite xor_bytes_length; lia|]. intros H2.
  eexists. rewrite (sd_calls cs2 hd) by (rewrite <- E; exact Hi).
  rewrite H2, <- E, xor_bytes_length, xor_bytes_invol by lia.
  split; [reflexivity|]. cbn [sd_upd sd_rc4 ce_upd ce_rc4]. split; [reflexivity | now apply adv_inv].
Qed.

Lemma roundtrip_s2c he hd xs cs1 cs2 : se_rc4 he = cd_rc4 hd -> rc4_inv (se_rc4 he) -> concat cs1 = xs ->
  exists he' ys, run_calls se_encrypt he cs1 = Ok (he', ys) /\ length ys = length xs /\
    (concat cs2 = ys -> exists hd', run_calls cd_decrypt hd cs2 = Ok (hd', xs) /\ cd_rc4 hd' = se_rc4 he' /\
                                    rc4_inv (cd_rc4 hd')).
Proof.
  intros E Hi H1. pose proof (ks_length _ (length xs) Hi) as HL.
  eexists; eexists. rewrite (se_calls cs1 he Hi), H1. split; [reflexivity|].
  split; [rewrite xor_bytes_length; lia|]. intros H2.
  eexists. rewrite (cd_calls cs2 hd) by (rewrite <- E; exact Hi).
  rewrite H2, <- E, xor_bytes_length, xor_bytes_invol by lia.
  split; [reflexivity|]. cbn [cd_upd cd_rc4 se_upd se_rc4]. split; [reflexivity | now apply adv_inv].
Qed.

Theorem roundtrip K xs cs1 cs2 : concat cs1 = xs ->
  (concat cs2 = rc4_crypt (hmac_sha1 Consts.wrath_S K) 1024 xs ->
   exists he hd he' hd', client_enc_new K = Ok he /\ server_dec_new K = Ok hd /\
     run_calls ce_encrypt he cs1 = Ok (he', rc4_crypt (hmac_sha1 Consts.wrath_S K) 1024 xs) /\
     run_calls sd_decrypt hd cs2 = Ok (hd', xs) /\ sd_rc4 hd' = ce_rc4 he') /\
  (concat cs2 = rc4_crypt (hmac_sha1 Consts.wrath_R K) 1024 xs ->
   exists he hd he' hd', server_enc_new K = Ok he /\ client_dec_new K = Ok hd /\
     run_calls se_encrypt he cs1 = Ok (he', rc4_crypt (hmac_sha1 Consts.wrath_R K) 1024 xs) /\
     run_calls cd_decrypt hd cs2 = Ok (hd', xs) /\ cd_rc4 hd' = se_rc4 he').
Proof.
  intros H1. unfold rc4_crypt.
  rewrite <- (inner_state_stream K Consts.wrath_S), <- (inner_state_stream K Consts.wrath_R).
  split; intros H2.
  - pose proof (inner_state_inv K Consts.wrath_S) as HS.
    pose proof (ks_length _ (length xs) HS) as HL.
    do 4 eexists. rewrite client_enc_new_eq, server_dec_new_eq.
    rewrite (ce_calls' _ cs1 HS), (sd_calls' _ cs2 HS), H1, H2.
    rewrite xor_bytes_length, xor_bytes_invol by lia.
    split; [reflexivity|]. split; [reflexivity|]. split; [reflexivity|]. split; reflexivity.
  - pose proof (inner_state_inv K Consts.wrath_R) as HR.
    pose proof (ks_length _ (length xs) HR) as HL.
    do 4 eexists. rewrite server_enc_new_eq, client_dec_new_eq.
    rewrite (se_calls' _ [0;0;0;0;0] cs1 HR), (cd_calls' _ [0;0;0;0] cs2 HR), H1, H2.
    rewrite xor_bytes_length, xor_bytes_invol by lia.
    split; [reflexivity|]. split; [reflexivity|]. split; [reflexivity|]. split; reflexivity.
Qed.

(* =====================================================================================  C10  *)

(* ---- bit facts over a byte, by exhaustive sweep ---- *)
Lemma large_header_spec b : b < 256 -> large_header b = (128 <=? b).
Proof.
  intros Hb.
  pose proof (byte_sweep (fun b => Bool.eqb (large_header b) (128 <=? b)) ltac:(vm_compute; reflexivity) b Hb) as H.
  cbv beta in H. now apply Bool.eqb_prop in H.
Qed.

Lemma set_large_spec b : b < 128 -> set_large_header b = b + 128.
Proof.
  intros Hb.
  pose proof (byte_sweep (fun b => if b <? 128 then set_large_header b =? b + 128 else true)
                ltac:(vm_compute; reflexivity) b ltac:(lia)) as H.
  cbv beta in H. destruct (N.ltb_spec b 128); [now apply N.eqb_eq in H | lia].
Qed.

Lemma clear_set_large b : b < 128 -> clear_large_header (set_large_header b) = b.
Proof.
  intros Hb.
  pose proof (byte_sweep (fun b => if b <? 128 then clear_large_header (set_large_header b) =? b else true)
                ltac:(vm_compute; reflexivity) b ltac:(lia)) as H.
  cbv beta in H. destruct (N.ltb_spec b 128); [now apply N.eqb_eq in H | lia].
Qed.

Lemma set_large_byte b : b < 256 -> set_large_header b < 256.
Proof.
  intros Hb.
  pose proof (byte_sweep (fun b => set_large_header b <? 256) ltac:(vm_compute; reflexivity) b Hb) as H.
  cbv beta in H. now apply N.ltb_lt in H.
Qed.

(* ---- small list shapes ---- *)
Lemma len1 {A} (l : list A) : length l = 1%nat -> exists a, l = [a].
Proof. destruct l as [|a [|]]; try discriminate. intros _. now exists a. Qed.
Lemma len4 {A} (l : list A) : length l = 4%nat -> exists a b c d, l = [a; b; c; d].
Proof. destruct l as [|a [|b [|c [|d [|]]]]]; try discriminate. intros _. now exists a, b, c, d. Qed.
Lemma len5 {A} (l : list A) : length l = 5%nat -> exists a b c d e, l = [a; b; c; d; e].
Proof. destruct l as [|a [|b [|c [|d [|e [|]]]]]]; try discriminate. intros _. now exists a, b, c, d, e. Qed.
Lemma len6 {A} (l : list A) : length l = 6%nat -> exists a b c d e f, l = [a; b; c; d; e; f].
Proof. destruct l as [|a [|b [|c [|d [|e [|f [|]]]]]]]; try discriminate. intros _. now exists a, b, c, d, e, f. Qed.

(* element-wise equality of explicit lists, each element by linear arithmetic *)
Ltac list_eq := repeat (apply (f_equal2 (@cons N)); [lia|]); reflexivity.

(* ---- the plaintext header ---- *)
Definition server_header_plain (size opcode : N) : list N :=
  if 0x7FFF <? size then large_header_plain size opcode else small_header_plain size opcode.

Lemma small_plain_layout size opcode : size <= 0x7FFF -> opcode < 65536 ->
  small_header_plain size opcode = [size / 256; size mod 256; opcode mod 256; opcode / 256].
Proof.
  intros Hs Ho. unfold small_header_plain, u32_be, le16, N_to_le. cbv beta iota. cbn [app].
  list_eq.
Qed.

Lemma large_plain_layout size opcode : 0x7FFF < size -> size <= 0x7FFFFF -> opcode < 65536 ->
  large_header_plain size opcode =
  [N.lor (size / 65536) 128; (size / 256) mod 256; size mod 256; opcode mod 256; opcode / 256].
Proof.
  intros Hs Hs' Ho. unfold large_header_plain, u32_be, le16, N_to_le, set_large_header. cbv beta iota. cbn [app].
  replace ((size / 65536) mod 256) with (size / 65536) by lia. list_eq.
Qed.

Theorem plain_layout size opcode : size <= 0x7FFFFF -> opcode < 65536 ->
  server_header_plain size opcode =
  (if size <=? 0x7FFF then [size / 256; size mod 256; opcode mod 256; opcode / 256]
   else [N.lor (size / 65536) 128; (size / 256) mod 256; size mod 256; opcode mod 256; opcode / 256]) /\
  (0x7FFF < size <-> N.land (hd 0 (server_header_plain size opcode)) 128 <> 0).
Proof.
  intros Hs Ho. unfold server_header_plain.
  destruct (N.ltb_spec 0x7FFF size) as [Hl|Hl], (N.leb_spec size 0x7FFF) as [Hl'|Hl']; try lia.
  - rewrite large_plain_layout by assumption. split; [reflexivity|]. cbn [hd].
    change (N.lor (size / 65536) 128) with (set_large_header (size / 65536)).
    rewrite set_large_spec by lia. split; [intros _|intros _; exact Hl].
    pose proof (large_header_spec (size / 65536 + 128) ltac:(lia)) as H. unfold large_header in H.
    destruct (N.eqb_spec (N.land (size / 65536 + 128) 128) 0) as [E|E]; [|exact E].
    cbn [negb] in H. symmetry in H. apply N.leb_gt in H. lia.
  - rewrite small_plain_layout by assumption. split; [reflexivity|]. cbn [hd]. split; [lia|intros H].
    pose proof (large_header_spec (size / 256) ltac:(lia)) as H'. unfold large_header in H'.
    destruct (N.eqb_spec (N.land (size / 256) 128) 0) as [E|E]; [contradiction|].
    cbn [negb] in H'. symmetry in H'. apply N.leb_le in H'. lia.
Qed.

Lemma plain_length size opcode : length (server_header_plain size opcode) = if 0x7FFF <? size then 5%nat else 4%nat.
Proof. unfold server_header_plain. destruct (0x7FFF <? size); reflexivity. Qed.

Lemma plain_bytes size opcode : bytes (server_header_plain size opcode).
Proof.
  unfold server_header_plain, large_header_plain, small_header_plain, u32_be, le16, N_to_le.
  destruct (0x7FFF <? size); cbv beta iota; cbn [app];
    repeat (apply bytes_cons; split; [try apply set_large_byte; lia|]); apply bytes_nil.
Qed.

(* ---- encrypt_server_header in terms of the cipher call ---- *)
Definition wf_se (h : server_enc) : Prop := rc4_inv (se_rc4 h) /\ length (se_buf h) = 5%nat.
Definition wf_cd (h : client_dec) : Prop := rc4_inv (cd_rc4 h) /\ length (cd_hdr h) = 4%nat.

Lemma min_len_4 : N.to_nat Consts.wrath_server_header_min_length = 4%nat. Proof. reflexivity. Qed.

Lemma encrypt_server_header_apply r buf size opcode r' wire : length buf = 5%nat ->
  apply_keystream r (server_header_plain size opcode) = Ok (r', wire) ->
  length wire = length (server_header_plain size opcode) ->
  exists buf', encrypt_server_header (mk_se r buf) size opcode = Ok (mk_se r' buf', wire) /\ length buf' = 5%nat.
Proof.
  intros Hb E HL. destruct (len5 buf Hb) as (x0 & x1 & x2 & x3 & x4 & ->).
  rewrite plain_length in HL. unfold server_header_plain in E.
  unfold encrypt_server_header, se_encrypt, inner_apply. cbn [mk_se se_rc4 se_buf].
  destruct (0x7FFF <? size); rewrite E; cbv beta iota; cbn [se_rc4 se_buf]; rewrite ?min_len_4.
  - destruct (len5 wire HL) as (a & b & c & d & e & ->). eexists. split; reflexivity.
  - destruct (len4 wire HL) as (a & b & c & d & ->). eexists. split; reflexivity.
Qed.

Lemma encrypt_server_header_spec h size opcode : wf_se h ->
  let plain := server_header_plain size opcode in
  let wire := xor_bytes plain (ks (se_rc4 h) (length plain)) in
  exists h', encrypt_server_header h size opcode = Ok (h', wire) /\ wf_se h' /\
             se_rc4 h' = adv (se_rc4 h) (length plain) /\ length wire = length plain /\
             xor_bytes wire (ks (se_rc4 h) (length wire)) = plain /\ bytes wire.
Proof.
  destruct h as [r buf]. intros [Hi Hb] plain wire. cbn [se_rc4 se_buf] in *.
  pose proof (ks_length r (length plain) Hi) as HK.
  assert (HL : length wire = length plain) by (unfold wire; rewrite xor_bytes_length; lia).
  destruct (encrypt_server_header_apply r buf size opcode (adv r (length plain)) wire Hb) as (buf' & E & Hb').
  - now apply apply_norm.
  - exact HL.
  - exists (mk_se (adv r (length plain)) buf'). split; [exact E|]. split; [split; [now apply adv_inv | exact Hb']|].
    split; [reflexivity|]. split; [exact HL|]. split.
    + rewrite HL. unfold wire. now rewrite xor_bytes_invol by lia.
    + apply xor_bytes_bytes; [apply plain_bytes | now apply ks_bytes].
Qed.

(* ---- one header through both sides ---- *)
Lemma apply_split r a b : rc4_inv r ->
  exists r1 r2 oa ob, apply_keystream r (a ++ b) = Ok (r2, oa ++ ob) /\
    apply_keystream r oa = Ok (r1, a) /\ apply_keystream r1 ob = Ok (r2, b) /\
    length oa = length a /\ length ob = length b /\ rc4_inv r1 /\ rc4_inv r2.
Proof.
  intros Hi. destruct (apply_roundtrip r a Hi) as (r1 & oa & E1 & E1' & Hi1 & L1).
  destruct (apply_roundtrip r1 b Hi1) as (r2 & ob & E2 & E2' & Hi2 & L2).
  exists r1, r2, oa, ob. rewrite apply_app, E1, E2. auto 10.
Qed.

Lemma decode_short r buf size opcode : rc4_inv r -> length buf = 5%nat -> size <= 0x7FFF -> opcode < 65536 ->
  exists r' buf' a b c d,
    encrypt_server_header (mk_se r buf) size opcode = Ok (mk_se r' buf', [a; b; c; d]) /\
    (forall hdr, attempt_decrypt_server_header (mk_cd r hdr) [a; b; c; d] = Ok (mk_cd r' hdr, Header size opcode)) /\
    rc4_inv r' /\ length buf' = 5%nat.
Proof.
  intros Hi Hb Hs Ho.
  assert (Ep : server_header_plain size opcode = [size / 256; size mod 256; opcode mod 256; opcode / 256]).
  { unfold server_header_plain. destruct (N.ltb_spec 0x7FFF size); [lia|]. now apply small_plain_layout. }
  destruct (apply_roundtrip r (server_header_plain size opcode) Hi) as (r' & ys & E1 & E2 & Hi' & L).
  destruct (encrypt_server_header_apply r buf size opcode r' ys Hb E1 L) as (buf' & E & Hb').
  rewrite Ep in L, E2. destruct (len4 ys L) as (a & b & c & d & ->).
  exists r', buf', a, b, c, d. split; [exact E|]. split; [|split; assumption].
  intros hdr. unfold attempt_decrypt_server_header, cd_decrypt, inner_apply. cbn [mk_cd cd_rc4 cd_hdr].
  rewrite E2. cbv beta iota. rewrite large_header_spec by lia.
  destruct (N.leb_spec 128 (size / 256)); [lia|]. unfold from_small_array, mk_cd. f_equal. f_equal. f_equal; lia.
Qed.

(* bit facts for ANY byte under the marker *)
Lemma large_set_any b : b < 256 -> large_header (set_large_header b) = true.
Proof.
  intros Hb.
  exact (byte_sweep (fun b => large_header (set_large_header b)) ltac:(vm_compute; reflexivity) b Hb).
Qed.
Lemma clear_set_any b : b < 256 -> clear_large_header (set_large_header b) = b mod 128.
Proof.
  intros Hb.
  pose proof (byte_sweep (fun b => clear_large_header (set_large_header b) =? b mod 128)
                ltac:(vm_compute; reflexivity) b Hb) as H.
  cbv beta in H. now apply N.eqb_eq in H.
Qed.

(* the long path for ANY size above 0x7FFF and any opcode: what comes out at the other end is the
   size reduced mod 2^23 (bits 23 and up are lost: bit 23 collides with the marker, bits 24..31 are
   never sent) and the opcode reduced mod 2^16 *)
Lemma decode_long_gen r buf size opcode : rc4_inv r -> length buf = 5%nat -> 0x7FFF < size ->
  exists r1 r' buf' a b c d e stash,
    encrypt_server_header (mk_se r buf) size opcode = Ok (mk_se r' buf', [a; b; c; d; e]) /\
    (forall hdr, attempt_decrypt_server_header (mk_cd r hdr) [a; b; c; d] = Ok (mk_cd r1 stash, AdditionalByteRequired)) /\
    decrypt_large_server_header (mk_cd r1 stash) e = Ok (mk_cd r' stash, (size mod 8388608, opcode mod 65536)) /\
    rc4_inv r1 /\ rc4_inv r' /\ length buf' = 5%nat /\ length stash = 4%nat.
Proof.
  intros Hi Hb Hs.
  assert (Ep : server_header_plain size opcode =
               [set_large_header ((size / 65536) mod 256); (size / 256) mod 256; size mod 256; opcode mod 256]
               ++ [(opcode / 256) mod 256]).
  { unfold server_header_plain. destruct (N.ltb_spec 0x7FFF size); [|lia]. reflexivity. }
  destruct (apply_split r [set_large_header ((size / 65536) mod 256); (size / 256) mod 256; size mod 256; opcode mod 256]
                        [(opcode / 256) mod 256] Hi) as (r1 & r' & oa & ob & E & Ea & Eb & La & Lb & Hi1 & Hi').
  rewrite <- Ep in E.
  destruct (encrypt_server_header_apply r buf size opcode r' (oa ++ ob) Hb E) as (buf' & Ee & Hb').
  { rewrite Ep, !app_length, La, Lb. reflexivity. }
  destruct (len4 oa La) as (a & b & c & d & ->). destruct (len1 ob Lb) as (e & ->). cbn [app] in Ee.
  exists r1, r', buf', a, b, c, d, e.
  exists [set_large_header ((size / 65536) mod 256); (size / 256) mod 256; size mod 256; opcode mod 256].
  split; [exact Ee|].
  split; [|split; [|split; [exact Hi1|split; [exact Hi'|split; [exact Hb'|reflexivity]]]]].
  - intros hdr. unfold attempt_decrypt_server_header, cd_decrypt, inner_apply. cbn [mk_cd cd_rc4 cd_hdr].
    rewrite Ea. cbv beta iota. rewrite large_set_any by lia. cbn [cd_rc4]. reflexivity.
  - unfold decrypt_large_server_header, cd_decrypt, inner_apply. cbn [mk_cd cd_rc4 cd_hdr].
    rewrite Eb. cbv beta iota. cbn [cd_hdr]. unfold from_large_array, mk_cd.
    rewrite clear_set_any by lia. f_equal. f_equal. f_equal; lia.
Qed.

Lemma decode_long r buf size opcode : rc4_inv r -> length buf = 5%nat ->
  0x7FFF < size -> size <= 0x7FFFFF -> opcode < 65536 ->
  exists r1 r' buf' a b c d e stash,
    encrypt_server_header (mk_se r buf) size opcode = Ok (mk_se r' buf', [a; b; c; d; e]) /\
    (forall hdr, attempt_decrypt_server_header (mk_cd r hdr) [a; b; c; d] = Ok (mk_cd r1 stash, AdditionalByteRequired)) /\
    decrypt_large_server_header (mk_cd r1 stash) e = Ok (mk_cd r' stash, (size, opcode)) /\
    rc4_inv r1 /\ rc4_inv r' /\ length buf' = 5%nat /\ length stash = 4%nat.
Proof.
  intros Hi Hb Hs Hs' Ho. pose proof (decode_long_gen r buf size opcode Hi Hb Hs) as H.
  rewrite (N.mod_small size 8388608), (N.mod_small opcode 65536) in H by lia. exact H.
Qed.

(* sizes above 0x7FFFFF: accepted without error by the encrypter, delivered as another size *)
Theorem oversize_wraps se cd size opcode : wf_se se -> cd_rc4 cd = se_rc4 se -> 0x7FFF < size ->
  exists se' a b c d e cd1 cd',
    encrypt_server_header se size opcode = Ok (se', [a; b; c; d; e]) /\
    attempt_decrypt_server_header cd [a; b; c; d] = Ok (cd1, AdditionalByteRequired) /\
    decrypt_large_server_header cd1 e = Ok (cd', (size mod 8388608, opcode mod 65536)) /\
    cd_rc4 cd' = se_rc4 se'.
Proof.
  destruct se as [r buf], cd as [r0 hdr]. intros [Hi Hb] Er Hs. cbn [se_rc4 se_buf cd_rc4] in *. subst r0.
  fold (mk_se r buf). fold (mk_cd r hdr).
  destruct (decode_long_gen r buf size opcode Hi Hb Hs)
    as (r1 & r' & buf' & a & b & c & d & e & stash & Ee & Ea & El & _).
  exists (mk_se r' buf'), a, b, c, d, e, (mk_cd r1 stash), (mk_cd r' stash). rewrite Ee, Ea, El. auto.
Qed.

(* ---- C10_layout ---- *)
Theorem layout se size opcode : wf_se se -> size <= 0x7FFFFF -> opcode < 65536 ->
  let plain := if size <=? 0x7FFF then [size / 256; size mod 256; opcode mod 256; opcode / 256]
               else [N.lor (size / 65536) 128; (size / 256) mod 256; size mod 256; opcode mod 256; opcode / 256] in
  exists se' wire, encrypt_server_header se size opcode = Ok (se', wire) /\ wf_se se' /\
    length wire = length plain /\
    xor_bytes wire (ks (se_rc4 se) (length wire)) = plain /\
    se_rc4 se' = adv (se_rc4 se) (length wire) /\
    (0x7FFF < size <-> N.land (hd 0 plain) 128 <> 0) /\
    bytes wire.
Proof.
  intros Hw Hs Ho. destruct (plain_layout size opcode Hs Ho) as [Ep Hm]. cbv zeta. rewrite <- Ep.
  destruct (encrypt_server_header_spec se size opcode Hw) as (se' & E & Hw' & Er & HL & Hx & Hb).
  eexists; eexists. split; [exact E|]. split; [exact Hw'|]. split; [exact HL|]. split; [exact Hx|].
  split; [now rewrite HL|]. split; assumption.
Qed.

(* ---- C10_decode_attempt ---- *)
Theorem decode_attempt se cd size opcode : wf_se se -> cd_rc4 cd = se_rc4 se ->
  size <= 0x7FFFFF -> opcode < 65536 ->
  exists se' wire, encrypt_server_header se size opcode = Ok (se', wire) /\ wf_se se' /\
    if size <=? 0x7FFF then
      length wire = 4%nat /\
      exists cd', attempt_decrypt_server_header cd wire = Ok (cd', Header size opcode) /\
                  cd_rc4 cd' = se_rc4 se' /\ cd_hdr cd' = cd_hdr cd
    else
      exists a b c d e cd1 cd', wire = [a; b; c; d; e] /\
        attempt_decrypt_server_header cd [a; b; c; d] = Ok (cd1, AdditionalByteRequired) /\
        decrypt_large_server_header cd1 e = Ok (cd', (size, opcode)) /\
        cd_rc4 cd' = se_rc4 se' /\ length (cd_hdr cd') = 4%nat.
Proof.
  destruct se as [r buf], cd as [r0 hdr]. intros [Hi Hb] Er Hs Ho. cbn [se_rc4 se_buf cd_rc4] in *. subst r0.
  fold (mk_se r buf). fold (mk_cd r hdr).
  destruct (N.leb_spec size 0x7FFF) as [Hle|Hgt].
  - destruct (decode_short r buf size opcode Hi Hb Hle Ho) as (r' & buf' & a & b & c & d & Ee & Ea & Hi' & Hb').
    exists (mk_se r' buf'), [a; b; c; d]. split; [exact Ee|]. split; [split; assumption|].
    split; [reflexivity|]. exists (mk_cd r' hdr). rewrite Ea. auto.
  - destruct (decode_long r buf size opcode Hi Hb Hgt Hs Ho)
      as (r1 & r' & buf' & a & b & c & d & e & stash & Ee & Ea & El & Hi1 & Hi' & Hb' & Hst).
    exists (mk_se r' buf'), [a; b; c; d; e]. split; [exact Ee|]. split; [split; assumption|].
    exists a, b, c, d, e, (mk_cd r1 stash), (mk_cd r' stash). rewrite Ea, El. auto 10.
Qed.

(* ---- C10_sequence ---- *)
Definition hdr_ok (h : N * N) : Prop := fst h <= 0x7FFFFF /\ snd h < 65536.

Lemma sequence_gen hs : forall r buf hdr, rc4_inv r -> length buf = 5%nat -> Forall hdr_ok hs ->
  exists r' buf' hdr' wire,
    encode_all (mk_se r buf) hs = Ok (mk_se r' buf', wire) /\
    (forall rest, decode_two_step (mk_cd r hdr) (wire ++ rest) (length hs) = Ok (mk_cd r' hdr', hs, rest)) /\
    rc4_inv r' /\ length buf' = 5%nat /\ (length hdr = 4%nat -> length hdr' = 4%nat).
Proof.
  induction hs as [|[sz op] hs IH]; intros r buf hdr Hi Hb HF.
  - exists r, buf, hdr, []. split; [reflexivity|]. split; [reflexivity|]. auto.
  - inversion HF as [|? ? [Hs Ho] HF']; subst. cbn [fst snd] in Hs, Ho.
    destruct (N.leb_spec sz 0x7FFF) as [Hle|Hgt].
    + destruct (decode_short r buf sz op Hi Hb Hle Ho) as (r1 & buf1 & a & b & c & d & Ee & Ea & Hi1 & Hb1).
      destruct (IH r1 buf1 hdr Hi1 Hb1 HF') as (r' & buf' & hdr' & wire & E1 & E2 & Hi' & Hb' & Hh).
      exists r', buf', hdr', ([a; b; c; d] ++ wire).
      cbn [encode_all length]. rewrite Ee, E1. split; [reflexivity|]. split; [|auto].
      intros rest. cbn [app decode_two_step]. rewrite (Ea hdr), (E2 rest). reflexivity.
    + destruct (decode_long r buf sz op Hi Hb Hgt Hs Ho)
        as (r1 & r2 & buf1 & a & b & c & d & e & stash & Ee & Ea & El & Hi1 & Hi2 & Hb1 & Hst).
      destruct (IH r2 buf1 stash Hi2 Hb1 HF') as (r' & buf' & hdr' & wire & E1 & E2 & Hi' & Hb' & Hh).
      exists r', buf', hdr', ([a; b; c; d; e] ++ wire).
      cbn [encode_all length]. rewrite Ee, E1. split; [reflexivity|]. split; [|auto].
      intros rest. cbn [app decode_two_step]. rewrite (Ea hdr), El, (E2 rest). reflexivity.
Qed.

(* from any pair of halves in step *)
Theorem sequence_instep se cd hs : wf_se se -> cd_rc4 cd = se_rc4 se ->
  Forall (fun h => fst h <= 0x7FFFFF /\ snd h < 65536) hs ->
  exists se' cd' wire, encode_all se hs = Ok (se', wire) /\
    (forall rest, decode_two_step cd (wire ++ rest) (length hs) = Ok (cd', hs, rest)) /\
    cd_rc4 cd' = se_rc4 se' /\ wf_se se'.
Proof.
  destruct se as [r buf], cd as [r0 hdr]. intros [Hi Hb] Er HF. cbn [se_rc4 se_buf cd_rc4] in *. subst r0.
  destruct (sequence_gen hs r buf hdr Hi Hb HF) as (r' & buf' & hdr' & wire & E1 & E2 & Hi' & Hb' & _).
  exists (mk_se r' buf'), (mk_cd r' hdr'), wire. split; [exact E1|]. split; [exact E2|].
  split; [reflexivity|]. split; assumption.
Qed.

Theorem sequence K hs : Forall (fun h => fst h <= 0x7FFFFF /\ snd h < 65536) hs ->
  exists se cd se' cd' wire, server_enc_new K = Ok se /\ client_dec_new K = Ok cd /\
    encode_all se hs = Ok (se', wire) /\
    decode_two_step cd wire (length hs) = Ok (cd', hs, []) /\
    (forall rest, decode_two_step cd (wire ++ rest) (length hs) = Ok (cd', hs, rest)) /\
    cd_rc4 cd' = se_rc4 se'.
Proof.
  intros HF.
  destruct (sequence_instep (mk_se (inner_state K Consts.wrath_R) [0;0;0;0;0]) (mk_cd (inner_state K Consts.wrath_R) [0;0;0;0]) hs)
    as (se' & cd' & wire & E1 & E2 & Er & _).
  - split; [apply inner_state_inv | reflexivity].
  - reflexivity.
  - exact HF.
  - do 5 eexists. rewrite server_enc_new_eq, client_dec_new_eq.
    split; [reflexivity|]. split; [reflexivity|]. split; [exact E1|].
    split; [|split; [exact E2 | exact Er]].
    specialize (E2 []). now rewrite app_nil_r in E2.
Qed.

(* ---- no entry point panics, from any state satisfying the invariant ---- *)
Theorem new_no_panic K :
  exists ce sd se cd, client_enc_new K = Ok ce /\ server_dec_new K = Ok sd /\
    server_enc_new K = Ok se /\ client_dec_new K = Ok cd /\
    rc4_inv (ce_rc4 ce) /\ rc4_inv (sd_rc4 sd) /\ wf_se se /\ wf_cd cd /\
    exists cc sc, client_crypto_new K = Ok cc /\ cc_split cc = (ce, cd) /\
                  server_crypto_new K = Ok sc /\ sc_split sc = (se, sd).
Proof.
  pose proof (inner_state_inv K Consts.wrath_S) as HS. pose proof (inner_state_inv K Consts.wrath_R) as HR.
  do 4 eexists. unfold client_crypto_new, server_crypto_new.
  rewrite client_enc_new_eq, server_dec_new_eq, server_enc_new_eq, client_dec_new_eq.
  split; [reflexivity|]. split; [reflexivity|]. split; [reflexivity|]. split; [reflexivity|].
  split; [exact HS|]. split; [exact HS|]. split; [split; [exact HR|reflexivity]|]. split; [split; [exact HR|reflexivity]|].
  do 2 eexists. split; [reflexivity|]. split; [reflexivity|]. split; reflexivity.
Qed.

Theorem stream_no_panic data :
  (forall h, rc4_inv (ce_rc4 h) -> exists h' out, ce_encrypt h data = Ok (h', out) /\
      rc4_inv (ce_rc4 h') /\ length out = length data) /\
  (forall h, rc4_inv (sd_rc4 h) -> exists h' out, sd_decrypt h data = Ok (h', out) /\
      rc4_inv (sd_rc4 h') /\ length out = length data) /\
  (forall h, wf_se h -> exists h' out, se_encrypt h data = Ok (h', out) /\ wf_se h' /\ length out = length data) /\
  (forall h, wf_cd h -> exists h' out, cd_decrypt h data = Ok (h', out) /\ wf_cd h' /\ length out = length data /\
      cd_hdr h' = cd_hdr h).
Proof.
  split; [|split; [|split]].
  - intros h Hi. rewrite (ce_call h data Hi). do 2 eexists. split; [reflexivity|].
    split; [now apply adv_inv | rewrite xor_bytes_length; [reflexivity | now rewrite ks_length]].
  - intros h Hi. rewrite (sd_call h data Hi). do 2 eexists. split; [reflexivity|].
    split; [now apply adv_inv | rewrite xor_bytes_length; [reflexivity | now rewrite ks_length]].
  - intros h [Hi Hb]. rewrite (se_call h data Hi). do 2 eexists. split; [reflexivity|].
    split; [split; [now apply adv_inv | exact Hb] | rewrite xor_bytes_length; [reflexivity | now rewrite ks_length]].
  - intros h [Hi Hb]. rewrite (cd_call h data Hi). do 2 eexists. split; [reflexivity|].
    split; [split; [now apply adv_inv | exact Hb] |].
    split; [rewrite xor_bytes_length; [reflexivity | now rewrite ks_length] | reflexivity].
Qed.

Theorem header_no_panic :
  (forall h size opcode, wf_se h -> exists h' w, encrypt_server_header h size opcode = Ok (h', w) /\ wf_se h' /\
      length w = (if 0x7FFF <? size then 5%nat else 4%nat) /\ bytes w) /\
  (forall h size opcode, rc4_inv (ce_rc4 h) -> exists h' w, encrypt_client_header h size opcode = Ok (h', w) /\
      rc4_inv (ce_rc4 h') /\ length w = 6%nat) /\
  (forall h data, rc4_inv (sd_rc4 h) -> length data = 6%nat ->
      exists h' hd, decrypt_client_header h data = Ok (h', hd) /\ rc4_inv (sd_rc4 h')) /\
  (forall h buf, wf_cd h -> length buf = 4%nat ->
      exists h' a, attempt_decrypt_server_header h buf = Ok (h', a) /\ wf_cd h') /\
  (forall h byte, wf_cd h ->
      exists h' hd, decrypt_large_server_header h byte = Ok (h', hd) /\ wf_cd h' /\ cd_hdr h' = cd_hdr h).
Proof.
  split; [|split; [|split; [|split]]].
  - intros h size opcode Hw.
    destruct (encrypt_server_header_spec h size opcode Hw) as (h' & E & Hw' & _ & HL & _ & Hb).
    do 2 eexists. split; [exact E|]. split; [exact Hw'|]. split; [|exact Hb]. now rewrite HL, plain_length.
  - intros h size opcode Hi. unfold encrypt_client_header. rewrite (ce_call h _ Hi). do 2 eexists.
    split; [reflexivity|]. split; [now apply adv_inv|]. rewrite xor_bytes_length; [reflexivity | now rewrite ks_length].
  - intros h data Hi HL. unfold decrypt_client_header. rewrite (sd_call h data Hi).
    assert (HLo : length (xor_bytes data (ks (sd_rc4 h) (length data))) = 6%nat)
      by (rewrite xor_bytes_length; [exact HL | now rewrite ks_length]).
    destruct (len6 _ HLo) as (a & b & c & d & e & f & ->). cbn [WS.model.Vanilla.client_header_from_array].
    do 2 eexists. split; [reflexivity|]. now apply adv_inv.
  - intros h buf [Hi Hh] HL. unfold attempt_decrypt_server_header. rewrite (cd_call h buf Hi).
    assert (HLo : length (xor_bytes buf (ks (cd_rc4 h) (length buf))) = 4%nat)
      by (rewrite xor_bytes_length; [exact HL | now rewrite ks_length]).
    destruct (len4 _ HLo) as (a & b & c & d & ->).
    destruct (large_header a); do 2 eexists; (split; [reflexivity|]); (split; [now apply adv_inv|]);
      [reflexivity | exact Hh].
  - intros h byte [Hi Hh]. unfold decrypt_large_server_header. rewrite (cd_call h [byte] Hi).
    assert (HLo : length (xor_bytes [byte] (ks (cd_rc4 h) (length [byte]))) = 1%nat)
      by (rewrite xor_bytes_length; [reflexivity | now rewrite ks_length]).
    destruct (len1 _ HLo) as (b4 & ->). cbn [cd_upd cd_hdr].
    destruct (len4 _ Hh) as (h0 & h1 & h2 & h3 & Eh). rewrite Eh.
    do 2 eexists. split; [reflexivity|]. cbn [cd_upd cd_rc4 cd_hdr].
    split; [split; [now apply adv_inv | exact Hh] | first [exact Eh | symmetry; exact Eh | reflexivity]].
Qed.

(* decrypt_large_server_header without a preceding attempt (documented misuse): no panic; on a fresh
   decrypter the all-zero stash yields size 0 and an opcode whose low byte is 0, and the cipher has
   advanced by one byte, so the stream is out of step from then on *)
Theorem large_without_attempt K byte :
  exists cd cd', client_dec_new K = Ok cd /\
    decrypt_large_server_header cd byte = Ok (cd', (0, 256 * N.lxor byte (hd 0 (ks (cd_rc4 cd) 1)))) /\
    cd_rc4 cd' = adv (cd_rc4 cd) 1.
Proof.
  pose proof (inner_state_inv K Consts.wrath_R) as HR.
  do 2 eexists. rewrite client_dec_new_eq. split; [reflexivity|].
  unfold decrypt_large_server_header. rewrite (cd_call _ [byte]) by exact HR. cbn [mk_cd cd_rc4 cd_hdr length].
  pose proof (ks_length _ 1 HR) as HL. destruct (len1 _ HL) as (k & ->).
  rewrite xor_bytes_cons. cbn [xor_bytes combine map cd_upd cd_hdr cd_rc4 hd]. split; reflexivity.
Qed.

(* ---- concrete instances, evaluated ---- *)
Definition rc4_eqb (a b : rc4) : bool := list_eqb (st a) (st b) && (ri a =? ri b) && (rj a =? rj b).

Definition sequence_check (K : list N) (hs : list (N * N)) : option (nat * list (N * N) * list N * bool) :=
  match server_enc_new K, client_dec_new K with
  | Ok se, Ok cd =>
    match encode_all se hs with
    | Ok (se', wire) =>
      match decode_two_step cd wire (length hs) with
      | Ok (cd', hs', rest) => Some (length wire, hs', rest, rc4_eqb (se_rc4 se') (cd_rc4 cd'))
      | _ => None
      end
    | _ => None
    end
  | _, _ => None
  end.

Example sequence_example :
  let hs := [(8, 0x1EE); (0x7FFF, 0xFFFF); (0x8000, 0); (0x7FFFFF, 0x3B); (0, 1); (0x800D, 0x1EE)] in
  sequence_check (map N.of_nat (seq 1 40)) hs = Some (27%nat, hs, [], true).
Proof. vm_compute. reflexivity. Qed.

(* Real capture with a 3.3.5 client, from the repository's own test verify_headers_write.  The two
   20-byte RC4 keys are HMAC-SHA1(R, K) and HMAC-SHA1(S, K) for that test's session key K, computed
   outside Coq, so this instance exercises RC4, the 1024-byte drop, both header layouts' short form
   and the client-header parser independently of lib/Hmac.v. *)
Definition capture_kR : list N := [161; 23; 159; 75; 57; 7; 84; 9; 62; 111; 5; 128; 225; 21; 191; 192; 140; 100; 46; 211].
Definition capture_kS : list N := [206; 176; 68; 181; 144; 226; 251; 92; 52; 209; 170; 127; 108; 127; 106; 200; 230; 123; 16; 15].
Definition dropped (key : list N) : rc4 :=
  match rc4_new key with Ok r => adv r (N.to_nat Consts.wrath_drop) | _ => bad_state end.

Example capture_server_headers :
  match encode_all (mk_se (dropped capture_kR) [0;0;0;0;0]) [(13, 0x1EE); (277, 0x3B); (19, 0x38B)] with
  | Ok (_, w) => w | _ => [] end
  = [0x17; 0xaa; 0xd4; 0x4c;  0x1a; 0x9c; 0x7c; 0x10;  0x10; 0xfb; 0x6e; 0xa8].
Proof. vm_compute. reflexivity. Qed.

Example capture_client_headers :
  let d0 := {| sd_rc4 := dropped capture_kS |} in
  match decrypt_client_header d0 [0x85; 0x0f; 0x6e; 0x91; 0x55; 0xf9] with
  | Ok (d1, h1) =>
    match decrypt_client_header d1 [0x56; 0x8e; 0x8c; 0x9a; 0xed; 0x42] with
    | Ok (d2, h2) =>
      match decrypt_client_header d2 [0xc2; 0xf3; 0xb7; 0xc5; 0x17; 0xbc] with
      | Ok (d3, h3) =>
        match decrypt_client_header d3 [0x30; 0xf7; 0xa6; 0xee; 0x74; 0xbe] with
        | Ok (_, h4) => [h1; h2; h3; h4] | _ => [] end
      | _ => [] end
    | _ => [] end
  | _ => [] end
  = [(4, 0x4FF); (4, 0x37); (8, 0x38C); (12, 0x1DC)].
Proof. vm_compute. reflexivity. Qed.

(* the same capture end to end, through lib/Hmac.v as well *)
Definition capture_K : list N :=
  [1; 51; 81; 113; 146; 209; 181; 133; 131; 129; 50; 206; 122; 228; 208; 115; 52; 15; 132; 54;
   189; 17; 178; 157; 178; 3; 35; 186; 202; 151; 226; 58; 162; 188; 65; 174; 60; 18; 152; 7].

Example capture_hmac :
  hmac_sha1 Consts.wrath_R capture_K = capture_kR /\ hmac_sha1 Consts.wrath_S capture_K = capture_kS.
Proof. split; vm_compute; reflexivity. Qed.

Example capture_end_to_end :
  match server_enc_new capture_K with
  | Ok se => match encode_all se [(13, 0x1EE); (277, 0x3B); (19, 0x38B)] with Ok (_, w) => w | _ => [] end
  | _ => []
  end = [0x17; 0xaa; 0xd4; 0x4c;  0x1a; 0x9c; 0x7c; 0x10;  0x10; 0xfb; 0x6e; 0xa8] /\
  match server_dec_new capture_K with
  | Ok sd => match decrypt_client_header sd [0x85; 0x0f; 0x6e; 0x91; 0x55; 0xf9] with
             | Ok (_, h) => Some h | _ => None end
  | _ => None
  end = Some (4, 0x4FF).
Proof. split; vm_compute; reflexivity. Qed.
