(* Facts about the big-integer wrapper model: powmod = b^e mod m, byte encodings, padding. *)
From WS Require Import lib.Bytes lib.Res model.Bigint.
From Coq Require Import ZifyN ZifyNat ZifyBool.
Local Open Scope Z_scope.

Lemma powmod_pos_spec b e m : 0 < m -> powmod_pos b e m = (b ^ Zpos e) mod m.
Proof.
  intros Hm. induction e as [e IH|e IH|]; cbn [powmod_pos].
  - rewrite IH. replace (Zpos e~1) with (Zpos e + Zpos e + 1) by lia.
    rewrite !Z.pow_add_r by lia. rewrite Z.pow_1_r.
    rewrite <- Zmult_mod. rewrite Zmult_mod_idemp_l. reflexivity.
  - rewrite IH. replace (Zpos e~0) with (Zpos e + Zpos e) by lia.
    rewrite Z.pow_add_r by lia. now rewrite <- Zmult_mod.
  - now rewrite Z.pow_1_r.
Qed.

Lemma powmod_spec b e m : 0 < m -> 0 <= e -> powmod b e m = (b ^ e) mod m.
Proof.
  intros Hm He. destruct e as [|e|e]; cbn [powmod]; [reflexivity| now apply powmod_pos_spec | lia].
Qed.

Lemma powmod_range b e m : 0 < m -> 0 <= e -> 0 <= powmod b e m < m.
Proof. intros Hm He. rewrite powmod_spec by assumption. apply Z.mod_pos_bound. exact Hm. Qed.

Lemma modpow_default b e m : 0 < m -> 0 <= e -> modpow Default b e m = Ok ((b ^ e) mod m).
Proof.
  intros Hm He. unfold modpow.
  replace (m =? 0) with false by lia. replace (e <? 0) with false by lia. cbn [orb].
  now rewrite powmod_spec.
Qed.

Lemma modpow_fast b e m : 0 < m -> 0 <= e -> modpow Fast b e m = Ok ((b ^ e) mod m).
Proof.
  intros Hm He. unfold modpow, pow_mod_unwrap.
  replace (m =? 0) with false by lia. replace (e <? 0) with false by lia. cbn [orb].
  rewrite powmod_spec by lia. destruct ((e <=? 0) || Z.even m); reflexivity.
Qed.

(* the two back ends agree on every non-negative exponent and modulus (both panic on modulus 0) *)
Theorem modpow_backends_agree b e m : 0 <= e -> 0 <= m -> modpow Fast b e m = modpow Default b e m.
Proof.
  intros He Hm. unfold modpow, pow_mod_unwrap. destruct ((e <=? 0) || Z.even m) eqn:E; [reflexivity|].
  apply orb_false_iff in E. destruct E as [E1 E2].
  assert (Hm0 : (m =? 0) = false) by (destruct (Z.eqb_spec m 0) as [->|]; [discriminate E2|reflexivity]).
  rewrite Hm0. replace (e <? 0) with false by lia. reflexivity.
Qed.

(* the pinned body disagreed exactly where secure_pow_mod's preconditions fail *)
Theorem modpow_fast_v070_refuted :
  modpow_fast_v070 7 0 11 = Panic /\ modpow Default 7 0 11 = Ok 1 /\ modpow Fast 7 0 11 = Ok 1 /\
  modpow_fast_v070 7 5 10 = Panic /\ modpow Default 7 5 10 = Ok 7 /\ modpow Fast 7 5 10 = Ok 7.
Proof. repeat split; reflexivity. Qed.

(* ---- byte encodings ---- *)
Lemma nbytes_bound a : 0 < a -> a < 256 ^ Z.of_nat (nbytes a).
Proof.
  intros Ha. unfold nbytes. rewrite Z2Nat.id.
  2:{ pose proof (Z.log2_nonneg a). pose proof (Z.div_pos (Z.log2 a) 8). lia. }
  change 256 with (2 ^ 8). rewrite <- Z.pow_mul_r.
  2: lia. 2:{ pose proof (Z.log2_nonneg a). pose proof (Z.div_pos (Z.log2 a) 8). lia. }
  pose proof (Z.log2_spec a Ha) as [_ Hlt].
  eapply Z.lt_le_trans; [exact Hlt|]. apply Z.pow_le_mono_r; [lia|].
  pose proof (Z.log2_nonneg a). lia.
Qed.

Lemma to_bytes_le_value be z : 0 <= z -> le_to_Z (to_bytes_le be z) = z.
Proof.
  intros Hz. unfold to_bytes_le. rewrite Z.abs_eq by lia.
  destruct (Z.eqb_spec z 0) as [->|Hne].
  - destruct be; reflexivity.
  - apply Z_to_le_to_Z. split; [lia|]. apply nbytes_bound. lia.
Qed.

Lemma to_bytes_le_bytes be z : bytes (to_bytes_le be z).
Proof.
  unfold to_bytes_le. destruct (Z.abs z =? 0).
  - destruct be; try constructor; try (unfold byte_ok; lia); constructor.
  - apply Z_to_le_bytes.
Qed.

(* minimal length: a value below 256^n has at most n bytes (n >= 1 for the [0] encoding) *)
Lemma nbytes_le a n : 0 < a -> a < 256 ^ Z.of_nat n -> (nbytes a <= n)%nat.
Proof.
  intros Ha Hlt. unfold nbytes.
  assert (Hl : Z.log2 a < 8 * Z.of_nat n).
  { apply Z.log2_lt_pow2; [lia|]. change 256 with (2 ^ 8) in Hlt. rewrite <- Z.pow_mul_r in Hlt; lia. }
  pose proof (Z.log2_nonneg a). lia.
Qed.

Lemma to_bytes_le_length be z n : 0 <= z -> z < 256 ^ Z.of_nat n -> (1 <= n)%nat ->
  (length (to_bytes_le be z) <= n)%nat.
Proof.
  intros Hz Hlt Hn. unfold to_bytes_le. rewrite Z.abs_eq by lia.
  destruct (Z.eqb_spec z 0) as [->|Hne].
  - destruct be; cbn [length]; lia.
  - rewrite Z_to_le_length. apply nbytes_le; lia.
Qed.

Lemma pad_to_ok len v : (length v <= len)%nat -> pad_to len v = Ok (v ++ repeat 0%N (len - length v)).
Proof. intros H. unfold pad_to. replace (len <? length v)%nat with false by lia. reflexivity. Qed.

(* the padded copy of a value below 256^n is exactly its n-byte little-endian encoding *)
Theorem pad_to_value be z n : 0 <= z -> z < 256 ^ Z.of_nat n -> (1 <= n)%nat ->
  pad_to n (to_bytes_le be z) = Ok (Z_to_le n z).
Proof.
  intros Hz Hlt Hn. pose proof (to_bytes_le_length be z n Hz Hlt Hn) as Hlen.
  rewrite pad_to_ok by exact Hlen. f_equal.
  apply le_to_Z_inj.
  - apply bytes_app. split; [apply to_bytes_le_bytes | apply bytes_repeat0].
  - apply Z_to_le_bytes.
  - rewrite app_length, repeat_length, Z_to_le_length. lia.
  - rewrite le_to_Z_app, le_to_Z_repeat0, to_bytes_le_value, Z_to_le_to_Z by lia. lia.
Qed.

Corollary to_padded_32 be z : 0 <= z < 2 ^ 256 -> to_padded_32_byte_array_le be z = Ok (LE32 z).
Proof.
  intros [Hz Hlt]. unfold to_padded_32_byte_array_le, LE32. apply pad_to_value; [lia| |lia].
  change (256 ^ Z.of_nat 32) with (2 ^ 256). exact Hlt.
Qed.

(* an unreduced value that does not fit panics in the copy: the reason every result is reduced first *)
Lemma pad_to_panic len v : (len < length v)%nat -> pad_to len v = Panic.
Proof. intros H. unfold pad_to. replace (len <? length v)%nat with true by lia. reflexivity. Qed.

Lemma rem_nonneg a b : 0 <= a -> 0 < b -> rem a b = Ok (a mod b).
Proof.
  intros Ha Hb. unfold rem. replace (b =? 0) with false by lia. f_equal.
  apply Z.rem_mod_nonneg; lia.
Qed.
