(* Bridge one-liners (see proofs/delegations/Common.v for the method delegations).  The SRP model takes
   "key as an integer" to be the little-endian value of the key's bytes (model/Key.v: le_to_Z), N to be the
   little-endian value of the prime's bytes, g and k to be the byte constants as integers, and `?` on an error
   to wrap it in the SrpError variant of the same kind.  In the Rust source those are the one-line bodies of
   key_bigint!'s `as_bigint`, LargeSafePrime::to_bigint, Generator::to_bigint, KValue::bigint and the three
   `From<..> for SrpError` impls; tools/extract_delegations.py re-reads them on every run (white space and
   parameter names removed), and the entry points of the big-integer shim they call (`Integer::from_bytes_le`,
   `Integer::from(u8)`) are themselves translated for both back ends by tools/extract_bigint.py
   (coq/BigintShim.v, proofs/steps/BigintShim.v).  A body that reads the bytes in another order, another field,
   another constant, or wraps an error in another variant changes the regenerated table and breaks this
   obligation.  Functions added to the source do not disturb it. *)
From Coq Require Import String List Bool.
From WS Require Import Delegations.
Import ListNotations.
Local Open Scope string_scope.

Definition brow := (string * string * string * string)%type.
Definition brow_eqb (a b : brow) : bool :=
  let '(a1, a2, a3, a4) := a in let '(b1, b2, b3, b4) := b in
  String.eqb a1 b1 && String.eqb a2 b2 && String.eqb a3 b3 && String.eqb a4 b4.
Definition bridges_present (expected table : list brow) : bool := forallb (fun r => existsb (brow_eqb r) table) expected.

Definition expected_bridges : list brow := [
  ("key", "as_bigint#0", "&self) -> bigint::Integer", "bigint::Integer::from_bytes_le(&self.key)");
  ("primes", "to_bigint#0", "&self) -> bigint::Integer", "bigint::Integer::from_bytes_le(&self.prime)");
  ("primes", "to_bigint#1", "&self) -> bigint::Integer", "bigint::Integer::from(self.generator)");
  ("primes", "bigint#0", ") -> bigint::Integer", "bigint::Integer::from(K_VALUE)");
  ("error", "from#0", "InvalidPublicKeyError) -> Self", "Self::InvalidPublicKey($0)");
  ("error", "from#1", "MatchProofsError) -> Self", "Self::ProofsDoNotMatch($0)");
  ("error", "from#2", "NormalizedStringError) -> Self", "Self::NormalizedStringError($0)")
].
Lemma bridges_as_modelled : bridges_present expected_bridges bridges = true.
Proof. vm_compute. reflexivity. Qed.
(* exactly one body per name: a second `as_bigint` (say, a big-endian one for some key type) would be new code
   the model knows nothing about *)
Lemma bridges_no_more : length bridges = length expected_bridges.
Proof. vm_compute. reflexivity. Qed.
