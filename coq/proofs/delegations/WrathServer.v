(* see proofs/delegations/Common.v *)
From Coq Require Import String List Bool Arith.
From WS Require Import Delegations proofs.delegations.Common.
Import ListNotations.
Local Open Scope string_scope.

Definition expected_wrath_server : list row := [
  ("decrypter", "decrypt", "&mut", []);
  ("encrypter", "encrypt", "&mut", []);
  ("encrypt", "encrypt", "encrypt", [0]);
  ("write_encrypted_server_header", "encrypt", "write_encrypted_server_header", [0; 1; 2]);
  ("encrypt_server_header", "encrypt", "encrypt_server_header", [0; 1]);
  ("decrypt", "decrypt", "decrypt", [0]);
  ("read_and_decrypt_client_header", "decrypt", "read_and_decrypt_client_header", [0])
].
Lemma delegations_wrath_server_as_modelled : all_present expected_wrath_server delegations_wrath_server = true.
Proof. vm_compute. reflexivity. Qed.
