(* see proofs/delegations/Common.v *)
From Coq Require Import String List Bool Arith.
From WS Require Import Delegations proofs.delegations.Common.
Import ListNotations.
Local Open Scope string_scope.

Definition expected_tbc : list row := [
  ("decrypter", "decrypt", "&mut", []);
  ("encrypter", "encrypt", "&mut", []);
  ("encrypt", "encrypt", "encrypt", [0]);
  ("write_encrypted_server_header", "encrypt", "write_encrypted_server_header", [0; 1; 2]);
  ("write_encrypted_client_header", "encrypt", "write_encrypted_client_header", [0; 1; 2]);
  ("encrypt_server_header", "encrypt", "encrypt_server_header", [0; 1]);
  ("encrypt_client_header", "encrypt", "encrypt_client_header", [0; 1]);
  ("decrypt", "decrypt", "decrypt", [0]);
  ("read_and_decrypt_server_header", "decrypt", "read_and_decrypt_server_header", [0]);
  ("read_and_decrypt_client_header", "decrypt", "read_and_decrypt_client_header", [0]);
  ("decrypt_server_header", "decrypt", "decrypt_server_header", [0]);
  ("decrypt_client_header", "decrypt", "decrypt_client_header", [0])
].
Lemma delegations_tbc_as_modelled : all_present expected_tbc delegations_tbc = true.
Proof. vm_compute. reflexivity. Qed.
