(* The combined crypto objects are pairs of halves and every method of theirs is the method of the same
   name on ONE half with the same arguments in the same order: that is how model/HeaderIo.v defines them
   (v_on_enc / v_on_dec / t_on_* / lift_enc), and tools/extract_delegations.py re-reads from
   src/*_header/mod.rs on every run what each Rust method body actually does.  Every delegation the model
   relies on must be present in the regenerated table (methods added to the source do not disturb this). *)
From Coq Require Import String List Bool Arith.
Import ListNotations.
Local Open Scope string_scope.

Definition row := (string * string * string * list nat)%type.
Fixpoint nats_eqb (a b : list nat) : bool :=
  match a, b with [], [] => true | x :: a', y :: b' => Nat.eqb x y && nats_eqb a' b' | _, _ => false end.
Definition row_eqb (a b : row) : bool :=
  let '(a1, a2, a3, a4) := a in let '(b1, b2, b3, b4) := b in
  String.eqb a1 b1 && String.eqb a2 b2 && String.eqb a3 b3 && nats_eqb a4 b4.
Definition all_present (expected table : list row) : bool := forallb (fun r => existsb (row_eqb r) table) expected.

