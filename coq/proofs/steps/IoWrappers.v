(* The Read / Write wrappers of the Vanilla and TBC halves (read_and_decrypt_{server,client}_header,
   write_encrypted_{server,client}_header), translated from src/{vanilla,tbc}_header/{decrypt,encrypt}.rs
   on this run, are the model's functions: ONE read_exact into a buffer of the header length BEFORE the
   cipher is touched (so a failed read leaves the half as it was and returns the reader's error), then
   the typed helper; and the typed helper, then ONE write_all of exactly its bytes, whose error is
   returned. std's read_exact / write_all are the modelled lib/IoScript.v functions. *)
From Coq Require Import List NArith Lia.
From WS Require Import lib.Bytes lib.Res lib.IoScript lib.StepLoop Consts Steps model.HeaderCipher model.HeaderIo
  proofs.HeaderIo proofs.steps.HelpersCommon proofs.steps.HelpersVanilla proofs.steps.HelpersTbc.
From WS Require model.Vanilla model.Tbc.
Import ListNotations.
Local Open Scope N_scope.

Lemma read_exact_len : forall s n buf rest, read_exact n s = Ok (buf, rest) -> length buf = n.
Proof. intros s n buf rest H. exact (read_exact_ok_length s n buf rest H). Qed.

(* views: (half, Ok (header, rest of the script) | Err kind) and (half, what the writer got, its script, result) *)
Definition rview {H} (r : nres (H * res (hdr * rscript) io_kind)) (s : rscript) : option (H * (hdr + io_kind) * rscript) :=
  match r with
  | Ok (h, Ok (a, rest)) => Some (h, inl a, rest)
  | Ok (h, Err kd) => Some (h, inr kd, s)
  | _ => None
  end.
Definition wview {H} (r : nres (H * wres)) : option (H * (unit + io_kind) * (list N * wscript)) :=
  match r with
  | Ok (h, (got, w', Ok _)) => Some (h, inl tt, (got, w'))
  | Ok (h, (got, w', Err kd)) => Some (h, inr kd, (got, w'))
  | _ => None
  end.

Lemma io_write_all_nil : forall buf w, io_write_all buf ([], w) = let '(got, w', r) := write_all buf w in ((got, w'), r).
Proof. intros. unfold io_write_all. cbn [fst snd]. destruct (write_all buf w) as [[got w'] r]. reflexivity. Qed.

(* ---- Vanilla ---- *)
Lemma vanilla_read_server_translated : forall h s,
  tr_vanilla_read_and_decrypt_server_header (fun h d => nview (V.decrypt h d)) h s = rview (v_read_and_decrypt_server_header h s) s.
Proof.
  intros h s. unfold tr_vanilla_read_and_decrypt_server_header, v_read_and_decrypt_server_header, read_then.
  rewrite repeat_length.
  destruct (read_exact (N.to_nat vanilla_server_header_length) s) as [[buf rest]|kd|] eqn:E; [|reflexivity|reflexivity].
  rewrite vanilla_decrypt_server_header_translated by (eapply read_exact_len; exact E).
  destruct (V.decrypt_server_header h buf) as [[h' a]|e|]; [reflexivity|destruct e|reflexivity].
Qed.
Lemma vanilla_read_client_translated : forall h s,
  tr_vanilla_read_and_decrypt_client_header (fun h d => nview (V.decrypt h d)) h s = rview (v_read_and_decrypt_client_header h s) s.
Proof.
  intros h s. unfold tr_vanilla_read_and_decrypt_client_header, v_read_and_decrypt_client_header, read_then.
  rewrite repeat_length.
  destruct (read_exact (N.to_nat vanilla_client_header_length) s) as [[buf rest]|kd|] eqn:E; [|reflexivity|reflexivity].
  rewrite vanilla_decrypt_client_header_translated by (eapply read_exact_len; exact E).
  destruct (V.decrypt_client_header h buf) as [[h' a]|e|]; [reflexivity|destruct e|reflexivity].
Qed.
Lemma vanilla_write_server_translated : forall h w size opcode,
  tr_vanilla_write_encrypted_server_header (fun h d => nview (V.encrypt h d)) h ([], w) size opcode = wview (v_write_encrypted_server_header h w size opcode).
Proof.
  intros. unfold tr_vanilla_write_encrypted_server_header, v_write_encrypted_server_header, write_after.
  rewrite vanilla_encrypt_server_header_translated.
  destruct (V.encrypt_server_header h size opcode) as [[h' buf]|e|]; [|destruct e|reflexivity]. cbn [nview].
  rewrite io_write_all_nil. destruct (write_all buf w) as [[got w'] [u|kd|]]; reflexivity.
Qed.
Lemma vanilla_write_client_translated : forall h w size opcode,
  tr_vanilla_write_encrypted_client_header (fun h d => nview (V.encrypt h d)) h ([], w) size opcode = wview (v_write_encrypted_client_header h w size opcode).
Proof.
  intros. unfold tr_vanilla_write_encrypted_client_header, v_write_encrypted_client_header, write_after.
  rewrite vanilla_encrypt_client_header_translated.
  destruct (V.encrypt_client_header h size opcode) as [[h' buf]|e|]; [|destruct e|reflexivity]. cbn [nview].
  rewrite io_write_all_nil. destruct (write_all buf w) as [[got w'] [u|kd|]]; reflexivity.
Qed.

(* ---- TBC ---- *)
Lemma tbc_read_server_translated : forall h s,
  tr_tbc_read_and_decrypt_server_header (fun h d => nview (T.decrypt h d)) h s = rview (t_read_and_decrypt_server_header h s) s.
Proof.
  intros h s. unfold tr_tbc_read_and_decrypt_server_header, t_read_and_decrypt_server_header, read_then.
  rewrite repeat_length. change (N.to_nat tbc_server_header_length) with 4%nat.
  destruct (read_exact 4 s) as [[buf rest]|kd|] eqn:E; [|reflexivity|reflexivity].
  rewrite tbc_decrypt_server_header_translated by (eapply read_exact_len; exact E).
  destruct (t_decrypt_server_header h buf) as [[h' a]|e|]; [reflexivity|destruct e|reflexivity].
Qed.
Lemma tbc_read_client_translated : forall h s,
  tr_tbc_read_and_decrypt_client_header (fun h d => nview (T.decrypt h d)) h s = rview (t_read_and_decrypt_client_header h s) s.
Proof.
  intros h s. unfold tr_tbc_read_and_decrypt_client_header, t_read_and_decrypt_client_header, read_then.
  rewrite repeat_length. change (N.to_nat tbc_client_header_length) with 6%nat.
  destruct (read_exact 6 s) as [[buf rest]|kd|] eqn:E; [|reflexivity|reflexivity].
  rewrite tbc_decrypt_client_header_translated by (eapply read_exact_len; exact E).
  destruct (t_decrypt_client_header h buf) as [[h' a]|e|]; [reflexivity|destruct e|reflexivity].
Qed.
Lemma tbc_write_server_translated : forall h w size opcode,
  tr_tbc_write_encrypted_server_header (fun h d => nview (T.encrypt h d)) h ([], w) size opcode = wview (t_write_encrypted_server_header h w size opcode).
Proof.
  intros. unfold tr_tbc_write_encrypted_server_header, t_write_encrypted_server_header, write_after.
  rewrite tbc_encrypt_server_header_translated.
  destruct (T.encrypt_server_header h size opcode) as [[h' buf]|e|]; [|destruct e|reflexivity]. cbn [nview].
  rewrite io_write_all_nil. destruct (write_all buf w) as [[got w'] [u|kd|]]; reflexivity.
Qed.
Lemma tbc_write_client_translated : forall h w size opcode,
  tr_tbc_write_encrypted_client_header (fun h d => nview (T.encrypt h d)) h ([], w) size opcode = wview (t_write_encrypted_client_header h w size opcode).
Proof.
  intros. unfold tr_tbc_write_encrypted_client_header, t_write_encrypted_client_header, write_after.
  rewrite tbc_encrypt_client_header_translated.
  destruct (T.encrypt_client_header h size opcode) as [[h' buf]|e|]; [|destruct e|reflexivity]. cbn [nview].
  rewrite io_write_all_nil. destruct (write_all buf w) as [[got w'] [u|kd|]]; reflexivity.
Qed.
