(* src/integrity.rs: the six functions translated from the Rust source on this run (HMAC-SHA1 objects with
   their update sequences, the SHA-1 chain of finalise) are the model's functions. *)
From Coq Require Import List NArith.
From WS Require Import lib.Bytes lib.Res lib.Sha1 lib.Hmac lib.StepLoop Consts Steps model.Integrity proofs.Integrity.
Import ListNotations.
Local Open Scope N_scope.

Lemma integrity_finalise_translated : forall seed cs, tr_integrity_finalise seed cs = Some (finalise seed cs).
Proof. reflexivity. Qed.
Lemma integrity_checksum_translated : forall seed f1 f2 f3 f4 f5,
  tr_integrity_checksum seed f1 f2 f3 f4 f5 = Some (checksum seed f1 f2 f3 f4 f5).
Proof. reflexivity. Qed.
Lemma integrity_login_generic_translated : forall files salt key,
  tr_integrity_login_generic files salt key = Some (login_integrity_check_generic files salt key).
Proof. reflexivity. Qed.
Lemma integrity_login_windows_translated : forall f1 f2 f3 f4 f5 salt key,
  tr_integrity_login_windows f1 f2 f3 f4 f5 salt key = Some (login_integrity_check_windows f1 f2 f3 f4 f5 salt key).
Proof. reflexivity. Qed.
Lemma integrity_login_mac_translated : forall f1 f2 f3 f4 f5 salt key,
  tr_integrity_login_mac f1 f2 f3 f4 f5 salt key = Some (login_integrity_check_mac f1 f2 f3 f4 f5 salt key).
Proof. reflexivity. Qed.
Lemma integrity_reconnect_translated : forall salt, tr_integrity_reconnect salt = Some (reconnect_integrity_check salt).
Proof. reflexivity. Qed.

(* property level, about the translated functions *)
Theorem integrity_source_values : forall f1 f2 f3 f4 f5 salt key,
  tr_integrity_login_windows f1 f2 f3 f4 f5 salt key = Some (sha1 (key ++ hmac_sha1 salt (f1 ++ f2 ++ f3 ++ f4 ++ f5))) /\
  tr_integrity_login_mac f1 f2 f3 f4 f5 salt key = Some (sha1 (key ++ hmac_sha1 salt (f1 ++ f2 ++ f3 ++ f4 ++ f5))) /\
  tr_integrity_login_generic (f1 ++ f2 ++ f3 ++ f4 ++ f5) salt key = Some (sha1 (key ++ hmac_sha1 salt (f1 ++ f2 ++ f3 ++ f4 ++ f5))).
Proof.
  intros f1 f2 f3 f4 f5 salt key. split; [|split].
  - rewrite integrity_login_windows_translated. f_equal; apply windows_spec.
  - rewrite integrity_login_mac_translated. f_equal; apply mac_spec.
  - rewrite integrity_login_generic_translated. f_equal; apply generic_spec.
Qed.

Theorem integrity_source_reconnect : forall salt, tr_integrity_reconnect salt = Some (sha1 (salt ++ repeat 0 20)).
Proof. intros salt. rewrite integrity_reconnect_translated. f_equal; apply reconnect_spec. Qed.
