(* Matrix card, cryptographic part: MatrixCardVerifier::{new, enter_value, into_proof} and
   verify_matrix_card_hash translated from src/matrix_card.rs on this run (MD5 context, HMAC-SHA1 object,
   Rc4::new and the keystream loop as translated, the coordinate generator and the two lookups as
   translated) are the model's functions. *)
From Coq Require Import List NArith Lia ZifyBool ZifyN ZifyNat.
From WS Require Import lib.Bytes lib.Res lib.Md5 lib.Hmac lib.StepLoop Consts Steps model.Arr model.Rc4 model.MatrixCard model.MatrixProof
  proofs.steps.Common proofs.steps.Rc4 proofs.steps.Matrix.
Import ListNotations.
Local Open Scope N_scope.

Definition ver_view (v : verifier) :=
  (v_count v, v_height v, v_width v, v_coordinates v, (v_hmac_key v, v_hmac_msg v), rc4_triple (v_rc4 v)).

Lemma matrix_verifier_new_translated : forall cc h seed w sk,
  tr_matrix_verifier_new cc h seed w sk = match verifier_new cc h seed w sk with Ok v => Some (ver_view v) | _ => None end.
Proof.
  intros. unfold tr_matrix_verifier_new, verifier_new. rewrite matrix_generate_coordinates_translated.
  destruct (generate_coordinates w h cc seed) as [cs|e|]; [|destruct e|reflexivity]. cbn [Matrix.res_opt bind].
  cbv zeta. cbn [app]. change (N_to_le 8 seed) with (le64 seed).
  rewrite rc4_new_translated. destruct (rc4_new _) as [r|e|]; [reflexivity|destruct e|reflexivity].
Qed.

Lemma matrix_enter_value_translated : forall v value,
  tr_matrix_enter_value (v_count v) (v_height v) (v_width v) (v_coordinates v) (v_hmac_key v, v_hmac_msg v) (rc4_triple (v_rc4 v)) value
  = match enter_value v value with Ok v' => Some (ver_view v', tt) | _ => None end.
Proof.
  intros v value. unfold tr_matrix_enter_value, enter_value. cbv zeta.
  rewrite rc4_apply_keystream_translated.
  destruct (apply_keystream (v_rc4 v) [value]) as [[r out]|e|]; [reflexivity|destruct e|reflexivity].
Qed.

Lemma matrix_into_proof_translated : forall v,
  tr_matrix_into_proof (v_count v) (v_height v) (v_width v) (v_coordinates v) (v_hmac_key v, v_hmac_msg v) (rc4_triple (v_rc4 v))
  = Some (into_proof v).
Proof. reflexivity. Qed.

(* ---- the coordinates are bytes whenever the generator returns ---- *)
Lemma set_nth_Forall : forall (P : N -> Prop) n v l l', set_nth n v l = Some l' -> P v -> Forall P l -> Forall P l'.
Proof.
  intros P n v l. revert n. induction l as [|x r IH]; intros [|n] l' H Hv Hl; cbn [set_nth] in H; try discriminate.
  - injection H as <-. inversion Hl; subst. constructor; assumption.
  - destruct (set_nth n v r) as [r'|] eqn:E; [|discriminate]. injection H as <-. inversion Hl; subst.
    constructor; [assumption|]. eapply IH; eauto.
Qed.

Lemma nth_error_Forall : forall (P : N -> Prop) l n v, nth_error l n = Some v -> Forall P l -> P v.
Proof. intros P l n v H Hl. rewrite Forall_forall in Hl. apply Hl. eapply nth_error_In; eauto. Qed.

Lemma shift_left_Forall : forall (P : N -> Prop) n pos a a', shift_left n pos a = Some a' -> Forall P a -> Forall P a'.
Proof.
  intros P. induction n as [|n IH]; intros pos a a' H Ha; cbn [shift_left] in H.
  - injection H as <-. exact Ha.
  - destruct (nth_error a (S pos)) as [v|] eqn:E; [|discriminate].
    destruct (set_nth pos v a) as [a1|] eqn:E1; [|discriminate].
    eapply IH; [exact H|]. eapply set_nth_Forall; eauto. eapply nth_error_Forall; eauto.
Qed.

Lemma gen_loop_Forall : forall (P : N -> Prop) is ms seed idx coords cs,
  gen_loop is ms seed idx coords = Ok cs -> Forall P idx -> Forall P coords -> Forall P cs.
Proof.
  intros P. induction is as [|i rest IH]; intros ms seed idx coords cs H Hi Hc; cbn [gen_loop] in H.
  - injection H as <-. exact Hc.
  - destruct (ms <? i); [discriminate|]. destruct (ms - i =? 0); [discriminate|].
    destruct (nth_error idx _) as [v|] eqn:E; [|discriminate].
    destruct (set_nth (N.to_nat i) v coords) as [c1|] eqn:E1; [|discriminate].
    destruct (shift_left _ _ idx) as [i1|] eqn:E2; [|discriminate].
    eapply IH; [exact H| |].
    + eapply shift_left_Forall; eauto.
    + eapply set_nth_Forall; eauto. eapply nth_error_Forall; eauto.
Qed.

Lemma fill_loop_Forall : forall (P : N -> Prop) is v v', fill_loop is v = Some v' ->
  Forall (fun i => P (N.of_nat i)) is -> Forall P v -> Forall P v'.
Proof.
  intros P. induction is as [|i r IH]; intros v v' H Hi Hv; cbn [fill_loop] in H.
  - injection H as <-. exact Hv.
  - destruct (set_nth i (N.of_nat i) v) as [v1|] eqn:E; [|discriminate]. inversion Hi; subst.
    eapply IH; [exact H|assumption|]. eapply set_nth_Forall; eauto.
Qed.

Lemma generate_coordinates_bytes : forall w h cc seed cs,
  generate_coordinates w h cc seed = Ok cs -> Forall (fun c => c < 256) cs.
Proof.
  intros w h cc seed cs H. unfold generate_coordinates in H.
  destruct (255 <? w * h) eqn:E; [discriminate|].
  destruct (fill_loop _ _) as [idx|] eqn:Ef; [|discriminate].
  eapply gen_loop_Forall; [exact H| |].
  - eapply fill_loop_Forall; [exact Ef| |].
    + apply Forall_forall. intros i Hi. apply in_seq in Hi. lia.
    + apply Forall_forall. intros x Hx. apply repeat_spec in Hx. subst. lia.
  - apply Forall_forall. intros x Hx. apply repeat_spec in Hx. subst. lia.
Qed.

(* ---- the two loops of verify_matrix_card_hash ---- *)
Definition enter_body : (N * N * N * list N * (list N * list N) * (list N * N * N)) -> N ->
  option (bool + (N * N * N * list N * (list N * list N) * (list N * N * N))) :=
  fun v_v v_digit =>
  match (let '(f11, f12, f13, f14, f15, f16) := v_v in tr_matrix_enter_value f11 f12 f13 f14 f15 f16 v_digit) with None => None | Some (v_v, _) =>
  Some (inr v_v) end.

Lemma enter_values_loop : forall ds v,
  for_loop enter_body (ver_view v) ds = match enter_values v ds with Ok v' => Some (inr (ver_view v')) | _ => None end.
Proof.
  induction ds as [|d ds IH]; intros v; [reflexivity|].
  cbn [for_loop enter_values]. unfold enter_body at 1, ver_view at 1. rewrite matrix_enter_value_translated.
  destruct (enter_value v d) as [v'|e|]; [|destruct e|reflexivity]. cbn [bind]. apply IH.
Qed.

Lemma enter_value_fields : forall v d v', enter_value v d = Ok v' ->
  v_count v' = v_count v /\ v_height v' = v_height v /\ v_width v' = v_width v /\ v_coordinates v' = v_coordinates v.
Proof.
  intros v d v' H. unfold enter_value in H. destruct (apply_keystream _ _) as [[r out]|e|]; [|destruct e|discriminate].
  cbn [bind] in H. injection H as <-. repeat split.
Qed.
Lemma enter_values_fields : forall ds v v', enter_values v ds = Ok v' ->
  v_count v' = v_count v /\ v_height v' = v_height v /\ v_width v' = v_width v /\ v_coordinates v' = v_coordinates v.
Proof.
  induction ds as [|d ds IH]; intros v v' H; cbn [enter_values] in H.
  - injection H as <-. repeat split.
  - destruct (enter_value v d) as [v1|e|] eqn:E; [|destruct e|discriminate]. cbn [bind] in H.
    destruct (IH _ _ H) as (A & B & C & D). destruct (enter_value_fields _ _ _ E) as (A' & B' & C' & D').
    repeat split; congruence.
Qed.

Definition round_body (d w h : N) (data : list N) :
  (N * N * N * list N * (list N * list N) * (list N * N * N)) -> N ->
  option (bool + (N * N * N * list N * (list N * list N) * (list N * N * N))) :=
  fun v_v v_round =>
  match (let '(f2, f3, f4, f5, f6, f7) := v_v in tr_matrix_get_matrix_coordinates f2 f3 f4 f5 v_round) with None => None | Some m8 =>
  match m8 with None => None | Some u9 =>
  let '(v_x, v_y) := u9 in
  match tr_matrix_get_number_at_coordinates d w h data v_x v_y with None => None | Some p10 =>
  match for_loop enter_body v_v p10 with
  | None => None
  | Some (inl r_early) => Some (inl r_early)
  | Some (inr v_v) =>
  Some (inr v_v) end end end end.

Lemma verify_rounds_loop : forall c rounds v,
  c_digits c < 256 -> c_width c < 256 -> v_width v = c_width c -> Forall (fun x => x < 256) (v_coordinates v) ->
  for_loop (round_body (c_digits c) (c_width c) (c_height c) (c_data c)) (ver_view v) rounds
  = match verify_rounds c v rounds with Ok v' => Some (inr (ver_view v')) | _ => None end.
Proof.
  intros c rounds. induction rounds as [|round rest IH]; intros v Hd Hw Hvw Hcs; [reflexivity|].
  cbn [for_loop verify_rounds]. unfold round_body at 1, ver_view at 1.
  rewrite matrix_get_matrix_coordinates_translated. unfold v_get_matrix_coordinates.
  destruct (get_matrix_coordinates (v_count v) (v_width v) (v_height v) (v_coordinates v) round) as [[[x y]|]|e|] eqn:Eg;
    [|reflexivity|destruct e|reflexivity].
  cbn [Matrix.res_opt bind].
  assert (Hxy : x < 256 /\ y < 256).
  { unfold get_matrix_coordinates in Eg. destruct (v_count v <=? round); [discriminate|].
    destruct (nth_error (v_coordinates v) (N.to_nat round)) as [coord|] eqn:En; [|discriminate].
    destruct (v_width v =? 0) eqn:E0; [discriminate|].
    destruct (v_height v <=? coord / v_width v); [discriminate|]. injection Eg as <- <-.
    pose proof (nth_error_Forall _ _ _ _ En Hcs) as Hc. cbv beta in Hc.
    assert (v_width v <> 0) by lia.
    split; [pose proof (N.mod_lt coord (v_width v) ltac:(assumption)); lia|].
    pose proof (N.div_le_upper_bound coord (v_width v) coord ltac:(assumption) ltac:(nia)). lia. }
  destruct Hxy as [Hx Hy].
  rewrite matrix_get_number_at_coordinates_translated by assumption.
  destruct (get_number_at_coordinates c x y) as [cell|e|]; [|destruct e|reflexivity]. cbn [Matrix.res_opt bind].
  change (v_count v, v_height v, v_width v, v_coordinates v, (v_hmac_key v, v_hmac_msg v), rc4_triple (v_rc4 v)) with (ver_view v).
  rewrite enter_values_loop.
  destruct (enter_values v cell) as [v'|e|] eqn:Ee; [|destruct e|reflexivity]. cbn [bind].
  destruct (enter_values_fields _ _ _ Ee) as (_ & _ & Hw' & Hc').
  apply IH; [assumption|assumption|congruence|rewrite Hc'; assumption].
Qed.

(* the fields a fresh verifier gets.  Rc4::new on the MD5 digest is never case-analysed in place: an
   inversion lemma over an arbitrary first component is applied instead, so that the kernel is not led to
   compare the key schedule by computation *)
Lemma bind_ok_inv : forall {A B E} (x : res A E) (f : A -> res B E) y, bind x f = Ok y -> exists a, x = Ok a /\ f a = Ok y.
Proof. intros A B E [a|e|] f y H; cbn [bind] in H; try discriminate. exists a. split; [reflexivity|exact H]. Qed.

Lemma verifier_new_fields : forall cc h seed w sk v, verifier_new cc h seed w sk = Ok v ->
  v_width v = w /\ Forall (fun x => x < 256) (v_coordinates v).
Proof.
  intros cc h seed w sk v H. unfold verifier_new in H.
  apply bind_ok_inv in H. destruct H as (cs & Eg & H).
  cbv zeta in H. apply bind_ok_inv in H. destruct H as (r & _ & H).
  assert (Hw : v_width v = w) by (rewrite <- (f_equal (fun x => match x with Ok v0 => v_width v0 | _ => w end) H); reflexivity).
  assert (Hc : v_coordinates v = cs) by (rewrite <- (f_equal (fun x => match x with Ok v0 => v_coordinates v0 | _ => cs end) H); reflexivity).
  split; [exact Hw|]. rewrite Hc. eapply generate_coordinates_bytes; eauto.
Qed.

Lemma matrix_verify_matrix_card_hash_translated : forall c cc seed sk proof,
  c_digits c < 256 -> c_width c < 256 ->
  tr_matrix_verify_matrix_card_hash (c_digits c) (c_width c) (c_height c) (c_data c) cc seed sk proof
  = Matrix.res_opt (verify_matrix_card_hash c cc seed sk proof).
Proof.
  intros c cc seed sk proof Hd Hw. unfold tr_matrix_verify_matrix_card_hash, verify_matrix_card_hash.
  rewrite matrix_verifier_new_translated.
  destruct (verifier_new cc (c_height c) seed (c_width c) sk) as [v|e|] eqn:Ev; [|destruct e|reflexivity].
  cbn [bind]. cbv zeta.
  match goal with |- context [for_loop ?f (ver_view v) ?l] =>
    change (for_loop f (ver_view v) l) with (for_loop (round_body (c_digits c) (c_width c) (c_height c) (c_data c)) (ver_view v) l) end.
  destruct (verifier_new_fields _ _ _ _ _ _ Ev) as [Hvw Hcs].
  assert (R : range_list 0 cc = rounds_of cc).
  { unfold range_list, rounds_of. rewrite N.sub_0_r. apply map_ext. intro k. lia. }
  rewrite R, (verify_rounds_loop c (rounds_of cc) v Hd Hw Hvw Hcs).
  destruct (verify_rounds c v (rounds_of cc)) as [v'|e|]; [|destruct e|reflexivity]. cbn [bind].
  unfold ver_view. cbv beta iota. rewrite matrix_into_proof_translated. reflexivity.
Qed.
