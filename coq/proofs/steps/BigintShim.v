(* src/bigint.rs - the only place where the crate calls a big-integer library - as TRANSLATED on this run for both
   back ends (coq/BigintShim.v, tools/extract_bigint.py: which library function each wrapper calls, on which
   arguments, under which condition) is the model of model/Bigint.v that every SRP formula and every theorem of
   C01..C05, C19 is stated over.  The library calls themselves are the modelled dependencies of model/BigLib.v. *)
From Coq Require Import List ZArith NArith Bool Lia.
From WS Require Import lib.Bytes lib.Res model.Bigint model.BigLib BigintShim.
Import ListNotations.
Local Open Scope Z_scope.

Definition be_pick {A} (be : backend) (d f : A) : A := match be with Default => d | Fast => f end.

Lemma bigint_modpow_translated : forall b e m,
  tr_bigint_modpow_default b e m = modpow Default b e m /\ tr_bigint_modpow_fast b e m = modpow Fast b e m.
Proof.
  intros b e m. split.
  - unfold tr_bigint_modpow_default, nb_modpow, modpow. destruct ((m =? 0) || (e <? 0)); reflexivity.
  - unfold tr_bigint_modpow_fast, modpow, lib_cmp0, gmp_pow_mod, gmp_secure_pow_mod, pow_mod_unwrap, lib_unwrap, Z.leb.
    destruct (e ?= 0) eqn:C; cbn [comparison_eqb negb orb].
    + apply Z.compare_eq_iff in C. subst e. destruct (m =? 0); reflexivity.
    + assert (E : (e <? 0) = true) by (unfold Z.ltb; rewrite C; reflexivity). rewrite E.
      destruct (m =? 0); cbn [orb]; reflexivity.
    + assert (E : (e <? 0) = false) by (unfold Z.ltb; rewrite C; reflexivity). rewrite E.
      destruct (Z.even m); [destruct (m =? 0); reflexivity | reflexivity].
Qed.

Lemma bigint_bytes_translated : forall be z v,
  be_pick be (tr_bigint_to_bytes_le_default z) (tr_bigint_to_bytes_le_fast z) = Ok (to_bytes_le be z) /\
  be_pick be (tr_bigint_from_bytes_le_default v) (tr_bigint_from_bytes_le_fast v) = Ok (from_bytes_le v).
Proof.
  intros be z v. destruct be; split; try reflexivity.
Qed.

Lemma bigint_zero_tests_translated : forall be z n,
  be_pick be (tr_bigint_is_zero_default z) (tr_bigint_is_zero_fast z) = Ok (is_zero z) /\
  be_pick be (tr_bigint_mod_large_safe_prime_is_zero_default z n) (tr_bigint_mod_large_safe_prime_is_zero_fast z n)
    = match rem z n with Ok r => Ok (is_zero r) | Err e => Err e | Panic => Panic end.
Proof. intros be z n. destruct be; split; reflexivity. Qed.

Lemma bigint_arith_translated : forall be a b (v : N) z,
  be_pick be (tr_bigint_mul_default a b) (tr_bigint_mul_fast a b) = Ok (a * b) /\
  be_pick be (tr_bigint_add_default a b) (tr_bigint_add_fast a b) = Ok (a + b) /\
  be_pick be (tr_bigint_sub_default a b) (tr_bigint_sub_fast a b) = Ok (a - b) /\
  be_pick be (tr_bigint_rem_default a b) (tr_bigint_rem_fast a b) = rem a b /\
  be_pick be (tr_bigint_from_u8_default v) (tr_bigint_from_u8_fast v) = Ok (Z.of_N v) /\
  be_pick be (tr_bigint_from_bigint_default z) (tr_bigint_from_bigint_fast z) = Ok z.
Proof.
  intros be a b v z. destruct be; repeat split; try reflexivity;
    unfold tr_bigint_rem_default, tr_bigint_rem_fast, lib_rem, rem; destruct (b =? 0); reflexivity.
Qed.
