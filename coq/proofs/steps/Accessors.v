(* The accessors of the typestate objects (src/server.rs, src/client.rs), translated from the source on this
   run, return the field the model's record projections name: what a caller stores in the database
   (username / verifier / salt), sends on the wire (B, salt, M1, A) and uses as the session key. *)
From Coq Require Import List NArith.
From WS Require Import lib.Bytes lib.Res Consts Steps model.Bigint model.Srp model.Server model.Client.
Import ListNotations.

Lemma verifier_accessors_translated : forall vf,
  tr_server_acc_username (vf_user vf) (vf_v vf) (vf_salt vf) = Some (username_of vf) /\
  tr_server_acc_password_verifier (vf_user vf) (vf_v vf) (vf_salt vf) = Some (password_verifier_of vf) /\
  tr_server_acc_salt (vf_user vf) (vf_v vf) (vf_salt vf) = Some (salt_of vf).
Proof. intros vf. repeat split. Qed.

Lemma proof_accessors_translated : forall p,
  tr_server_acc_server_public_key (pr_user p) (pr_B p) (pr_salt p) (pr_b p) (pr_v p) = Some (pr_B p) /\
  tr_server_acc_proof_salt (pr_user p) (pr_B p) (pr_salt p) (pr_b p) (pr_v p) = Some (pr_salt p).
Proof. intros p. repeat split. Qed.

Lemma server_accessors_translated : forall s,
  tr_server_acc_session_key (ss_user s) (ss_K s) (ss_chal s) = Some (ss_K s) /\
  tr_server_acc_reconnect_challenge_data (ss_user s) (ss_K s) (ss_chal s) = Some (ss_chal s).
Proof. intros s. repeat split. Qed.

Lemma client_accessors_translated : forall c cl,
  tr_client_acc_session_key (sc_user cl) (sc_K cl) = Some (sc_K cl) /\
  tr_client_acc_client_proof (cc_user c) (cc_M1 c) (cc_A c) (cc_K c) = Some (cc_M1 c) /\
  tr_client_acc_client_public_key (cc_user c) (cc_M1 c) (cc_A c) (cc_K c) = Some (cc_A c).
Proof. intros c cl. repeat split. Qed.

(* ---- ProofSeed::seed, the MatrixCard accessors, LargeSafePrime / Generator wrappers (src/primes.rs) ---- *)
From WS Require model.MatrixCard.
Lemma small_accessors_translated : forall seed (c : model.MatrixCard.card) p g,
  tr_vanilla_proof_seed_seed seed = Some seed /\ tr_tbc_proof_seed_seed seed = Some seed /\ tr_wrath_proof_seed_seed seed = Some seed /\
  tr_matrix_acc_data (MatrixCard.c_digits c) (MatrixCard.c_width c) (MatrixCard.c_height c) (MatrixCard.c_data c) = Some (MatrixCard.c_data c) /\
  tr_matrix_acc_width (MatrixCard.c_digits c) (MatrixCard.c_width c) (MatrixCard.c_height c) (MatrixCard.c_data c) = Some (MatrixCard.c_width c) /\
  tr_matrix_acc_height (MatrixCard.c_digits c) (MatrixCard.c_width c) (MatrixCard.c_height c) (MatrixCard.c_data c) = Some (MatrixCard.c_height c) /\
  tr_matrix_acc_digit_count (MatrixCard.c_digits c) (MatrixCard.c_width c) (MatrixCard.c_height c) (MatrixCard.c_data c) = Some (MatrixCard.c_digits c) /\
  tr_primes_lsp_default = Some n_le /\ tr_primes_lsp_from_le_bytes p = Some p /\ tr_primes_lsp_as_le_bytes p = Some p /\
  tr_primes_generator_default = Some generator /\ tr_primes_generator_as_u8 g = Some g /\ tr_primes_generator_from g = Some g.
Proof. intros. repeat split. Qed.
