(* The accessors of the typestate objects (src/server.rs, src/client.rs), translated from the source on this
   run, return the field the model's record projections name: what a caller stores in the database
   (username / verifier / salt), sends on the wire (B, salt, M1, A) and uses as the session key. *)
From Coq Require Import List NArith.
From WS Require Import lib.Bytes lib.Res Consts Steps model.Bigint model.Srp model.Server model.Client.
Import ListNotations.

Lemma verifier_accessors_translated : forall vf,
  tr_server_acc_username (vf_user vf) (vf_v vf) (vf_salt vf) = Some (username_of vf) /\
  tr_server_acc_password_verifier (vf_user vf) (vf_v vf) (vf_salt vf) = Some (password_verifier_of vf) /\
  tr_server_acc_salt (vf_user vf) (vf_v vf) (vf_salt vf) = Some (salt_of vf).
Proof. intros vf. repeat split. Qed.

Lemma proof_accessors_translated : forall p,
  tr_server_acc_server_public_key (pr_user p) (pr_B p) (pr_salt p) (pr_b p) (pr_v p) = Some (pr_B p) /\
  tr_server_acc_proof_salt (pr_user p) (pr_B p) (pr_salt p) (pr_b p) (pr_v p) = Some (pr_salt p).
Proof. intros p. repeat split. Qed.

Lemma server_accessors_translated : forall s,
  tr_server_acc_session_key (ss_user s) (ss_K s) (ss_chal s) = Some (ss_K s) /\
  tr_server_acc_reconnect_challenge_data (ss_user s) (ss_K s) (ss_chal s) = Some (ss_chal s).
Proof. intros s. repeat split. Qed.

Lemma client_accessors_translated : forall c cl,
  tr_client_acc_session_key (sc_user cl) (sc_K cl) = Some (sc_K cl) /\
  tr_client_acc_client_proof (cc_user c) (cc_M1 c) (cc_A c) (cc_K c) = Some (cc_M1 c) /\
  tr_client_acc_client_public_key (cc_user c) (cc_M1 c) (cc_A c) (cc_K c) = Some (cc_A c).
Proof. intros c cl. repeat split. Qed.
