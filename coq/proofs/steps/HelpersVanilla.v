(* Vanilla typed header helpers: translated body = model (see HelpersCommon.v). *)
From Coq Require Import List NArith Lia ZifyN ZifyBool ZifyNat.
From WS Require Import lib.Bytes lib.Res lib.StepLoop Consts Steps model.HeaderCipher model.HeaderIo proofs.steps.HelpersCommon.
From WS Require model.Vanilla model.Tbc.
Import ListNotations.
Local Open Scope N_scope.

(* ---- Vanilla ---- *)
Lemma vanilla_encrypt_server_header_translated : forall h size opcode,
  tr_vanilla_encrypt_server_header (fun h d => nview (V.encrypt h d)) h size opcode = nview (V.encrypt_server_header h size opcode).
Proof.
  intros. unfold tr_vanilla_encrypt_server_header, V.encrypt_server_header, V.server_header_bytes, be16, le16. nums.
  cbn [N_to_le rev app nth_error]. destruct (V.encrypt h _) as [[h' o]|e|]; [reflexivity|destruct e|reflexivity].
Qed.
Lemma vanilla_encrypt_client_header_translated : forall h size opcode,
  tr_vanilla_encrypt_client_header (fun h d => nview (V.encrypt h d)) h size opcode = nview (V.encrypt_client_header h size opcode).
Proof.
  intros. unfold tr_vanilla_encrypt_client_header, V.encrypt_client_header, V.client_header_bytes, be16, le32. nums.
  cbn [N_to_le rev app nth_error]. destruct (V.encrypt h _) as [[h' o]|e|]; [reflexivity|destruct e|reflexivity].
Qed.
Lemma vanilla_decrypt_server_header_translated : forall h data, length data = 4%nat ->
  tr_vanilla_decrypt_server_header (fun h d => nview (V.decrypt h d)) h data = nview (V.decrypt_server_header h data).
Proof.
  intros h data Hl. unfold tr_vanilla_decrypt_server_header, V.decrypt_server_header.
  destruct (V.decrypt h data) as [[h' o]|e|] eqn:E; [|destruct e|reflexivity]. cbn [nview].
  unfold V.decrypt in E. destruct (dec_loop _ _ _ data) as [[s o']|] eqn:E2; [|discriminate]. injection E as _ <-.
  pose proof (dec_loop_length _ _ _ _ _ _ E2) as L. rewrite Hl in L.
  destruct o' as [|b0 [|b1 [|b2 [|b3 [|]]]]]; try discriminate L.
  rewrite server_header_from_array_translated. destruct (V.server_header_from_array _); reflexivity.
Qed.
Lemma vanilla_decrypt_client_header_translated : forall h data, length data = 6%nat ->
  tr_vanilla_decrypt_client_header (fun h d => nview (V.decrypt h d)) h data = nview (V.decrypt_client_header h data).
Proof.
  intros h data Hl. unfold tr_vanilla_decrypt_client_header, V.decrypt_client_header.
  destruct (V.decrypt h data) as [[h' o]|e|] eqn:E; [|destruct e|reflexivity]. cbn [nview].
  unfold V.decrypt in E. destruct (dec_loop _ _ _ data) as [[s o']|] eqn:E2; [|discriminate]. injection E as _ <-.
  pose proof (dec_loop_length _ _ _ _ _ _ E2) as L. rewrite Hl in L.
  destruct o' as [|b0 [|b1 [|b2 [|b3 [|b4 [|b5 [|]]]]]]]; try discriminate L.
  rewrite client_header_from_array_translated. destruct (V.client_header_from_array _); reflexivity.
Qed.


(* HeaderCrypto::decrypt_client_header has a body of its own (it does not delegate to the half): translated from
   src/vanilla_header/mod.rs with the combined object's raw decrypt as the external call, it is the model's
   V.crypto_decrypt_client_header -- ONE raw decrypt of all six bytes, then big-endian size, little-endian opcode *)
Lemma vanilla_crypto_decrypt_client_header_translated : forall c data, length data = 6%nat ->
  tr_vanilla_crypto_decrypt_client_header (fun c d => nview (V.crypto_decrypt c d)) c data = nview (V.crypto_decrypt_client_header c data).
Proof.
  intros c data Hl. unfold tr_vanilla_crypto_decrypt_client_header, V.crypto_decrypt_client_header.
  destruct (V.crypto_decrypt c data) as [[c' o]|e|] eqn:E; [|destruct e|reflexivity]. cbn [nview].
  unfold V.crypto_decrypt in E. destruct (V.decrypt (V.cr_dec c) data) as [[d o']|e|] eqn:E1; [|destruct e|discriminate].
  injection E as _ <-.
  unfold V.decrypt in E1. destruct (dec_loop _ _ _ data) as [[s o'']|] eqn:E2; [|discriminate]. injection E1 as _ <-.
  pose proof (dec_loop_length _ _ _ _ _ _ E2) as L. rewrite Hl in L.
  destruct o'' as [|b0 [|b1 [|b2 [|b3 [|b4 [|b5 [|]]]]]]]; try discriminate L.
  nums. cbn [nth_error rev app le_to_N nview]. do 3 f_equal; lia.
Qed.
(* and it agrees with what the split-off half computes: the combined object and the half cannot drift apart *)
Lemma vanilla_crypto_decrypt_client_header_is_half : forall c data, length data = 6%nat ->
  V.crypto_decrypt_client_header c data
  = match V.decrypt_client_header (V.cr_dec c) data with
    | Ok (d, hd) => Ok ({| V.cr_dec := d; V.cr_enc := V.cr_enc c |}, hd) | Err e => Err e | Panic => Panic end.
Proof.
  intros c data Hl. unfold V.crypto_decrypt_client_header, V.decrypt_client_header, V.crypto_decrypt.
  destruct (V.decrypt (V.cr_dec c) data) as [[d o]|e|] eqn:E; [|destruct e|reflexivity].
  unfold V.decrypt in E. destruct (dec_loop _ _ _ data) as [[s o']|] eqn:E2; [|discriminate]. injection E as _ <-.
  pose proof (dec_loop_length _ _ _ _ _ _ E2) as L. rewrite Hl in L.
  destruct o' as [|b0 [|b1 [|b2 [|b3 [|b4 [|b5 [|]]]]]]]; try discriminate L.
  reflexivity.
Qed.
