(* Vanilla typed header helpers: translated body = model (see HelpersCommon.v). *)
From Coq Require Import List NArith Lia ZifyN ZifyBool ZifyNat.
From WS Require Import lib.Bytes lib.Res lib.StepLoop Consts Steps model.HeaderCipher model.HeaderIo proofs.steps.HelpersCommon.
From WS Require model.Vanilla model.Tbc.
Import ListNotations.
Local Open Scope N_scope.

(* ---- Vanilla ---- *)
Lemma vanilla_encrypt_server_header_translated : forall h size opcode,
  tr_vanilla_encrypt_server_header (fun h d => nview (V.encrypt h d)) h size opcode = nview (V.encrypt_server_header h size opcode).
Proof.
  intros. unfold tr_vanilla_encrypt_server_header, V.encrypt_server_header, V.server_header_bytes, be16, le16. nums.
  cbn [N_to_le rev app nth_error]. destruct (V.encrypt h _) as [[h' o]|e|]; [reflexivity|destruct e|reflexivity].
Qed.
Lemma vanilla_encrypt_client_header_translated : forall h size opcode,
  tr_vanilla_encrypt_client_header (fun h d => nview (V.encrypt h d)) h size opcode = nview (V.encrypt_client_header h size opcode).
Proof.
  intros. unfold tr_vanilla_encrypt_client_header, V.encrypt_client_header, V.client_header_bytes, be16, le32. nums.
  cbn [N_to_le rev app nth_error]. destruct (V.encrypt h _) as [[h' o]|e|]; [reflexivity|destruct e|reflexivity].
Qed.
Lemma vanilla_decrypt_server_header_translated : forall h data, length data = 4%nat ->
  tr_vanilla_decrypt_server_header (fun h d => nview (V.decrypt h d)) h data = nview (V.decrypt_server_header h data).
Proof.
  intros h data Hl. unfold tr_vanilla_decrypt_server_header, V.decrypt_server_header.
  destruct (V.decrypt h data) as [[h' o]|e|] eqn:E; [|destruct e|reflexivity]. cbn [nview].
  unfold V.decrypt in E. destruct (dec_loop _ _ _ data) as [[s o']|] eqn:E2; [|discriminate]. injection E as _ <-.
  pose proof (dec_loop_length _ _ _ _ _ _ E2) as L. rewrite Hl in L.
  destruct o' as [|b0 [|b1 [|b2 [|b3 [|]]]]]; try discriminate L.
  rewrite server_header_from_array_translated. destruct (V.server_header_from_array _); reflexivity.
Qed.
Lemma vanilla_decrypt_client_header_translated : forall h data, length data = 6%nat ->
  tr_vanilla_decrypt_client_header (fun h d => nview (V.decrypt h d)) h data = nview (V.decrypt_client_header h data).
Proof.
  intros h data Hl. unfold tr_vanilla_decrypt_client_header, V.decrypt_client_header.
  destruct (V.decrypt h data) as [[h' o]|e|] eqn:E; [|destruct e|reflexivity]. cbn [nview].
  unfold V.decrypt in E. destruct (dec_loop _ _ _ data) as [[s o']|] eqn:E2; [|discriminate]. injection E as _ <-.
  pose proof (dec_loop_length _ _ _ _ _ _ E2) as L. rewrite Hl in L.
  destruct o' as [|b0 [|b1 [|b2 [|b3 [|b4 [|b5 [|]]]]]]]; try discriminate L.
  rewrite client_header_from_array_translated. destruct (V.client_header_from_array _); reflexivity.
Qed.

