(* TBC: the loop bodies translated from src/tbc_header/{encrypt,decrypt}.rs on this run, folded over
   the slice, are enc_loop / dec_loop of the model at key length PROOF_LENGTH. *)
From Coq Require Import List NArith Lia.
From WS Require Import lib.Bytes lib.Res lib.Calls lib.StepLoop Consts Steps spec.HeaderCipher model.HeaderCipher model.Tbc proofs.HeaderCipher proofs.Tbc proofs.steps.Common.
Import ListNotations.
Local Open Scope N_scope.

Lemma tbc_encrypt_translated : forall data key s,
  slice_loop (tr_tbc_encrypt_step key) (cst_pair s) data = loop_view (enc_loop proof_length key s data).
Proof.
  induction data as [|x r IH]; intros key s; [reflexivity|].
  cbn [slice_loop enc_loop]. unfold tr_tbc_encrypt_step at 1, cst_pair at 1.
  destruct (nth_error key (N.to_nat (c_idx s))) as [k|]; [|reflexivity].
  destruct (255 <? c_idx s + 1); [reflexivity|].
  destruct (proof_length =? 0); [reflexivity|].
  specialize (IH key {| c_idx := (c_idx s + 1) mod proof_length; c_prev := (N.lxor x k + c_prev s) mod 256 |}).
  unfold cst_pair at 1 in IH. cbn [c_idx c_prev] in IH. rewrite IH.
  destruct (enc_loop _ _ _ r) as [[s' out]|]; reflexivity.
Qed.

Lemma tbc_decrypt_translated : forall data key s,
  slice_loop (tr_tbc_decrypt_step key) (cst_pair s) data = loop_view (dec_loop proof_length key s data).
Proof.
  induction data as [|y r IH]; intros key s; [reflexivity|].
  cbn [slice_loop dec_loop]. unfold tr_tbc_decrypt_step at 1, cst_pair at 1.
  destruct (nth_error key (N.to_nat (c_idx s))) as [k|]; [|reflexivity].
  destruct (255 <? c_idx s + 1); [reflexivity|].
  destruct (proof_length =? 0); [reflexivity|].
  specialize (IH key {| c_idx := (c_idx s + 1) mod proof_length; c_prev := y |}).
  unfold cst_pair at 1 in IH. cbn [c_idx c_prev] in IH. rewrite IH.
  destruct (dec_loop _ _ _ r) as [[s' out]|]; reflexivity.
Qed.


(* ---- the property-level statements, about the functions translated from the source ---- *)
Definition half_view (r : nres (half * list N)) : option ((N * N) * list N) :=
  match r with Ok (h, out) => Some (cst_pair (h_st h), out) | _ => None end.

Lemma tbc_source_enc_run : forall chunks k s,
  calls_loop (tr_tbc_encrypt_step k) (cst_pair s) chunks = half_view (run_calls encrypt {| h_key := k; h_st := s |} chunks).
Proof.
  induction chunks as [|c r IH]; intros k s; [reflexivity|].
  cbn [calls_loop run_calls]. rewrite tbc_encrypt_translated. unfold encrypt at 1. cbn [h_key h_st].
  destruct (enc_loop proof_length k s c) as [[s' o]|]; [|reflexivity].
  cbn [loop_view]. rewrite IH.
  destruct (run_calls encrypt {| h_key := k; h_st := s' |} r) as [[h' o']|e|]; [reflexivity|destruct e|reflexivity].
Qed.

Lemma tbc_source_dec_run : forall chunks k s,
  calls_loop (tr_tbc_decrypt_step k) (cst_pair s) chunks = half_view (run_calls decrypt {| h_key := k; h_st := s |} chunks).
Proof.
  induction chunks as [|c r IH]; intros k s; [reflexivity|].
  cbn [calls_loop run_calls]. rewrite tbc_decrypt_translated. unfold decrypt at 1. cbn [h_key h_st].
  destruct (dec_loop proof_length k s c) as [[s' o]|]; [|reflexivity].
  cbn [loop_view]. rewrite IH.
  destruct (run_calls decrypt {| h_key := k; h_st := s' |} r) as [[h' o']|e|]; [reflexivity|destruct e|reflexivity].
Qed.

(* the key both halves derive is HMAC-SHA1(seed, K); from there the translated loops follow the recurrence *)
Theorem tbc_source_enc_calls : forall K chunks,
  calls_loop (tr_tbc_encrypt_step (tbc_key K)) (0, 0) chunks =
  Some ((N.of_nat (length (concat chunks) mod 20), last (encrypt_stream (tbc_key K) (concat chunks)) 0),
        encrypt_stream (tbc_key K) (concat chunks)).
Proof.
  intros K chunks. destruct (enc_calls K chunks) as (h & Hn & Hr).
  change (0, 0) with (cst_pair {| c_idx := 0; c_prev := 0 |}). rewrite tbc_source_enc_run.
  assert (Hh : h = {| h_key := tbc_key K; h_st := {| c_idx := 0; c_prev := 0 |} |}).
  { destruct (new_spec K) as [E _]. rewrite E in Hn. injection Hn as <-. reflexivity. }
  rewrite <- Hh, Hr. reflexivity.
Qed.

Theorem tbc_source_dec_calls : forall K chunks,
  calls_loop (tr_tbc_decrypt_step (tbc_key K)) (0, 0) chunks =
  Some ((N.of_nat (length (concat chunks) mod 20), last (concat chunks) 0), decrypt_stream (tbc_key K) (concat chunks)).
Proof.
  intros K chunks. destruct (dec_calls K chunks) as (h & Hn & Hr).
  change (0, 0) with (cst_pair {| c_idx := 0; c_prev := 0 |}). rewrite tbc_source_dec_run.
  assert (Hh : h = {| h_key := tbc_key K; h_st := {| c_idx := 0; c_prev := 0 |} |}).
  { destruct (new_spec K) as [_ E]. rewrite E in Hn. injection Hn as <-. reflexivity. }
  rewrite <- Hh, Hr. reflexivity.
Qed.

(* ---- EncrypterHalf::encrypt / DecrypterHalf::decrypt: the methods themselves ---- *)
Definition thalf_full (r : nres (half * list N)) : option ((list N * N * N) * unit * list N) :=
  match r with Ok (h, out) => Some ((h_key h, c_idx (h_st h), c_prev (h_st h)), tt, out) | _ => None end.

Lemma tbc_half_encrypt_translated : forall h data,
  tr_tbc_half_encrypt (h_key h) (c_idx (h_st h)) (c_prev (h_st h)) data = thalf_full (encrypt h data).
Proof.
  intros h data. unfold tr_tbc_half_encrypt, encrypt.
  change (c_idx (h_st h), c_prev (h_st h)) with (cst_pair (h_st h)). rewrite tbc_encrypt_translated.
  destruct (enc_loop _ _ _ _) as [[s out]|]; reflexivity.
Qed.
Lemma tbc_half_decrypt_translated : forall h data,
  tr_tbc_half_decrypt (h_key h) (c_idx (h_st h)) (c_prev (h_st h)) data = thalf_full (decrypt h data).
Proof.
  intros h data. unfold tr_tbc_half_decrypt, decrypt.
  change (c_idx (h_st h), c_prev (h_st h)) with (cst_pair (h_st h)). rewrite tbc_decrypt_translated.
  destruct (dec_loop _ _ _ _) as [[s out]|]; reflexivity.
Qed.
