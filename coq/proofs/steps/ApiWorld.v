(* World login: the bodies of ProofSeed::into_client_header_crypto / into_server_header_crypto of the
   three expansion modules, translated from src/{vanilla,tbc,wrath}_header/mod.rs on this run, are
   the model's functions: which seed goes into which slot of the shared proof function, the
   comparison, the error payload, and which crypto object is built from the session key. *)
From Coq Require Import List NArith.
From WS Require Import lib.Bytes lib.Res lib.Tape lib.StepLoop Consts Steps model.Server model.WorldProof.
From WS Require model.Vanilla model.Tbc model.Wrath.
Import ListNotations.
Local Open Scope N_scope.

Definition client_view {C} (r : nres (list N * C)) : option (list N * C) := match r with Ok x => Some x | _ => None end.
Definition server_view {C} (r : res C match_err) : option (C + list N * list N) :=
  match r with Ok c => Some (inl c) | Err e => Some (inr (me_client_proof e, me_server_proof e)) | Panic => None end.

Lemma vanilla_into_client_translated : forall seed u K ss,
  tr_vanilla_into_client_header_crypto seed u K ss = client_view (vanilla_client seed u K ss).
Proof. reflexivity. Qed.
Lemma vanilla_into_server_translated : forall seed u K cp cs,
  tr_vanilla_into_server_header_crypto seed u K cp cs = server_view (vanilla_server seed u K cp cs).
Proof.
  intros. unfold tr_vanilla_into_server_header_crypto, vanilla_server, into_server_header_crypto, lift.
  destruct (negb (list_eqb _ cp)); reflexivity.
Qed.

Lemma tbc_into_client_translated : forall seed u K ss,
  tr_tbc_into_client_header_crypto seed u K ss = client_view (tbc_client seed u K ss).
Proof.
  intros. unfold tr_tbc_into_client_header_crypto, tbc_client, into_client_header_crypto.
  destruct (Tbc.crypto_new K) as [c|e|]; [reflexivity|destruct e|reflexivity].
Qed.
Lemma tbc_into_server_translated : forall seed u K cp cs,
  tr_tbc_into_server_header_crypto seed u K cp cs = server_view (tbc_server seed u K cp cs).
Proof.
  intros. unfold tr_tbc_into_server_header_crypto, tbc_server, into_server_header_crypto, lift.
  destruct (negb (list_eqb _ cp)); [reflexivity|].
  destruct (Tbc.crypto_new K) as [c|e|]; [reflexivity|destruct e|reflexivity].
Qed.

Lemma wrath_into_client_translated : forall seed u K ss,
  tr_wrath_into_client_header_crypto seed u K ss = client_view (wrath_client seed u K ss).
Proof.
  intros. unfold tr_wrath_into_client_header_crypto, wrath_client, into_client_header_crypto.
  destruct (Wrath.client_crypto_new K) as [c|e|]; [reflexivity|destruct e|reflexivity].
Qed.
Lemma wrath_into_server_translated : forall seed u K cp cs,
  tr_wrath_into_server_header_crypto seed u K cp cs = server_view (wrath_server seed u K cp cs).
Proof.
  intros. unfold tr_wrath_into_server_header_crypto, wrath_server, into_server_header_crypto, lift.
  destruct (negb (list_eqb _ cp)); [reflexivity|].
  destruct (Wrath.server_crypto_new K) as [c|e|]; [reflexivity|destruct e|reflexivity].
Qed.
