(* calculate_interleaved: the body translated from src/srp_internal.rs on this run (strip through the
   translated as_equal_slice, the two step_by(2) fills of 16-byte buffers, SHA-1 of their first len/2
   bytes, and the zip of the two digests into the 40-byte key) is the model's calculate_interleaved. *)
From Coq Require Import List NArith Arith Lia ZifyBool ZifyN ZifyNat.
From WS Require Import lib.Bytes lib.Res lib.Sha1 lib.StepLoop Consts Steps model.Bigint model.Key model.Srp proofs.steps.Key.
Import ListNotations.
Local Open Scope N_scope.

(* ---- list_set as a splice ---- *)
Lemma list_set_splice : forall (l : list N) k x, (k < length l)%nat ->
  list_set l k x = firstn k l ++ x :: skipn (S k) l.
Proof.
  induction l as [|a r IH]; intros [|k] x H; cbn [length] in H; try lia; cbn [list_set firstn skipn app]; [reflexivity|].
  rewrite IH by lia. reflexivity.
Qed.
Lemma list_set_length : forall (l : list N) k x, length (list_set l k x) = length l.
Proof. induction l as [|a r IH]; intros [|k] x; cbn; auto. Qed.

Lemma skipn_skipn : forall (A : Type) (a b : nat) (l : list A), skipn a (skipn b l) = skipn (b + a) l.
Proof. intros A a b. revert a. induction b as [|b IH]; intros a l; [reflexivity|]. destruct l; cbn [skipn Nat.add]; [now destruct a|apply IH]. Qed.

Lemma skipn_app_exact : forall (l1 l2 : list N) n, skipn (length l1 + n) (l1 ++ l2) = skipn n l2.
Proof. induction l1 as [|a l1 IH]; intros l2 n; [reflexivity|]. cbn [length Nat.add app skipn]. apply IH. Qed.
Lemma firstn_app_exact : forall (l1 l2 : list N) n, firstn (length l1 + n) (l1 ++ l2) = l1 ++ firstn n l2.
Proof. induction l1 as [|a l1 IH]; intros l2 n; [reflexivity|]. cbn [length Nat.add app firstn]. now rewrite IH. Qed.

(* ---- E[i] = e for (i, e) in xs.enumerate(): a prefix of the array is overwritten ---- *)
Definition fill_body := fun (arr : list N) '(i, x) =>
  if N.of_nat (length arr) <=? i then None else Some (inr (A := list N) (list_set arr (N.to_nat i) x)).

Lemma fill_loop_spec : forall xs k arr, (k <= length arr)%nat ->
  for_loop fill_body arr (enumerate_from (N.of_nat k) xs) =
  if (k + length xs <=? length arr)%nat then Some (inr (firstn k arr ++ xs ++ skipn (k + length xs) arr)) else None.
Proof.
  induction xs as [|x xs IH]; intros k arr Hk.
  - cbn [enumerate_from for_loop length app]. rewrite Nat.add_0_r.
    destruct (k <=? length arr)%nat eqn:E; [|apply Nat.leb_gt in E; lia]. now rewrite firstn_skipn.
  - cbn [enumerate_from for_loop length]. unfold fill_body at 1.
    destruct (N.of_nat (length arr) <=? N.of_nat k) eqn:E1.
    + destruct (k + S (length xs) <=? length arr)%nat eqn:E2; [apply Nat.leb_le in E2; lia | reflexivity].
    + assert (Hlt : (k < length arr)%nat) by lia. rewrite Nat2N.id.
      replace (N.of_nat k + 1) with (N.of_nat (S k)) by lia.
      rewrite IH by (rewrite list_set_length; lia). rewrite list_set_length.
      replace (S k + length xs)%nat with (k + S (length xs))%nat by lia.
      destruct (k + S (length xs) <=? length arr)%nat eqn:E2; [|reflexivity].
      apply Nat.leb_le in E2. f_equal. f_equal.
      rewrite (list_set_splice arr k x Hlt).
      assert (Lk : length (firstn k arr) = k) by (rewrite firstn_length; lia).
      remember (firstn k arr) as P eqn:EP. remember (skipn (S k) arr) as Q eqn:EQ.
      replace (S k) with (length P + 1)%nat by lia.
      rewrite firstn_app_exact. cbn [firstn].
      replace (k + S (length xs))%nat with (length P + S (length xs))%nat at 1 by lia.
      rewrite skipn_app_exact. cbn [skipn]. rewrite <- app_assoc. cbn [app].
      subst Q. rewrite skipn_skipn. replace (S k + length xs)%nat with (k + S (length xs))%nat by lia. reflexivity.
Qed.

Lemma skipn_repeat : forall n m (x : N), skipn n (repeat x m) = repeat x (m - n).
Proof. induction n as [|n IH]; intros [|m] x; cbn [skipn repeat Nat.sub]; auto. Qed.

Lemma fill16_translated : forall xs,
  for_loop fill_body (repeat 0 (N.to_nat (s_length / 2))) (enumerate_list xs)
  = match fill16 xs with Ok a => Some (inr a) | _ => None end.
Proof.
  intro xs. unfold enumerate_list. change 0 with (N.of_nat 0) at 2.
  rewrite fill_loop_spec by lia. rewrite repeat_length. cbn [Nat.add firstn app].
  unfold fill16. change (N.to_nat (s_length / 2)) with 16%nat. change (N.to_nat s_length / 2)%nat with 16%nat.
  destruct (length xs <=? 16)%nat eqn:E1; destruct (16 <? length xs)%nat eqn:E2; try lia; [|reflexivity].
  rewrite skipn_repeat. reflexivity.
Qed.

(* ---- step_by(2) ---- *)
Lemma step_by_fuel_step2 : forall f l, (length l <= f)%nat -> step_by_fuel f 2 l = step2 l.
Proof.
  induction f as [|f IH]; intros l H.
  - destruct l; [reflexivity|cbn in H; lia].
  - destruct l as [|a [|b r]]; cbn [step_by_fuel step2 skipn]; try reflexivity.
    + destruct f; reflexivity.
    + f_equal. apply IH. cbn in H. lia.
Qed.
Lemma step_by_list_step2 : forall l, step_by_list 2 l = step2 l.
Proof. intro l. apply step_by_fuel_step2. lia. Qed.

(* ---- result[2i] = g; result[2i+1] = h ---- *)
Definition flat (ps : list (N * N)) : list N := concat (map (fun p => [fst p; snd p]) ps).
Lemma zip_write_flat : forall g h, zip_write g h = flat (combine g h).
Proof. induction g as [|x g IH]; intros [|y h]; cbn; auto. now rewrite IH. Qed.
Lemma flat_length : forall ps, length (flat ps) = (2 * length ps)%nat.
Proof. induction ps as [|p ps IH]; cbn; [reflexivity|]. unfold flat in IH. rewrite IH. lia. Qed.

Lemma two_writes : forall (arr : list N) j g h, (S j < length arr)%nat ->
  list_set (list_set arr j g) (S j) h = firstn j arr ++ g :: h :: skipn (S (S j)) arr.
Proof.
  induction arr as [|a r IH]; intros j g h H; [cbn in H; lia|].
  destruct j as [|j].
  - destruct r as [|b r]; [cbn in H; lia|]. reflexivity.
  - cbn [list_set firstn app]. rewrite IH by (cbn in H; lia). reflexivity.
Qed.

Definition res_body := fun (v_result : list N) '(v_i, v_r) =>
  if 18446744073709551615 <? v_i * 2 then None else
  if N.of_nat (length v_result) <=? (v_i * 2) then None else
  let v_result := list_set v_result (N.to_nat (v_i * 2)) (fst (A := N) (B := N) v_r) in
  if 18446744073709551615 <? v_i * 2 then None else
  if 18446744073709551615 <? (v_i * 2) + 1 then None else
  if N.of_nat (length v_result) <=? ((v_i * 2) + 1) then None else
  let v_result := list_set v_result (N.to_nat ((v_i * 2) + 1)) (snd v_r) in
  Some (inr (A := list N) v_result).

Lemma res_loop_spec : forall ps k arr, (2 * k <= length arr)%nat -> N.of_nat (k + length ps) < 4611686018427387904 ->
  for_loop res_body arr (enumerate_from (N.of_nat k) ps) =
  if (2 * (k + length ps) <=? length arr)%nat
  then Some (inr (firstn (2 * k) arr ++ flat ps ++ skipn (2 * (k + length ps)) arr)) else None.
Proof.
  induction ps as [|[g h] ps IH]; intros k arr Hk Hb.
  - cbn [enumerate_from for_loop length flat map concat app]. rewrite Nat.add_0_r.
    destruct (2 * k <=? length arr)%nat eqn:E; [|apply Nat.leb_gt in E; lia]. now rewrite firstn_skipn.
  - cbn [enumerate_from for_loop length] in *. unfold res_body at 1. cbn [fst snd].
    destruct (18446744073709551615 <? N.of_nat k * 2) eqn:O1; [lia|].
    destruct (18446744073709551615 <? N.of_nat k * 2 + 1) eqn:O2; [lia|].
    replace (N.to_nat (N.of_nat k * 2)) with (2 * k)%nat by lia.
    replace (N.to_nat (N.of_nat k * 2 + 1)) with (S (2 * k)) by lia.
    destruct (N.of_nat (length arr) <=? N.of_nat k * 2) eqn:E1.
    { destruct (2 * (k + S (length ps)) <=? length arr)%nat eqn:E2; [apply Nat.leb_le in E2; lia|reflexivity]. }
    rewrite list_set_length.
    destruct (N.of_nat (length arr) <=? N.of_nat k * 2 + 1) eqn:E3.
    { destruct (2 * (k + S (length ps)) <=? length arr)%nat eqn:E2; [apply Nat.leb_le in E2; lia|reflexivity]. }
    assert (H1 : (2 * k < length arr)%nat) by lia. assert (H2 : (S (2 * k) < length arr)%nat) by lia.
    replace (N.of_nat k + 1) with (N.of_nat (S k)) by lia.
    rewrite IH by (rewrite ?list_set_length; lia). rewrite !list_set_length.
    replace (2 * (S k + length ps))%nat with (2 * (k + S (length ps)))%nat by lia.
    destruct (2 * (k + S (length ps)) <=? length arr)%nat eqn:E2; [|reflexivity].
    apply Nat.leb_le in E2. f_equal. f_equal.
    rewrite (two_writes arr (2 * k) g h H2).
    assert (Lk : length (firstn (2 * k) arr) = (2 * k)%nat) by (rewrite firstn_length; lia).
    remember (firstn (2 * k) arr) as P eqn:EP. remember (skipn (S (S (2 * k))) arr) as Q eqn:EQ.
    replace (2 * S k)%nat with (length P + 2)%nat by lia.
    rewrite firstn_app_exact. cbn [firstn].
    replace (2 * (k + S (length ps)))%nat with (length P + S (S (2 * length ps)))%nat at 1 by lia.
    rewrite skipn_app_exact. cbn [skipn].
    unfold flat. cbn [map concat fst snd app]. rewrite <- !app_assoc. cbn [app].
    subst Q. rewrite skipn_skipn.
    replace (S (S (2 * k)) + 2 * length ps)%nat with (2 * (k + S (length ps)))%nat by lia. reflexivity.
Qed.


Definition nres_opt {A} (r : nres A) : option A := match r with Ok a => Some a | _ => None end.

Lemma fill16_length : forall xs a, fill16 xs = Ok a -> length a = 16%nat.
Proof.
  intros xs a H. unfold fill16 in H. change (N.to_nat s_length / 2)%nat with 16%nat in H.
  destruct (16 <? length xs)%nat eqn:E; [discriminate|].
  assert (Ha : xs ++ repeat 0 (16 - length xs) = a) by congruence. rewrite <- Ha.
  rewrite app_length, repeat_length. apply Nat.ltb_ge in E. lia.
Qed.

Lemma as_equal_slice_length : forall S s, as_equal_slice S = Ok s -> (length s <= length S)%nat.
Proof.
  intros S s H. unfold as_equal_slice in H.
  destruct (length S <? _)%nat; [discriminate|]. injection H as <-. rewrite skipn_length. apply Nat.le_sub_l.
Qed.

Lemma half_len : forall n : nat, N.to_nat (N.of_nat n / 2 - 0) = (n / 2)%nat.
Proof. intro n. rewrite N.sub_0_r, N2Nat.inj_div, Nat2N.id. reflexivity. Qed.

Lemma calculate_interleaved_translated : forall S : list N, length S = 32%nat ->
  tr_srp_calculate_interleaved S = nres_opt (calculate_interleaved S).
Proof.
  intros S HS. unfold tr_srp_calculate_interleaved, calculate_interleaved.
  rewrite (skey_as_equal_slice_translated_32 S HS).
  destruct (as_equal_slice S) as [s|e|] eqn:Es; [|destruct e|reflexivity]. cbn [res_view bind].
  pose proof (as_equal_slice_length S s Es) as Hs. rewrite HS in Hs.
  change (2 =? 0) with false. cbv iota.
  rewrite !step_by_list_step2. change (N.to_nat 1) with 1%nat. change (skipn 1 s) with (tl s).
  change (N.to_nat 0) with 0%nat. cbn [skipn]. rewrite !half_len.
  (* E *)
  match goal with |- context [for_loop ?b ?a (enumerate_list (step2 s))] =>
    change (for_loop b a (enumerate_list (step2 s))) with (for_loop fill_body a (enumerate_list (step2 s))) end.
  rewrite (fill16_translated (step2 s)).
  destruct (fill16 (step2 s)) as [E'|e'|] eqn:EE; [|destruct e'|reflexivity]. cbn [bind].
  rewrite (fill16_length _ _ EE).
  destruct (N.of_nat 16 <? N.of_nat (length s) / 2) eqn:C1; [lia|].
  destruct (N.of_nat (length s) / 2 <? 0) eqn:C2; [lia|].
  (* F *)
  match goal with |- context [for_loop ?b ?a (enumerate_list (step2 (tl s)))] =>
    change (for_loop b a (enumerate_list (step2 (tl s)))) with (for_loop fill_body a (enumerate_list (step2 (tl s)))) end.
  rewrite (fill16_translated (step2 (tl s))).
  destruct (fill16 (step2 (tl s))) as [F'|e'|] eqn:EF; [|destruct e'|reflexivity]. cbn [bind].
  rewrite (fill16_length _ _ EF). rewrite C1.
  (* result *)
  set (G := sha1 (firstn (length s / 2) E')). set (H := sha1 (firstn (length s / 2) F')).
  match goal with |- context [for_loop ?b ?a (enumerate_list (combine G H))] =>
    change (for_loop b a (enumerate_list (combine G H))) with (for_loop res_body a (enumerate_list (combine G H))) end.
  unfold enumerate_list. change (enumerate_from 0 (combine G H)) with (enumerate_from (N.of_nat 0) (combine G H)).
  assert (LG : length G = 20%nat) by apply sha1_length. assert (LH : length H = 20%nat) by apply sha1_length.
  assert (LC : length (combine G H) = 20%nat) by (rewrite combine_length, LG, LH; reflexivity).
  rewrite res_loop_spec by (rewrite ?repeat_length, ?LC; cbn; lia).
  rewrite repeat_length, LC. change (N.to_nat session_key_length) with 40%nat.
  change (2 * (0 + 20) <=? 40)%nat with true. cbv iota. cbn [firstn app Nat.mul Nat.add].
  rewrite zip_write_flat. rewrite flat_length, LC. change (40 <? 2 * 20)%nat with false. cbv iota.
  cbn [nres_opt]. rewrite skipn_repeat. reflexivity.
Qed.

(* property level, about the translated function: the session key is the RFC 2945 SHA-1 interleave of
   the secret after the WoW strip, for every 32-byte secret (every count of low-order zero bytes) *)
From WS Require Import spec.Srp6 proofs.Srp.
Theorem interleave_source_spec : forall S : list N, length S = 32%nat ->
  tr_srp_calculate_interleaved S = Some (interleave (strip S)).
Proof. intros S H. rewrite calculate_interleaved_translated by exact H. rewrite (calculate_interleaved_spec S H). reflexivity. Qed.

(* ---- calculate_u and calculate_session_key, translated, are the model's functions ---- *)
From WS Require Import proofs.steps.Formulas.

Lemma calculate_u_translated : forall A B, tr_srp_calculate_u A B = Some (calculate_u A B).
Proof. reflexivity. Qed.

Lemma pad_to_length : forall len v r, pad_to len v = Ok r -> length r = len.
Proof.
  intros len v r H. unfold pad_to in H. destruct (len <? length v)%nat eqn:E; [discriminate|].
  assert (Hr : v ++ repeat 0 (len - length v) = r) by congruence. rewrite <- Hr.
  rewrite app_length, repeat_length. apply Nat.ltb_ge in E. lia.
Qed.

Lemma calculate_S_length : forall be A v u b s, calculate_S be A v u b = Ok s -> length s = 32%nat.
Proof.
  intros be A v u b s H. unfold calculate_S in H.
  destruct (modpow be _ _ _) as [vu|e|]; [|destruct e|discriminate]. cbn [bind] in H.
  destruct (modpow be _ _ _) as [z|e|]; [|destruct e|discriminate]. cbn [bind] in H.
  unfold key_from_bigint in H. apply pad_to_length in H. exact H.
Qed.

Lemma calculate_session_key_translated : forall be A B v b,
  tr_srp_calculate_session_key be A B v b = nres_opt (calculate_session_key be A B v b).
Proof.
  intros. unfold tr_srp_calculate_session_key, calculate_session_key.
  rewrite calculate_u_translated. rewrite calculate_S_translated.
  destruct (calculate_S be A v (calculate_u A B) b) as [s|e|] eqn:ES; [|destruct e|reflexivity]. cbn [nres_view bind].
  rewrite (calculate_interleaved_translated s (calculate_S_length _ _ _ _ _ _ ES)).
  destruct (calculate_interleaved s) as [k|e|]; [reflexivity|destruct e|reflexivity].
Qed.

(* property level: the session key the server derives, through the translated functions only *)
Theorem session_key_source_spec : forall A B v b, length A = 32%nat ->
  tr_srp_calculate_session_key Default A B v b
  = Some (sp_K (sp_S_server primes.NFacts.Nz (le_to_Z A) (le_to_Z v) (sp_u A B) (le_to_Z b))).
Proof.
  intros A B v b HA. rewrite calculate_session_key_translated. rewrite (session_key_spec A B v b HA). reflexivity.
Qed.
