(* The SRP formulas: the bodies of calculate_password_verifier, calculate_server_public_key, calculate_S
   (src/srp_internal.rs) and calculate_client_public_key, calculate_client_S (src/srp_internal_client.rs)
   translated from the source on this run are the model's functions: which byte strings are read as
   integers, the operators and their nesting, base / exponent / modulus of every modpow, the remainder,
   the padding, and the key check applied to the result. *)
From Coq Require Import List NArith ZArith Lia.
From WS Require Import lib.Bytes lib.Res lib.StepLoop Consts Steps model.Bigint model.Key model.Srp.
Import ListNotations.

Definition nres_view {A} (r : nres A) : option A := match r with Ok a => Some a | _ => None end.

Lemma calculate_password_verifier_translated : forall be u p salt,
  tr_srp_calculate_password_verifier be u p salt = nres_view (calculate_password_verifier be u p salt).
Proof.
  intros. unfold tr_srp_calculate_password_verifier, calculate_password_verifier, generator_z, lsp_z.
  destruct (modpow be _ _ _) as [v|e|]; [|destruct e|reflexivity]. cbn [bind].
  destruct (to_padded_32_byte_array_le be v) as [r|e|]; [reflexivity|destruct e|reflexivity].
Qed.

Lemma calculate_server_public_key_translated : forall be v b,
  tr_srp_calculate_server_public_key be v b = res_view (calculate_server_public_key be v b).
Proof.
  intros. unfold tr_srp_calculate_server_public_key, calculate_server_public_key, generator_z, lsp_z, k_z.
  destruct (modpow be _ _ _) as [gb|e|]; [|destruct e|reflexivity].
  destruct (rem _ _) as [r|e|]; [reflexivity|destruct e|reflexivity].
Qed.

Lemma calculate_S_translated : forall be A v u b,
  tr_srp_calculate_S be A v u b = nres_view (calculate_S be A v u b).
Proof.
  intros. unfold tr_srp_calculate_S, calculate_S, lsp_z.
  destruct (modpow be (from_bytes_le v) _ _) as [vu|e|]; [|destruct e|reflexivity]. cbn [bind].
  destruct (modpow be _ _ _) as [s|e|]; [|destruct e|reflexivity]. cbn [bind].
  destruct (key_from_bigint be _ s) as [r|e|]; [reflexivity|destruct e|reflexivity].
Qed.

Lemma calculate_client_public_key_translated : forall be a g n',
  tr_srp_calculate_client_public_key be a g n' = res_view (calculate_client_public_key be a g n').
Proof.
  intros. unfold tr_srp_calculate_client_public_key, calculate_client_public_key.
  destruct (modpow be _ _ _) as [A|e|]; [reflexivity|destruct e|reflexivity].
Qed.

Lemma calculate_client_S_translated : forall be B x a u g n',
  tr_srp_calculate_client_S be B x a u g n' = nres_view (calculate_client_S be B x a u g n').
Proof.
  intros. unfold tr_srp_calculate_client_S, calculate_client_S, k_z.
  destruct (modpow be (Z.of_N g) _ _) as [gx|e|]; [|destruct e|reflexivity]. cbn [bind].
  destruct (modpow be _ _ _) as [s|e|]; [|destruct e|reflexivity]. cbn [bind].
  destruct (to_padded_32_byte_array_le be s) as [r|e|]; [reflexivity|destruct e|reflexivity].
Qed.

Lemma skipn_repeat_N : forall n m (x : N), skipn n (repeat x m) = repeat x (m - n).
Proof. induction n as [|n IH]; intros [|m] x; cbn [skipn repeat Nat.sub]; try reflexivity. apply IH. Qed.

(* ---- Integer::to_padded_32_byte_array_le, translated from src/bigint.rs on this run (the back end's
   to_bytes_le is the modelled dependency): the range / length checks of `array[0..len].clone_from_slice`
   are exactly the model's Panic condition ---- *)
Lemma bigint_to_padded_32_translated : forall be z,
  tr_bigint_to_padded_32 be z = match to_padded_32_byte_array_le be z with Ok a => Some a | _ => None end.
Proof.
  intros be z. unfold tr_bigint_to_padded_32, to_padded_32_byte_array_le, pad_to. cbv zeta.
  set (v := to_bytes_le be z). rewrite repeat_length. change (N.to_nat 32) with 32%nat.
  destruct (Nat.ltb_spec 32 (length v)) as [Hlt|Hge].
  - destruct (N.ltb_spec (N.of_nat 32) (N.of_nat (length v))) as [_|H]; [reflexivity|lia].
  - destruct (N.ltb_spec (N.of_nat 32) (N.of_nat (length v))) as [H|_]; [lia|].
    destruct (N.ltb_spec (N.of_nat (length v)) 0) as [H|_]; [lia|].
    rewrite N.sub_0_r, N.eqb_refl. cbn [negb firstn app]. rewrite Nat2N.id.
    rewrite skipn_repeat_N. reflexivity.
Qed.
