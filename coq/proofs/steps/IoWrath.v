(* Wrath ClientDecrypterHalf::read_and_decrypt_server_header, translated from src/wrath_header/decrypt.rs
   on this run (read_exact of 4 bytes, the attempt, and on AdditionalByteRequired a second read_exact of
   1 byte and decrypt_large_server_header; both `?` leave the function with the reader's error and the
   state reached so far), is the model's function. *)
From Coq Require Import List NArith Lia.
From WS Require Import lib.Bytes lib.Res lib.IoScript lib.StepLoop Consts Steps model.Rc4 model.Wrath model.HeaderIo
  proofs.HeaderIo proofs.steps.Wrath.
Import ListNotations.
Local Open Scope N_scope.

Definition wr_view (r : nres (client_dec * res (hdr * rscript) io_kind)) (s : rscript)
  : option ((rc4 * list N) * (hdr + io_kind)) :=
  match r with
  | Ok (h, Ok (a, rest)) => Some ((cd_rc4 h, cd_hdr h), inl a)
  | Ok (h, Err kd) => Some ((cd_rc4 h, cd_hdr h), inr kd)
  | _ => None
  end.
Definition drop_reader {A B} (x : option (A * B * rscript)) : option (A * B) :=
  match x with Some (a, b, _) => Some (a, b) | None => None end.

Lemma attempt_keeps_stash_length : forall h buf h' a,
  length (cd_hdr h) = 4%nat -> attempt_decrypt_server_header h buf = Ok (h', a) -> length (cd_hdr h') = 4%nat.
Proof.
  intros [r hdr] buf h' a Hh H. unfold attempt_decrypt_server_header, cd_decrypt in H. cbn [cd_rc4 cd_hdr] in *.
  destruct (inner_apply r buf) as [[r' out]|e|]; try discriminate.
  destruct out as [|o0 [|o1 [|o2 [|o3 [|]]]]]; try discriminate.
  destruct (large_header o0); injection H as <- _; cbn [cd_hdr]; [reflexivity | exact Hh].
Qed.

Lemma wrath_read_server_translated : forall h s, length (cd_hdr h) = 4%nat ->
  drop_reader (tr_wrath_read_and_decrypt_server_header apply_view (cd_rc4 h) (cd_hdr h) s)
  = wr_view (w_read_and_decrypt_server_header h s) s.
Proof.
  intros h s Hh. unfold tr_wrath_read_and_decrypt_server_header, w_read_and_decrypt_server_header.
  rewrite !repeat_length. change (N.to_nat 4) with 4%nat. change (N.to_nat 1) with 1%nat.
  destruct (read_exact 4 s) as [[buf rest]|kd|] eqn:E; [|reflexivity|reflexivity].
  pose proof (read_exact_ok_length s 4 buf rest E) as Lb.
  rewrite (wrath_attempt_translated h buf Lb Hh).
  destruct (attempt_decrypt_server_header h buf) as [[h1 a]|e|] eqn:Ea; [|destruct e|reflexivity].
  pose proof (attempt_keeps_stash_length h buf h1 a Hh Ea) as Hh1.
  destruct a as [sz op|]; cbn [attempt_view]; [reflexivity|].
  destruct (read_exact 1 rest) as [[b1 rest']|kd|] eqn:E1; [|reflexivity|reflexivity].
  pose proof (read_exact_ok_length rest 1 b1 rest' E1) as L1.
  destruct b1 as [|b [|]]; try discriminate L1.
  change (N.to_nat 0) with 0%nat. cbn [nth_error].
  rewrite (wrath_decrypt_large_translated h1 b Hh1).
  destruct (decrypt_large_server_header h1 b) as [[h2 hd]|e|]; [reflexivity|destruct e|reflexivity].
Qed.

(* ================================================================================================
   The remaining Wrath entry points: ClientEncrypterHalf::encrypt_client_header and its Write wrapper,
   ServerEncrypterHalf::write_encrypted_server_header (which writes exactly the slice the typed helper
   returns: 4 or 5 bytes), ServerDecrypterHalf::decrypt_client_header and its Read wrapper. *)
From WS Require Import proofs.steps.HelpersCommon.
From WS Require model.Vanilla.

Definition ce_view (r : rc4) (d : list N) : option (rc4 * list N) := apply_view r d.
Definition nv {A} (r : nres A) : option A := match r with Ok a => Some a | _ => None end.
Definition wwview {H S} (proj : H -> S) (r : nres (H * wres)) : option (S * (unit + io_kind) * (list N * wscript)) :=
  match r with
  | Ok (h, (got, w', Ok _)) => Some (proj h, inl tt, (got, w'))
  | Ok (h, (got, w', Err kd)) => Some (proj h, inr kd, (got, w'))
  | _ => None
  end.

Lemma io_write_all_nil' : forall buf w, io_write_all buf ([], w) = let '(got, w', r) := write_all buf w in ((got, w'), r).
Proof. intros. unfold io_write_all. cbn [fst snd]. destruct (write_all buf w) as [[got w'] r]. reflexivity. Qed.

Lemma wrath_encrypt_client_header_translated : forall h size opcode,
  tr_wrath_encrypt_client_header apply_view (ce_rc4 h) size opcode
  = match encrypt_client_header h size opcode with Ok (h', out) => Some (ce_rc4 h', out) | _ => None end.
Proof.
  intros [r] size opcode. unfold tr_wrath_encrypt_client_header, encrypt_client_header, ce_encrypt, client_header_plain, be16, le32, apply_view.
  cbn [ce_rc4].
  change (N.to_nat 0) with 0%nat. change (N.to_nat 1) with 1%nat. change (N.to_nat 2) with 2%nat. change (N.to_nat 3) with 3%nat.
  cbn [N_to_le rev app nth_error].
  destruct (inner_apply r _) as [[r' o]|e|]; [reflexivity|destruct e|reflexivity].
Qed.

Lemma wrath_write_client_translated : forall h w size opcode,
  tr_wrath_write_encrypted_client_header apply_view (ce_rc4 h) ([], w) size opcode
  = wwview ce_rc4 (w_write_encrypted_client_header h w size opcode).
Proof.
  intros. unfold tr_wrath_write_encrypted_client_header, w_write_encrypted_client_header, write_after.
  rewrite wrath_encrypt_client_header_translated.
  destruct (encrypt_client_header h size opcode) as [[h' buf]|e|]; [|destruct e|reflexivity].
  rewrite io_write_all_nil'. destruct (write_all buf w) as [[got w'] [u|kd|]]; reflexivity.
Qed.

Lemma wrath_write_server_translated : forall h w size opcode, length (se_buf h) = 5%nat ->
  tr_wrath_write_encrypted_server_header apply_view (se_rc4 h) (se_buf h) ([], w) size opcode
  = wwview (fun h => (se_rc4 h, se_buf h)) (w_write_encrypted_server_header h w size opcode).
Proof.
  intros h w size opcode Hb. unfold tr_wrath_write_encrypted_server_header, w_write_encrypted_server_header, write_after.
  rewrite (wrath_encrypt_server_header_translated h size opcode Hb).
  destruct (encrypt_server_header h size opcode) as [[h' buf]|e|]; [|destruct e|reflexivity]. cbn [enc_view].
  rewrite io_write_all_nil'. destruct (write_all buf w) as [[got w'] [u|kd|]]; reflexivity.
Qed.

Lemma wrath_decrypt_client_header_translated : forall h data, length data = 6%nat ->
  tr_wrath_decrypt_client_header apply_view (sd_rc4 h) data
  = match decrypt_client_header h data with Ok (h', hd) => Some (sd_rc4 h', hd) | _ => None end.
Proof.
  intros [r] data Hl. unfold tr_wrath_decrypt_client_header, decrypt_client_header, sd_decrypt, apply_view. cbn [sd_rc4].
  destruct (inner_apply r data) as [[r' o]|e|] eqn:E; [|destruct e|reflexivity].
  pose proof (apply_keystream_length _ _ _ _ E) as L. rewrite Hl in L.
  destruct o as [|b0 [|b1 [|b2 [|b3 [|b4 [|b5 [|]]]]]]]; try discriminate L.
  rewrite client_header_from_array_translated. cbn [sd_rc4].
  destruct (WS.model.Vanilla.client_header_from_array _); reflexivity.
Qed.

(* ServerCrypto::decrypt_client_header has a body of its own (it does not delegate to the half): translated from
   src/wrath_header/mod.rs with the combined object's raw decrypt as the external call, it is the model's
   sc_decrypt_client_header -- and that is the half's decrypt_client_header lifted to the combined object *)
Definition sc_view (r : nres (server_crypto * list N)) : option (server_crypto * list N) := match r with Ok a => Some a | _ => None end.
Lemma wrath_server_crypto_decrypt_client_header_translated : forall c data, length data = 6%nat ->
  tr_wrath_server_crypto_decrypt_client_header (fun c d => sc_view (sc_decrypt c d)) c data
  = match sc_decrypt_client_header c data with Ok a => Some a | _ => None end.
Proof.
  intros c data Hl. unfold tr_wrath_server_crypto_decrypt_client_header, sc_decrypt_client_header.
  destruct (sc_decrypt c data) as [[c' o]|e|] eqn:E; [|destruct e|reflexivity]. cbn [sc_view].
  unfold sc_decrypt, lift_enc, sd_decrypt in E.
  destruct (inner_apply (sd_rc4 (sc_dec c)) data) as [[r' o']|e|] eqn:E1; [|destruct e|discriminate].
  injection E as _ <-.
  pose proof (apply_keystream_length _ _ _ _ E1) as L. rewrite Hl in L.
  destruct o' as [|b0 [|b1 [|b2 [|b3 [|b4 [|b5 [|]]]]]]]; try discriminate L.
  rewrite client_header_from_array_translated.
  destruct (WS.model.Vanilla.client_header_from_array _); reflexivity.
Qed.
Lemma wrath_server_crypto_decrypt_client_header_is_half : forall c data,
  sc_decrypt_client_header c data = lift_enc sc_dec sc_set_dec (fun h => decrypt_client_header h data) c.
Proof.
  intros c data. unfold sc_decrypt_client_header, sc_decrypt, lift_enc, decrypt_client_header.
  destruct (sd_decrypt (sc_dec c) data) as [[h o]|e|]; [|reflexivity|reflexivity].
  destruct (WS.model.Vanilla.client_header_from_array o); reflexivity.
Qed.

Definition srview (r : nres (server_dec * res (hdr * rscript) io_kind)) (s : rscript) : option (rc4 * (hdr + io_kind) * rscript) :=
  match r with
  | Ok (h, Ok (a, rest)) => Some (sd_rc4 h, inl a, rest)
  | Ok (h, Err kd) => Some (sd_rc4 h, inr kd, s)
  | _ => None
  end.

Lemma wrath_read_client_translated : forall h s,
  tr_wrath_read_and_decrypt_client_header apply_view (sd_rc4 h) s = srview (w_read_and_decrypt_client_header h s) s.
Proof.
  intros h s. unfold tr_wrath_read_and_decrypt_client_header, w_read_and_decrypt_client_header, read_then.
  rewrite repeat_length. change (N.to_nat wrath_client_header_length) with 6%nat.
  destruct (read_exact 6 s) as [[buf rest]|kd|] eqn:E; [|reflexivity|reflexivity].
  rewrite wrath_decrypt_client_header_translated by (eapply read_exact_ok_length; exact E).
  destruct (decrypt_client_header h buf) as [[h' a]|e|]; [reflexivity|destruct e|reflexivity].
Qed.
