(* Wrath ClientDecrypterHalf::read_and_decrypt_server_header, translated from src/wrath_header/decrypt.rs
   on this run (read_exact of 4 bytes, the attempt, and on AdditionalByteRequired a second read_exact of
   1 byte and decrypt_large_server_header; both `?` leave the function with the reader's error and the
   state reached so far), is the model's function. *)
From Coq Require Import List NArith Lia.
From WS Require Import lib.Bytes lib.Res lib.IoScript lib.StepLoop Consts Steps model.Rc4 model.Wrath model.HeaderIo
  proofs.HeaderIo proofs.steps.Wrath.
Import ListNotations.
Local Open Scope N_scope.

Definition wr_view (r : nres (client_dec * res (hdr * rscript) io_kind)) (s : rscript)
  : option ((rc4 * list N) * (hdr + io_kind)) :=
  match r with
  | Ok (h, Ok (a, rest)) => Some ((cd_rc4 h, cd_hdr h), inl a)
  | Ok (h, Err kd) => Some ((cd_rc4 h, cd_hdr h), inr kd)
  | _ => None
  end.
Definition drop_reader {A B} (x : option (A * B * rscript)) : option (A * B) :=
  match x with Some (a, b, _) => Some (a, b) | None => None end.

Lemma attempt_keeps_stash_length : forall h buf h' a,
  length (cd_hdr h) = 4%nat -> attempt_decrypt_server_header h buf = Ok (h', a) -> length (cd_hdr h') = 4%nat.
Proof.
  intros [r hdr] buf h' a Hh H. unfold attempt_decrypt_server_header, cd_decrypt in H. cbn [cd_rc4 cd_hdr] in *.
  destruct (inner_apply r buf) as [[r' out]|e|]; try discriminate.
  destruct out as [|o0 [|o1 [|o2 [|o3 [|]]]]]; try discriminate.
  destruct (large_header o0); injection H as <- _; cbn [cd_hdr]; [reflexivity | exact Hh].
Qed.

Lemma wrath_read_server_translated : forall h s, length (cd_hdr h) = 4%nat ->
  drop_reader (tr_wrath_read_and_decrypt_server_header apply_view (cd_rc4 h) (cd_hdr h) s)
  = wr_view (w_read_and_decrypt_server_header h s) s.
Proof.
  intros h s Hh. unfold tr_wrath_read_and_decrypt_server_header, w_read_and_decrypt_server_header.
  rewrite !repeat_length. change (N.to_nat 4) with 4%nat. change (N.to_nat 1) with 1%nat.
  destruct (read_exact 4 s) as [[buf rest]|kd|] eqn:E; [|reflexivity|reflexivity].
  pose proof (read_exact_ok_length s 4 buf rest E) as Lb.
  rewrite (wrath_attempt_translated h buf Lb Hh).
  destruct (attempt_decrypt_server_header h buf) as [[h1 a]|e|] eqn:Ea; [|destruct e|reflexivity].
  pose proof (attempt_keeps_stash_length h buf h1 a Hh Ea) as Hh1.
  destruct a as [sz op|]; cbn [attempt_view]; [reflexivity|].
  destruct (read_exact 1 rest) as [[b1 rest']|kd|] eqn:E1; [|reflexivity|reflexivity].
  pose proof (read_exact_ok_length rest 1 b1 rest' E1) as L1.
  destruct b1 as [|b [|]]; try discriminate L1.
  change (N.to_nat 0) with 0%nat. cbn [nth_error].
  rewrite (wrath_decrypt_large_translated h1 b Hh1).
  destruct (decrypt_large_server_header h1 b) as [[h2 hd]|e|]; [reflexivity|destruct e|reflexivity].
Qed.
