(* The typed header helpers of the Vanilla and TBC halves (encrypt_server_header, encrypt_client_header,
   decrypt_server_header, decrypt_client_header) and the two header parsers (ServerHeader::from_array,
   ClientHeader::from_array), translated from src/{vanilla,tbc}_header/{encrypt,decrypt,mod}.rs on this
   run with the raw encrypt / decrypt of the half as the external call, are the model's functions:
   big-endian size, little-endian opcode, ONE raw call on exactly the header bytes. *)
From Coq Require Import List NArith Lia ZifyN ZifyBool ZifyNat.
From WS Require Import lib.Bytes lib.Res lib.StepLoop Consts Steps model.HeaderCipher model.HeaderIo.
From WS Require model.Vanilla model.Tbc.
Import ListNotations.
Local Open Scope N_scope.
Module V := WS.model.Vanilla.
Module T := WS.model.Tbc.

Definition nview {A} (r : nres A) : option A := match r with Ok a => Some a | _ => None end.

Ltac nums := change (N.to_nat 0) with 0%nat; change (N.to_nat 1) with 1%nat; change (N.to_nat 2) with 2%nat;
             change (N.to_nat 3) with 3%nat; change (N.to_nat 4) with 4%nat; change (N.to_nat 5) with 5%nat.

(* ---- parsers ---- *)
Lemma server_header_from_array_translated : forall b0 b1 b2 b3,
  tr_vanilla_server_header_from_array [b0; b1; b2; b3] = V.server_header_from_array [b0; b1; b2; b3].
Proof. intros. unfold tr_vanilla_server_header_from_array, V.server_header_from_array. nums.
  cbn [nth_error rev app le_to_N]. do 2 f_equal; lia. Qed.
Lemma client_header_from_array_translated : forall b0 b1 b2 b3 b4 b5,
  tr_vanilla_client_header_from_array [b0; b1; b2; b3; b4; b5] = V.client_header_from_array [b0; b1; b2; b3; b4; b5].
Proof. intros. unfold tr_vanilla_client_header_from_array, V.client_header_from_array. nums.
  cbn [nth_error rev app le_to_N]. do 2 f_equal; lia. Qed.

(* raw calls keep the length *)
Lemma enc_loop_length : forall data klen key s s' out, enc_loop klen key s data = Some (s', out) -> length out = length data.
Proof.
  induction data as [|x r IH]; intros klen key s s' out H; cbn [enc_loop] in H.
  - injection H as _ <-. reflexivity.
  - destruct (nth_error key _); [|discriminate]. destruct (255 <? _); [discriminate|]. destruct (klen =? 0); [discriminate|].
    destruct (enc_loop klen key _ r) as [[s1 o1]|] eqn:E; [|discriminate]. injection H as _ <-. cbn. f_equal. eapply IH; exact E.
Qed.
Lemma dec_loop_length : forall data klen key s s' out, dec_loop klen key s data = Some (s', out) -> length out = length data.
Proof.
  induction data as [|x r IH]; intros klen key s s' out H; cbn [dec_loop] in H.
  - injection H as _ <-. reflexivity.
  - destruct (nth_error key _); [|discriminate]. destruct (255 <? _); [discriminate|]. destruct (klen =? 0); [discriminate|].
    destruct (dec_loop klen key _ r) as [[s1 o1]|] eqn:E; [|discriminate]. injection H as _ <-. cbn. f_equal. eapply IH; exact E.
Qed.

