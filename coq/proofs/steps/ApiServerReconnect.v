(* The typestate API: the bodies of SrpServer::verify_reconnection_attempt, SrpProof::into_server,
   SrpClientChallenge::verify_server_proof and SrpClient::calculate_reconnect_values translated from
   src/server.rs / src/client.rs on this run are the model's functions.  The translation keeps the
   callee of every call, the order and identity of its arguments, the comparison, the position of the
   random draw relative to it, the early return and what goes into the values returned. *)
From Coq Require Import List NArith.
From WS Require Import lib.Bytes lib.Res lib.Tape lib.StepLoop Consts Steps model.Bigint model.Key model.Srp model.Server model.Client.
Import ListNotations.
Local Open Scope N_scope.

Definition server_view (s : srp_server) : list N * list N * list N := (ss_user s, ss_K s, ss_chal s).

Lemma server_verify_reconnection_attempt_translated : forall s client_data client_proof t,
  tr_server_verify_reconnection_attempt (ss_user s) (ss_K s) (ss_chal s) client_data client_proof t
  = let '(verdict, s', t') := verify_reconnection_attempt s client_data client_proof t in
    Some (verdict, server_view s', t').
Proof.
  intros [u K c] cd cp t. unfold tr_server_verify_reconnection_attempt, verify_reconnection_attempt, server_view.
  cbn [ss_user ss_K ss_chal]. destruct (draw _ t) as [chal t']. reflexivity.
Qed.

