(* The typestate API: the bodies of SrpServer::verify_reconnection_attempt, SrpProof::into_server,
   SrpClientChallenge::verify_server_proof and SrpClient::calculate_reconnect_values translated from
   src/server.rs / src/client.rs on this run are the model's functions.  The translation keeps the
   callee of every call, the order and identity of its arguments, the comparison, the position of the
   random draw relative to it, the early return and what goes into the values returned. *)
From Coq Require Import List NArith.
From WS Require Import lib.Bytes lib.Res lib.Tape lib.StepLoop Consts Steps model.Bigint model.Key model.Srp model.Server model.Client.
Import ListNotations.
Local Open Scope N_scope.

Lemma client_verify_server_proof_translated : forall c server_proof,
  tr_client_verify_server_proof (cc_user c) (cc_K c) (cc_M1 c) (cc_A c) server_proof
  = match verify_server_proof c server_proof with
    | Ok cl => Some (inl (sc_user cl, sc_K cl))
    | Err e => Some (inr (me_client_proof e, me_server_proof e))
    | Panic => None
    end.
Proof.
  intros [u m1 A K] sp. unfold tr_client_verify_server_proof, verify_server_proof. cbn [cc_user cc_K cc_M1 cc_A].
  destruct (negb (list_eqb sp (calculate_server_proof A m1 K))); reflexivity.
Qed.

