(* TBC typed header helpers: translated body = model (see HelpersCommon.v). *)
From Coq Require Import List NArith Lia ZifyN ZifyBool ZifyNat.
From WS Require Import lib.Bytes lib.Res lib.StepLoop Consts Steps model.HeaderCipher model.HeaderIo proofs.steps.HelpersCommon.
From WS Require model.Vanilla model.Tbc.
Import ListNotations.
Local Open Scope N_scope.

(* ---- TBC ---- *)
Lemma tbc_encrypt_server_header_translated : forall h size opcode,
  tr_tbc_encrypt_server_header (fun h d => nview (T.encrypt h d)) h size opcode = nview (T.encrypt_server_header h size opcode).
Proof.
  intros. unfold tr_tbc_encrypt_server_header, T.encrypt_server_header, T.server_header_bytes, be16, le16. nums.
  cbn [N_to_le rev app nth_error]. destruct (T.encrypt h _) as [[h' o]|e|]; [reflexivity|destruct e|reflexivity].
Qed.
Lemma tbc_encrypt_client_header_translated : forall h size opcode,
  tr_tbc_encrypt_client_header (fun h d => nview (T.encrypt h d)) h size opcode = nview (T.encrypt_client_header h size opcode).
Proof.
  intros. unfold tr_tbc_encrypt_client_header, T.encrypt_client_header, T.client_header_bytes, be16, le32. nums.
  cbn [N_to_le rev app nth_error]. destruct (T.encrypt h _) as [[h' o]|e|]; [reflexivity|destruct e|reflexivity].
Qed.
Lemma tbc_decrypt_server_header_translated : forall h data, length data = 4%nat ->
  tr_tbc_decrypt_server_header (fun h d => nview (T.decrypt h d)) h data = nview (t_decrypt_server_header h data).
Proof.
  intros h data Hl. unfold tr_tbc_decrypt_server_header, t_decrypt_server_header.
  destruct (T.decrypt h data) as [[h' o]|e|] eqn:E; [|destruct e|reflexivity]. cbn [nview].
  unfold T.decrypt in E. destruct (dec_loop _ _ _ data) as [[s o']|] eqn:E2; [|discriminate]. injection E as _ <-.
  pose proof (dec_loop_length _ _ _ _ _ _ E2) as L. rewrite Hl in L.
  destruct o' as [|b0 [|b1 [|b2 [|b3 [|]]]]]; try discriminate L.
  rewrite server_header_from_array_translated. destruct (V.server_header_from_array _); reflexivity.
Qed.
Lemma tbc_decrypt_client_header_translated : forall h data, length data = 6%nat ->
  tr_tbc_decrypt_client_header (fun h d => nview (T.decrypt h d)) h data = nview (t_decrypt_client_header h data).
Proof.
  intros h data Hl. unfold tr_tbc_decrypt_client_header, t_decrypt_client_header.
  destruct (T.decrypt h data) as [[h' o]|e|] eqn:E; [|destruct e|reflexivity]. cbn [nview].
  unfold T.decrypt in E. destruct (dec_loop _ _ _ data) as [[s o']|] eqn:E2; [|discriminate]. injection E as _ <-.
  pose proof (dec_loop_length _ _ _ _ _ _ E2) as L. rewrite Hl in L.
  destruct o' as [|b0 [|b1 [|b2 [|b3 [|b4 [|b5 [|]]]]]]]; try discriminate L.
  rewrite client_header_from_array_translated. destruct (V.client_header_from_array _); reflexivity.
Qed.
