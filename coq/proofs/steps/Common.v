(* The loop bodies of the header ciphers and the RC4 output step, as translated from the Rust source
   on this run by tools/extract_steps.py (coq/Steps.v), are the functions the hand-written model
   computes.  The property theorems are about the model; these lemmas re-derive the model's
   byte-level cores from what the source says now. *)
From Coq Require Import List NArith Lia.
From WS Require Import lib.Bytes lib.Res lib.StepLoop Consts model.HeaderCipher.
Import ListNotations.
Local Open Scope N_scope.

Definition cst_pair (s : cstate) : N * N := (c_idx s, c_prev s).
Definition loop_view (r : option (cstate * list N)) : option ((N * N) * list N) :=
  match r with Some (s, out) => Some (cst_pair s, out) | None => None end.

