(* The constructors of the typestate API: SrpVerifier::with_specific_private_key and into_proof
   (src/server.rs) and SrpClientChallenge::new (src/client.rs), translated on this run with every callee
   either another translated function or a layout-checked digest of the model, are the model's functions:
   where the private key is drawn, what B / A are computed from, that a refused own key is a panic
   (`expect`), and what goes into the objects. *)
From Coq Require Import List NArith ZArith Lia.
From WS Require Import lib.Bytes lib.Res lib.Tape lib.StepLoop Consts Steps model.Bigint model.Key model.Srp model.Server model.Client
  proofs.steps.Formulas proofs.steps.Interleave.
Import ListNotations.

Definition proof_tuple (p : srp_proof) := (pr_user p, pr_B p, pr_salt p, pr_b p, pr_v p).

Lemma with_specific_private_key_translated : forall be vf b,
  tr_server_with_specific_private_key be (vf_user vf) (vf_v vf) (vf_salt vf) b
  = match with_specific_private_key be vf b with
    | Ok p => Some (inl (proof_tuple p)) | Err e => Some (inr e) | Panic => None end.
Proof.
  intros be [u v s] b. unfold tr_server_with_specific_private_key, with_specific_private_key. cbn [vf_user vf_v vf_salt].
  rewrite calculate_server_public_key_translated.
  destruct (calculate_server_public_key be v b) as [B|e|]; reflexivity.
Qed.

Lemma into_proof_translated : forall be vf t,
  tr_server_into_proof be (vf_user vf) (vf_v vf) (vf_salt vf) t
  = match into_proof be vf t with Ok (p, t') => Some (proof_tuple p, t') | _ => None end.
Proof.
  intros be vf t. unfold tr_server_into_proof, into_proof.
  destruct (draw _ t) as [b t']. rewrite with_specific_private_key_translated.
  destruct (with_specific_private_key be vf b) as [p|e|]; reflexivity.
Qed.

Lemma calculate_client_S_length : forall be B x a u g n' s, calculate_client_S be B x a u g n' = Ok s -> length s = 32%nat.
Proof.
  intros be B x a u g n' s H. unfold calculate_client_S in H.
  destruct (modpow be _ _ _) as [gx|e|]; [|destruct e|discriminate]. cbn [bind] in H.
  destruct (modpow be _ _ _) as [z|e|]; [|destruct e|discriminate]. cbn [bind] in H.
  unfold to_padded_32_byte_array_le in H. apply pad_to_length in H. exact H.
Qed.

Definition chal_tuple (c : client_chal) := (cc_user c, cc_M1 c, cc_A c, cc_K c).

Lemma client_new_translated : forall be U P g n' B salt t,
  tr_client_new be U P g n' B salt t
  = match client_new be U P g n' B salt t with Ok (c, t') => Some (chal_tuple c, t') | _ => None end.
Proof.
  intros. unfold tr_client_new, client_new.
  destruct (draw _ t) as [a t'].
  rewrite calculate_client_public_key_translated.
  destruct (calculate_client_public_key be a g n') as [A|e|]; [|reflexivity|reflexivity]. cbn [res_view].
  rewrite calculate_u_translated. rewrite calculate_client_S_translated.
  destruct (calculate_client_S be B (calculate_x U P salt) a (calculate_u A B) g n') as [S|e|] eqn:ES; [|destruct e|reflexivity].
  cbn [nres_view bind].
  rewrite (calculate_interleaved_translated S (calculate_client_S_length _ _ _ _ _ _ _ _ ES)).
  destruct (calculate_interleaved S) as [K|e|]; [reflexivity|destruct e|reflexivity].
Qed.

(* Registration: SrpVerifier::from_database_values / with_specific_salt / from_username_and_password. *)
Definition vf_tuple (vf : verifier) := (vf_user vf, vf_v vf, vf_salt vf).

Lemma from_database_values_translated : forall u v s,
  tr_server_from_database_values u v s = Some (vf_tuple (from_database_values u v s)).
Proof. reflexivity. Qed.

Lemma with_specific_salt_translated : forall be u p s,
  tr_server_with_specific_salt be u p s
  = match with_specific_salt be u p s with Ok vf => Some (vf_tuple vf) | _ => None end.
Proof.
  intros. unfold tr_server_with_specific_salt, with_specific_salt.
  rewrite calculate_password_verifier_translated.
  destruct (calculate_password_verifier be u p s) as [v|e|]; [reflexivity|destruct e|reflexivity].
Qed.

Lemma from_username_and_password_translated : forall be u p t,
  tr_server_from_username_and_password be u p t
  = match from_username_and_password be u p t with Ok (vf, t') => Some (vf_tuple vf, t') | _ => None end.
Proof.
  intros. unfold tr_server_from_username_and_password, from_username_and_password.
  destruct (draw _ t) as [s t']. rewrite with_specific_salt_translated.
  destruct (with_specific_salt be u p s) as [vf|e|]; [reflexivity|destruct e|reflexivity].
Qed.
