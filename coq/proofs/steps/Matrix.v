(* Matrix card: the bodies of MatrixCard::get_number_at_coordinates and
   MatrixCardVerifier::get_matrix_coordinates translated from src/matrix_card.rs on this run are the
   model's functions (u8 fields and arguments; the usize arithmetic of the lookup cannot overflow). *)
From Coq Require Import List NArith Lia ZifyBool ZifyN ZifyNat.
From WS Require Import lib.Bytes lib.Res lib.StepLoop Consts Steps model.Arr model.MatrixCard proofs.MatrixCard.
Import ListNotations.
Local Open Scope N_scope.

Definition res_opt {A} (r : nres A) : option A := match r with Ok a => Some a | _ => None end.

Lemma matrix_get_matrix_coordinates_translated : forall cc h w coords round,
  tr_matrix_get_matrix_coordinates cc h w coords round = res_opt (get_matrix_coordinates cc w h coords round).
Proof.
  intros. unfold tr_matrix_get_matrix_coordinates, get_matrix_coordinates.
  destruct (cc <=? round); [reflexivity|].
  destruct (nth_error coords (N.to_nat round)) as [c|]; [|reflexivity].
  destruct (w =? 0); [reflexivity|].
  destruct (h <=? c / w); reflexivity.
Qed.

Lemma matrix_get_number_at_coordinates_translated : forall c x y,
  c_digits c < 256 -> c_width c < 256 -> x < 256 -> y < 256 ->
  tr_matrix_get_number_at_coordinates (c_digits c) (c_width c) (c_height c) (c_data c) x y
  = res_opt (get_number_at_coordinates c x y).
Proof.
  intros [d w h data] x y Hd Hw Hx Hy. cbn [c_digits c_width c_height c_data] in *.
  unfold tr_matrix_get_number_at_coordinates, get_number_at_coordinates, slice. cbn [c_digits c_width c_data].
  assert (y * w <= 255 * 255) by nia.
  assert ((y * w + x) * d <= (255 * 255 + 255) * 255) by nia.
  destruct (18446744073709551615 <? y * w) eqn:E1; [lia|].
  destruct (18446744073709551615 <? y * w + x) eqn:E2; [lia|].
  destruct (18446744073709551615 <? (y * w + x) * d) eqn:E3; [lia|].
  destruct (18446744073709551615 <? (y * w + x) * d + d) eqn:E4; [lia|].
  destruct (N.of_nat (length data) <? (y * w + x) * d + d) eqn:E5.
  - rewrite Bool.orb_true_r. reflexivity.
  - destruct ((y * w + x) * d + d <? (y * w + x) * d) eqn:E6; [lia|]. reflexivity.
Qed.

(* property level, about the translated function: on a card built from its data the lookup at (x, y)
   returns exactly the digits printed at row y, column x *)
Theorem matrix_source_lookup : forall d w h data x y,
  1 <= d -> d < 256 -> w < 256 -> 1 <= w * h <= 255 -> length data = N.to_nat (d * h * w) -> x < w -> y < h ->
  exists cells cell,
    printer_cells {| c_digits := d; c_width := w; c_height := h; c_data := data |} = Ok cells /\
    tr_matrix_get_number_at_coordinates d w h data x y = Some cell /\
    nth_error cells (N.to_nat (y * w + x)) = Some cell /\
    cell = firstn (N.to_nat d) (skipn (N.to_nat ((y * w + x) * d)) data).
Proof.
  intros d w h data x y Hd Hd2 Hw Hwh Hl Hx Hy.
  destruct (lookup d w h data x y Hd Hwh Hl Hx Hy) as (c & cells & cell & Hc & Hp & Hg & Hn & He & _).
  unfold from_data in Hc.
  destruct (N.of_nat (length data) =? get_matrix_card_size d h w); [|discriminate]. injection Hc as <-.
  exists cells, cell. split; [exact Hp|]. split; [|split; assumption].
  pose proof (matrix_get_number_at_coordinates_translated {| c_digits := d; c_width := w; c_height := h; c_data := data |} x y) as T.
  cbn [c_digits c_width c_height c_data] in T. rewrite T by (try assumption; nia). rewrite Hg. reflexivity.
Qed.
