(* Matrix card: the bodies of MatrixCard::get_number_at_coordinates and
   MatrixCardVerifier::get_matrix_coordinates translated from src/matrix_card.rs on this run are the
   model's functions (u8 fields and arguments; the usize arithmetic of the lookup cannot overflow). *)
From Coq Require Import List NArith Lia ZifyBool ZifyN ZifyNat.
From WS Require Import lib.Bytes lib.Res lib.StepLoop Consts Steps spec.Select model.Arr model.MatrixCard proofs.MatrixCard.
Import ListNotations.
Local Open Scope N_scope.

Definition res_opt {A} (r : nres A) : option A := match r with Ok a => Some a | _ => None end.

Lemma matrix_get_matrix_coordinates_translated : forall cc h w coords round,
  tr_matrix_get_matrix_coordinates cc h w coords round = res_opt (get_matrix_coordinates cc w h coords round).
Proof.
  intros. unfold tr_matrix_get_matrix_coordinates, get_matrix_coordinates.
  destruct (cc <=? round); [reflexivity|].
  destruct (nth_error coords (N.to_nat round)) as [c|]; [|reflexivity].
  destruct (w =? 0); [reflexivity|].
  destruct (h <=? c / w); reflexivity.
Qed.

Lemma matrix_get_number_at_coordinates_translated : forall c x y,
  c_digits c < 256 -> c_width c < 256 -> x < 256 -> y < 256 ->
  tr_matrix_get_number_at_coordinates (c_digits c) (c_width c) (c_height c) (c_data c) x y
  = res_opt (get_number_at_coordinates c x y).
Proof.
  intros [d w h data] x y Hd Hw Hx Hy. cbn [c_digits c_width c_height c_data] in *.
  unfold tr_matrix_get_number_at_coordinates, get_number_at_coordinates, slice. cbn [c_digits c_width c_data].
  assert (y * w <= 255 * 255) by nia.
  assert ((y * w + x) * d <= (255 * 255 + 255) * 255) by nia.
  destruct (18446744073709551615 <? y * w) eqn:E1; [lia|].
  destruct (18446744073709551615 <? y * w + x) eqn:E2; [lia|].
  destruct (18446744073709551615 <? (y * w + x) * d) eqn:E3; [lia|].
  destruct (18446744073709551615 <? (y * w + x) * d + d) eqn:E4; [lia|].
  destruct (N.of_nat (length data) <? (y * w + x) * d + d) eqn:E5.
  - rewrite Bool.orb_true_r. reflexivity.
  - destruct ((y * w + x) * d + d <? (y * w + x) * d) eqn:E6; [lia|]. reflexivity.
Qed.

(* property level, about the translated function: on a card built from its data the lookup at (x, y)
   returns exactly the digits printed at row y, column x *)
Theorem matrix_source_lookup : forall d w h data x y,
  1 <= d -> d < 256 -> w < 256 -> 1 <= w * h <= 255 -> length data = N.to_nat (d * h * w) -> x < w -> y < h ->
  exists cells cell,
    printer_cells {| c_digits := d; c_width := w; c_height := h; c_data := data |} = Ok cells /\
    tr_matrix_get_number_at_coordinates d w h data x y = Some cell /\
    nth_error cells (N.to_nat (y * w + x)) = Some cell /\
    cell = firstn (N.to_nat d) (skipn (N.to_nat ((y * w + x) * d)) data).
Proof.
  intros d w h data x y Hd Hd2 Hw Hwh Hl Hx Hy.
  destruct (lookup d w h data x y Hd Hwh Hl Hx Hy) as (c & cells & cell & Hc & Hp & Hg & Hn & He & _).
  unfold from_data in Hc.
  destruct (N.of_nat (length data) =? get_matrix_card_size d h w); [|discriminate]. injection Hc as <-.
  exists cells, cell. split; [exact Hp|]. split; [|split; assumption].
  pose proof (matrix_get_number_at_coordinates_translated {| c_digits := d; c_width := w; c_height := h; c_data := data |} x y) as T.
  cbn [c_digits c_width c_height c_data] in T. rewrite T by (try assumption; nia). rewrite Hg. reflexivity.
Qed.

(* ================================================================================================
   generate_coordinates: the body translated from src/matrix_card.rs on this run (identity fill of the
   index table, then per challenge: remainder / quotient step, pick from the table, close the gap) is
   the model's generate_coordinates, for every u64 seed and all u8 dimensions. *)
Lemma set_nth_list_set' : forall (l : list N) n v,
  set_nth n v l = if (n <? length l)%nat then Some (list_set l n v) else None.
Proof.
  induction l as [|x r IH]; intros [|n] v; cbn [set_nth list_set length]; try reflexivity.
  rewrite IH. change (S n <? S (length r))%nat with (n <? length r)%nat.
  destruct (n <? length r)%nat; reflexivity.
Qed.

Definition gc_fill := fun (v_matrix_indices : list N) (v_i : N) =>
  if N.of_nat (length v_matrix_indices) <=? v_i then None else
  let v_matrix_indices := list_set v_matrix_indices (N.to_nat v_i) v_i in
  Some (inr (A := list N) v_matrix_indices).

Lemma gc_fill_loop : forall n j0 v,
  for_loop gc_fill v (map (fun k => 1 + N.of_nat k) (seq j0 n))
  = match fill_loop (seq (1 + j0) n) v with Some v' => Some (inr v') | None => None end.
Proof.
  induction n as [|n IH]; intros j0 v; [reflexivity|].
  cbn [seq map for_loop fill_loop]. unfold gc_fill at 1.
  rewrite set_nth_list_set'.
  replace (N.to_nat (1 + N.of_nat j0)) with (1 + j0)%nat by lia.
  replace (N.of_nat (1 + j0)) with (1 + N.of_nat j0) by lia.
  destruct (N.of_nat (length v) <=? 1 + N.of_nat j0) eqn:E1; destruct (1 + j0 <? length v)%nat eqn:E2; try lia; [reflexivity|].
  rewrite (IH (S j0)). replace (1 + S j0)%nat with (S (1 + j0)) by lia. reflexivity.
Qed.

Definition gc_inner := fun (v_matrix_indices : list N) (v_j : N) =>
  if 18446744073709551615 <? v_j + 1 then None else
  match nth_error v_matrix_indices (N.to_nat (v_j + 1)) with None => None | Some t2 =>
  if N.of_nat (length v_matrix_indices) <=? v_j then None else
  let v_matrix_indices := list_set v_matrix_indices (N.to_nat v_j) t2 in
  Some (inr (A := list N) v_matrix_indices) end.

Lemma gc_inner_shift : forall n j0 grid lo,
  lo + N.of_nat j0 + N.of_nat n < 18446744073709551615 ->
  for_loop gc_inner grid (map (fun k => lo + N.of_nat k) (seq j0 n))
  = match shift_left n (N.to_nat lo + j0) grid with Some g => Some (inr g) | None => None end.
Proof.
  induction n as [|n IH]; intros j0 grid lo Hb; [reflexivity|].
  cbn [seq map for_loop shift_left]. unfold gc_inner at 1.
  destruct (18446744073709551615 <? lo + N.of_nat j0 + 1) eqn:E1; [lia|].
  replace (N.to_nat (lo + N.of_nat j0 + 1)) with (S (N.to_nat lo + j0)) by lia.
  destruct (nth_error grid (S (N.to_nat lo + j0))) as [v|]; [|reflexivity].
  rewrite set_nth_list_set'.
  replace (N.to_nat (lo + N.of_nat j0)) with (N.to_nat lo + j0)%nat by lia.
  destruct (N.of_nat (length grid) <=? lo + N.of_nat j0) eqn:E3;
  destruct (N.to_nat lo + j0 <? length grid)%nat eqn:E4; try lia; [reflexivity|].
  rewrite (IH (S j0)) by lia. replace (N.to_nat lo + S j0)%nat with (S (N.to_nat lo + j0)) by lia. reflexivity.
Qed.

Definition gc_outer (v_matrix_size : N) := fun '(v_seed, v_coordinates, v_matrix_indices) (v_i : N) =>
  if v_matrix_size <? v_i then None else
  let v_count := (v_matrix_size - v_i) in
  if v_count =? 0 then None else
  let v_index := (v_seed mod v_count) in
  match nth_error v_matrix_indices (N.to_nat v_index) with None => None | Some t1 =>
  if N.of_nat (length v_coordinates) <=? v_i then None else
  let v_coordinates := list_set v_coordinates (N.to_nat v_i) t1 in
  if v_count <? 1 then None else
  match for_loop gc_inner v_matrix_indices (range_list v_index (v_count - 1)) with
  | None => None
  | Some (inl r_early) => Some (inl r_early)
  | Some (inr v_matrix_indices) =>
  if v_count =? 0 then None else
  let v_seed := (v_seed / v_count) in
  Some (inr (v_seed, v_coordinates, v_matrix_indices)) end end.

Definition gc_fin (x : option (list N + (N * list N * list N))) : option (list N) :=
  match x with Some (inr (_, c, _)) => Some c | Some (inl e) => Some e | None => None end.

Lemma gc_outer_loop : forall is ms seed idx coords,
  ms < 256 ->
  gc_fin (for_loop (gc_outer ms) (seed, coords, idx) is) = res_opt (gen_loop is ms seed idx coords).
Proof.
  induction is as [|i r IH]; intros ms seed idx coords Hms; [reflexivity|].
  cbn [for_loop gen_loop]. unfold gc_outer at 1.
  destruct (ms <? i) eqn:E0; [reflexivity|].
  destruct (ms - i =? 0) eqn:E1; [reflexivity|].
  assert (Hc : ms - i <> 0) by (apply N.eqb_neq; exact E1).
  pose proof (N.mod_lt seed (ms - i) Hc) as Hm.
  destruct (nth_error idx (N.to_nat (seed mod (ms - i)))) as [v|]; [|reflexivity].
  rewrite set_nth_list_set'.
  destruct (N.of_nat (length coords) <=? i) eqn:E2; destruct (N.to_nat i <? length coords)%nat eqn:E3; try lia; [reflexivity|].
  destruct (ms - i <? 1) eqn:E4; [lia|].
  unfold range_list.
  rewrite (gc_inner_shift (N.to_nat (ms - i - 1 - seed mod (ms - i))) 0 idx (seed mod (ms - i))) by lia.
  rewrite Nat.add_0_r.
  destruct (shift_left _ _ idx) as [g|]; [|reflexivity].
  apply IH. exact Hms.
Qed.

Lemma matrix_generate_coordinates_translated : forall w h cc seed,
  tr_matrix_generate_coordinates w h cc seed = res_opt (generate_coordinates w h cc seed).
Proof.
  intros w h cc seed. unfold tr_matrix_generate_coordinates, generate_coordinates.
  destruct (255 <? w * h) eqn:E; [reflexivity|].
  match goal with |- context [for_loop ?b ?s (range_list 1 ?n)] => change (for_loop b s (range_list 1 n)) with (for_loop gc_fill s (range_list 1 n)) end.
  unfold range_list at 1. rewrite (gc_fill_loop (N.to_nat (w * h - 1)) 0).
  replace (N.to_nat (w * h - 1)) with (N.to_nat (w * h) - 1)%nat by lia.
  change (1 + 0)%nat with 1%nat.
  destruct (fill_loop _ _) as [idx|]; [|reflexivity].
  match goal with |- context [for_loop ?b ?s (range_list 0 ?n)] => change (for_loop b s (range_list 0 n)) with (for_loop (gc_outer (w * h)) s (range_list 0 n)) end.
  pose proof (gc_outer_loop (range_list 0 cc) (w * h) seed idx (repeat 0 (N.to_nat cc)) ltac:(lia)) as L.
  assert (R : range_list 0 cc = map N.of_nat (seq 0 (N.to_nat cc))).
  { unfold range_list. rewrite N.sub_0_r. apply map_ext. intro k. lia. }
  rewrite R in L |- *. rewrite <- L. unfold gc_fin.
  destruct (for_loop (gc_outer (w * h)) _ _) as [[e|[[s c] g]]|]; reflexivity.
Qed.

(* property level, about the translated function: the challenged cells are distinct cells of the card,
   drawn by the factorial-base decoding of the seed; no panic *)
Theorem matrix_source_coordinates : forall w h count seed,
  1 <= w * h <= 255 -> 1 <= count <= w * h -> seed < 2 ^ 64 ->
  exists cs, tr_matrix_generate_coordinates w h count seed = Some cs /\
             cs = select (N.to_nat count) seed (iota (N.to_nat (w * h))) /\
             length cs = N.to_nat count /\ NoDup cs /\ Forall (fun c => c < w * h) cs.
Proof.
  intros w h count seed H1 H2 H3. destruct (coordinates w h count seed H1 H2 H3) as (cs & E & R).
  exists cs. split; [|exact R]. rewrite matrix_generate_coordinates_translated, E. reflexivity.
Qed.

(* ---- MatrixCard::get_matrix_card_size and MatrixCard::from_data (u8 parameters) ---- *)
Lemma matrix_get_matrix_card_size_translated : forall d h w, d < 256 -> h < 256 -> w < 256 ->
  tr_matrix_get_matrix_card_size d h w = Some (get_matrix_card_size d h w).
Proof.
  intros d h w Hd Hh Hw. unfold tr_matrix_get_matrix_card_size, get_matrix_card_size. cbv zeta.
  assert (d * h <= 255 * 255) by nia. assert (d * h * w <= 255 * 255 * 255) by nia.
  destruct (18446744073709551615 <? d * h) eqn:E1; [lia|].
  destruct (18446744073709551615 <? d * h * w) eqn:E2; [lia|]. reflexivity.
Qed.

Definition card_view (c : card) := (c_digits c, c_width c, c_height c, c_data c).

Lemma matrix_from_data_translated : forall d h w data, d < 256 -> h < 256 -> w < 256 ->
  tr_matrix_from_data d h w data = Some (option_map card_view (from_data d h w data)).
Proof.
  intros d h w data Hd Hh Hw. unfold tr_matrix_from_data, from_data.
  rewrite matrix_get_matrix_card_size_translated by assumption.
  destruct (N.of_nat (length data) =? get_matrix_card_size d h w); reflexivity.
Qed.

(* ---- MatrixCard::to_printer and MatrixCardPrinter::next (the strings a user reads off the card), translated:
   `chunks(digit_count)` as (rest, n), each byte appended as its decimal `to_string()` ---- *)
Lemma u8_to_string_model : forall b, StepLoop.u8_to_string b = MatrixCard.u8_to_string b.
Proof. reflexivity. Qed.

Definition str_body : list N -> N -> option (((list N * N) * option (list N)) + list N) :=
  fun v_s v_b => let v_s := (v_s ++ (StepLoop.u8_to_string v_b)) in Some (inr v_s).

Lemma str_loop : forall bytes acc, for_loop str_body acc bytes = Some (inr (acc ++ print_cell bytes)).
Proof.
  induction bytes as [|b r IH]; intros acc; cbn [for_loop].
  - unfold print_cell. cbn [map concat]. now rewrite app_nil_r.
  - unfold str_body at 1. cbv zeta. rewrite IH. unfold print_cell. cbn [map concat].
    rewrite u8_to_string_model, app_assoc. reflexivity.
Qed.

Lemma matrix_printer_next_spec : forall l n,
  tr_matrix_printer_next (l, n)
  = Some ((skipn (N.to_nat n) l, n), match l with [] => None | _ :: _ => Some (print_cell (firstn (N.to_nat n) l)) end).
Proof.
  intros l n. unfold tr_matrix_printer_next, chunks_advance, chunks_head. cbn [fst snd]. cbv zeta.
  destruct l as [|x r]; [reflexivity|].
  match goal with |- context [for_loop ?f _ _] => change f with str_body end.
  rewrite str_loop. reflexivity.
Qed.

Fixpoint drain (fuel : nat) (st : list N * N) : option (list (list N)) :=
  match fuel with
  | O => Some []
  | S f => match tr_matrix_printer_next st with
           | None => None
           | Some (_, None) => Some []
           | Some (st', Some s) => match drain f st' with Some r => Some (s :: r) | None => None end
           end
  end.

Lemma drain_S : forall f st, drain (S f) st =
  match tr_matrix_printer_next st with
  | None => None
  | Some (_, None) => Some []
  | Some (st', Some s) => match drain f st' with Some r => Some (s :: r) | None => None end
  end.
Proof. reflexivity. Qed.

Lemma drain_chunks : forall fuel l n, (1 <= N.to_nat n)%nat -> (length l <= fuel)%nat ->
  drain (S fuel) (l, n) = Some (map print_cell (chunks_fuel fuel (N.to_nat n) l)).
Proof.
  induction fuel as [|fuel IH]; intros l n Hn Hl.
  - destruct l; [|cbn [length] in Hl; lia]. rewrite drain_S, matrix_printer_next_spec. reflexivity.
  - rewrite drain_S, matrix_printer_next_spec. destruct l as [|x r]; [reflexivity|].
    rewrite IH.
    + reflexivity.
    + exact Hn.
    + rewrite skipn_length. cbn [length] in *. lia.
Qed.

(* property level: the translated printer, drained, yields exactly the model's printed strings, cell by cell;
   digit_count = 0 is the known finding F5 (chunks(0) panics) *)
Theorem matrix_source_printer : forall c, 1 <= c_digits c ->
  exists st, tr_matrix_to_printer (c_digits c) (c_width c) (c_height c) (c_data c) = Some st /\
             printer_strings c = Ok (match drain (S (length (c_data c))) st with Some r => r | None => [] end) /\
             drain (S (length (c_data c))) st <> None.
Proof.
  intros c Hd. exists (c_data c, c_digits c). unfold tr_matrix_to_printer.
  destruct (c_digits c =? 0) eqn:E; [lia|]. split; [reflexivity|].
  rewrite drain_chunks by lia. split; [|discriminate].
  unfold printer_strings, printer_cells, chunks. rewrite E. reflexivity.
Qed.
