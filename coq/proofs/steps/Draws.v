(* The convenience generators and the three ProofSeed::default bodies, translated from src/pin.rs,
   src/matrix_card.rs, src/integrity.rs and src/{vanilla,tbc,wrath}_header/mod.rs on this run, are the
   model's functions: exactly one draw from the random source, of exactly the width of the value, handed
   out unchanged (u32 / u64 values little-endian). *)
From Coq Require Import List NArith.
From WS Require Import lib.Bytes lib.Res lib.Tape lib.StepLoop Consts Steps model.Random model.WorldProof.
Import ListNotations.
Local Open Scope N_scope.

Lemma pin_grid_seed_translated : forall t, tr_pin_get_pin_grid_seed t = Some (get_pin_grid_seed t).
Proof. intro t. unfold tr_pin_get_pin_grid_seed, get_pin_grid_seed, next_u32. destruct (draw 4 t). reflexivity. Qed.
Lemma pin_salt_translated : forall t, tr_pin_get_pin_salt t = Some (get_pin_salt t).
Proof. intro t. unfold tr_pin_get_pin_salt, get_pin_salt. rewrite repeat_length. destruct (draw _ t). reflexivity. Qed.
Lemma matrix_card_seed_translated : forall t, tr_matrix_get_matrix_card_seed t = Some (get_matrix_card_seed t).
Proof. intro t. unfold tr_matrix_get_matrix_card_seed, get_matrix_card_seed, next_u64. destruct (draw 8 t). reflexivity. Qed.
Lemma integrity_salt_translated : forall t, tr_integrity_get_salt_value t = Some (get_integrity_salt t).
Proof. intro t. unfold tr_integrity_get_salt_value, get_integrity_salt. rewrite repeat_length. destruct (draw _ t). reflexivity. Qed.
Lemma proof_seed_default_translated : forall t,
  tr_vanilla_proof_seed_default t = Some (proof_seed_new t) /\
  tr_tbc_proof_seed_default t = Some (proof_seed_new t) /\
  tr_wrath_proof_seed_default t = Some (proof_seed_new t).
Proof.
  intro t. unfold tr_vanilla_proof_seed_default, tr_tbc_proof_seed_default, tr_wrath_proof_seed_default, proof_seed_new.
  destruct (draw 4 t). repeat split; reflexivity.
Qed.

(* property level, on the translated terms: the value handed out IS the next 4 / 8 / 16 bytes of the
   random source, whatever they are (no clamp, no modulo, no rejection), and exactly that many are consumed *)
Theorem draws_source_spec : forall t,
  tr_pin_get_pin_grid_seed t = Some (le_to_N (firstn 4 t), skipn 4 t) /\
  tr_matrix_get_matrix_card_seed t = Some (le_to_N (firstn 8 t), skipn 8 t) /\
  tr_pin_get_pin_salt t = Some (firstn 16 t, skipn 16 t) /\
  tr_integrity_get_salt_value t = Some (firstn 16 t, skipn 16 t) /\
  tr_vanilla_proof_seed_default t = Some (le_to_N (firstn 4 t), skipn 4 t) /\
  tr_tbc_proof_seed_default t = Some (le_to_N (firstn 4 t), skipn 4 t) /\
  tr_wrath_proof_seed_default t = Some (le_to_N (firstn 4 t), skipn 4 t).
Proof. intro t. repeat split; reflexivity. Qed.

(* ProofSeed::new of the three modules is ProofSeed::default (one 4-byte draw) *)
Lemma proof_seed_new_translated : forall t,
  tr_vanilla_proof_seed_new t = Some (proof_seed_new t) /\
  tr_tbc_proof_seed_new t = Some (proof_seed_new t) /\
  tr_wrath_proof_seed_new t = Some (proof_seed_new t).
Proof.
  intros t. unfold tr_vanilla_proof_seed_new, tr_tbc_proof_seed_new, tr_wrath_proof_seed_new.
  destruct (proof_seed_default_translated t) as (-> & -> & ->).
  destruct (proof_seed_new t) as [s t']. repeat split.
Qed.

(* ---- the `Default` body of the key_new! macro (src/key.rs), translated with the macro parameter $size as
   a parameter: one draw of exactly $size bytes; and the instantiations: Salt 32, PrivateKey 32,
   ReconnectData 16 (read from the macro invocations on this run) ---- *)
Lemma key_macro_default_translated : forall size t,
  tr_key_macro_default size t = Some (draw (N.to_nat size) t).
Proof.
  intros size t. unfold tr_key_macro_default. cbv zeta. rewrite repeat_length.
  destruct (draw (N.to_nat size) t) as [k t']. reflexivity.
Qed.

(* the other bodies of the key macros, translated: `randomized` is `default` (one draw of $size bytes and nothing
   else); ReconnectData::randomize_data overwrites the whole key with one draw of exactly its length and touches
   nothing else; from_le_bytes / as_le_bytes store and hand out the array unchanged *)
Lemma key_macro_randomized_translated : forall size t,
  tr_key_macro_randomized size t = Some (draw (N.to_nat size) t).
Proof.
  intros size t. unfold tr_key_macro_randomized. rewrite key_macro_default_translated.
  destruct (draw (N.to_nat size) t) as [k t']. reflexivity.
Qed.
Lemma reconnect_randomize_data_translated : forall key t,
  tr_reconnect_randomize_data key t = Some (draw (length key) t).
Proof. intros key t. unfold tr_reconnect_randomize_data. destruct (draw (length key) t) as [k t']. reflexivity. Qed.
Lemma key_macro_identities : forall key,
  tr_key_macro_from_le_bytes key = Some key /\ tr_key_macro_as_le_bytes key = Some key.
Proof. intros key. split; reflexivity. Qed.

Lemma key_new_instances :
  inst_key_new_Salt = salt_length /\ inst_key_new_PrivateKey = private_key_length /\
  inst_key_new_ReconnectData = reconnect_challenge_data_length /\
  inst_key_wrapper_Salt = 32%N /\ inst_key_wrapper_PrivateKey = 32%N /\ inst_key_wrapper_PublicKey = 32%N /\
  inst_key_wrapper_Sha1Hash = 20%N /\ inst_key_wrapper_Verifier = 32%N /\ inst_key_wrapper_Proof = 20%N /\
  inst_key_wrapper_SKey = 32%N /\ inst_key_wrapper_ReconnectData = 16%N /\ inst_key_wrapper_SessionKey = 40%N /\
  inst_key_no_checks_initialization_Salt = inst_key_wrapper_Salt /\
  inst_key_no_checks_initialization_PrivateKey = inst_key_wrapper_PrivateKey /\
  inst_key_no_checks_initialization_Sha1Hash = inst_key_wrapper_Sha1Hash /\
  inst_key_no_checks_initialization_Verifier = inst_key_wrapper_Verifier /\
  inst_key_no_checks_initialization_Proof = inst_key_wrapper_Proof /\
  inst_key_no_checks_initialization_SKey = inst_key_wrapper_SKey /\
  inst_key_no_checks_initialization_ReconnectData = inst_key_wrapper_ReconnectData /\
  inst_key_no_checks_initialization_SessionKey = inst_key_wrapper_SessionKey.
Proof. repeat split. Qed.

(* ---- fill_matrix_card_values and MatrixCard::new (src/matrix_card.rs), translated: one Uniform(0..=9)
   sample per cell digit, in order, written over the whole buffer; rand's UniformInt<u8>::sample is the
   modelled dependency (model/Random.v) ---- *)
From Coq Require Import Lia.
From WS Require Import lib.StepLoop proofs.steps.Matrix model.MatrixCard.

Definition fill_body : (list N * tape) -> N -> option (list N * tape + (list N * tape)) :=
  fun '(v_buf, v_tape) v_b__idx =>
  match (let '(lo_, hi_) := (min_matrix_card_value, max_matrix_card_value) in uniform_sample (S (length v_tape)) lo_ (uniform_range lo_ hi_) (uniform_reject (uniform_range lo_ hi_)) v_tape) with None => None | Some (d1, v_tape) =>
  if N.of_nat (length v_buf) <=? v_b__idx then None else
  let v_buf := list_set v_buf (N.to_nat v_b__idx) d1 in
  Some (inr (v_buf, v_tape)) end.

Lemma list_set_app_d : forall (pre : list N) p post v, list_set (pre ++ p :: post) (length pre) v = pre ++ v :: post.
Proof. induction pre as [|x r IH]; intros p post v; cbn [app length list_set]; [reflexivity|]. now rewrite IH. Qed.

Lemma fill_loop_spec : forall post pre t,
  for_loop fill_body (pre ++ post, t) (map N.of_nat (seq (length pre) (length post)))
  = match fill_matrix_card_values (length post) t with
    | Some (ds, t') => Some (inr (pre ++ ds, t')) | None => None end.
Proof.
  induction post as [|p post IH]; intros pre t.
  - cbn [length seq map for_loop fill_matrix_card_values]. reflexivity.
  - cbn [length seq map for_loop fill_matrix_card_values]. unfold fill_body at 1. cbv beta iota zeta.
    destruct (uniform_sample _ _ _ _ t) as [[d t1]|]; [|reflexivity].
    rewrite app_length. cbn [length].
    destruct (N.leb_spec (N.of_nat (length pre + S (length post))) (N.of_nat (length pre))) as [H|_]; [lia|].
    rewrite Nat2N.id, list_set_app_d.
    change (pre ++ d :: post) with (pre ++ [d] ++ post). rewrite app_assoc.
    replace (S (length pre)) with (length (pre ++ [d])) by (rewrite app_length; cbn [length]; lia).
    rewrite IH. destruct (fill_matrix_card_values (length post) t1) as [[ds t2]|]; [|reflexivity].
    rewrite <- app_assoc. reflexivity.
Qed.

Lemma fill_matrix_card_values_translated : forall buf t,
  tr_matrix_fill_matrix_card_values buf t = fill_matrix_card_values (length buf) t.
Proof.
  intros buf t. unfold tr_matrix_fill_matrix_card_values.
  match goal with |- context [for_loop ?f _ _] => change f with fill_body end.
  assert (R : range_list 0 (N.of_nat (length buf)) = map N.of_nat (seq 0 (length buf))).
  { unfold range_list. rewrite N.sub_0_r, Nat2N.id. apply map_ext. intro k. apply N.add_0_l. }
  rewrite R. pose proof (fill_loop_spec buf [] t) as L. cbn [app length] in L. unfold tape in L |- *. rewrite L.
  destruct (fill_matrix_card_values (length buf) t) as [[ds t']|]; reflexivity.
Qed.

Lemma matrix_card_new_translated : forall d h w t, d < 256 -> h < 256 -> w < 256 ->
  tr_matrix_card_new d h w t
  = match fill_matrix_card_values (N.to_nat (d * h * w)) t with
    | Some (ds, t') => Some ((d, w, h, ds), t') | None => None end.
Proof.
  intros d h w t Hd Hh Hw. unfold tr_matrix_card_new.
  rewrite proofs.steps.Matrix.matrix_get_matrix_card_size_translated by assumption.
  rewrite fill_matrix_card_values_translated, repeat_length. unfold model.MatrixCard.get_matrix_card_size.
  destruct (fill_matrix_card_values _ t) as [[ds t']|]; reflexivity.
Qed.
