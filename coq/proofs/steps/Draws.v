(* The convenience generators and the three ProofSeed::default bodies, translated from src/pin.rs,
   src/matrix_card.rs, src/integrity.rs and src/{vanilla,tbc,wrath}_header/mod.rs on this run, are the
   model's functions: exactly one draw from the random source, of exactly the width of the value, handed
   out unchanged (u32 / u64 values little-endian). *)
From Coq Require Import List NArith.
From WS Require Import lib.Bytes lib.Res lib.Tape lib.StepLoop Consts Steps model.Random model.WorldProof.
Import ListNotations.
Local Open Scope N_scope.

Lemma pin_grid_seed_translated : forall t, tr_pin_get_pin_grid_seed t = Some (get_pin_grid_seed t).
Proof. intro t. unfold tr_pin_get_pin_grid_seed, get_pin_grid_seed, next_u32. destruct (draw 4 t). reflexivity. Qed.
Lemma pin_salt_translated : forall t, tr_pin_get_pin_salt t = Some (get_pin_salt t).
Proof. intro t. unfold tr_pin_get_pin_salt, get_pin_salt. rewrite repeat_length. destruct (draw _ t). reflexivity. Qed.
Lemma matrix_card_seed_translated : forall t, tr_matrix_get_matrix_card_seed t = Some (get_matrix_card_seed t).
Proof. intro t. unfold tr_matrix_get_matrix_card_seed, get_matrix_card_seed, next_u64. destruct (draw 8 t). reflexivity. Qed.
Lemma integrity_salt_translated : forall t, tr_integrity_get_salt_value t = Some (get_integrity_salt t).
Proof. intro t. unfold tr_integrity_get_salt_value, get_integrity_salt. rewrite repeat_length. destruct (draw _ t). reflexivity. Qed.
Lemma proof_seed_default_translated : forall t,
  tr_vanilla_proof_seed_default t = Some (proof_seed_new t) /\
  tr_tbc_proof_seed_default t = Some (proof_seed_new t) /\
  tr_wrath_proof_seed_default t = Some (proof_seed_new t).
Proof.
  intro t. unfold tr_vanilla_proof_seed_default, tr_tbc_proof_seed_default, tr_wrath_proof_seed_default, proof_seed_new.
  destruct (draw 4 t). repeat split; reflexivity.
Qed.

(* property level, on the translated terms: the value handed out IS the next 4 / 8 / 16 bytes of the
   random source, whatever they are (no clamp, no modulo, no rejection), and exactly that many are consumed *)
Theorem draws_source_spec : forall t,
  tr_pin_get_pin_grid_seed t = Some (le_to_N (firstn 4 t), skipn 4 t) /\
  tr_matrix_get_matrix_card_seed t = Some (le_to_N (firstn 8 t), skipn 8 t) /\
  tr_pin_get_pin_salt t = Some (firstn 16 t, skipn 16 t) /\
  tr_integrity_get_salt_value t = Some (firstn 16 t, skipn 16 t) /\
  tr_vanilla_proof_seed_default t = Some (le_to_N (firstn 4 t), skipn 4 t) /\
  tr_tbc_proof_seed_default t = Some (le_to_N (firstn 4 t), skipn 4 t) /\
  tr_wrath_proof_seed_default t = Some (le_to_N (firstn 4 t), skipn 4 t).
Proof. intro t. repeat split; reflexivity. Qed.

(* ProofSeed::new of the three modules is ProofSeed::default (one 4-byte draw) *)
Lemma proof_seed_new_translated : forall t,
  tr_vanilla_proof_seed_new t = Some (proof_seed_new t) /\
  tr_tbc_proof_seed_new t = Some (proof_seed_new t) /\
  tr_wrath_proof_seed_new t = Some (proof_seed_new t).
Proof.
  intros t. unfold tr_vanilla_proof_seed_new, tr_tbc_proof_seed_new, tr_wrath_proof_seed_new.
  destruct (proof_seed_default_translated t) as (-> & -> & ->).
  destruct (proof_seed_new t) as [s t']. repeat split.
Qed.

(* ---- the `Default` body of the key_new! macro (src/key.rs), translated with the macro parameter $size as
   a parameter: one draw of exactly $size bytes; and the instantiations: Salt 32, PrivateKey 32,
   ReconnectData 16 (read from the macro invocations on this run) ---- *)
Lemma key_macro_default_translated : forall size t,
  tr_key_macro_default size t = Some (draw (N.to_nat size) t).
Proof.
  intros size t. unfold tr_key_macro_default. cbv zeta. rewrite repeat_length.
  destruct (draw (N.to_nat size) t) as [k t']. reflexivity.
Qed.

Lemma key_new_instances :
  inst_key_new_Salt = salt_length /\ inst_key_new_PrivateKey = private_key_length /\
  inst_key_new_ReconnectData = reconnect_challenge_data_length /\
  inst_key_wrapper_Salt = 32%N /\ inst_key_wrapper_PrivateKey = 32%N /\ inst_key_wrapper_PublicKey = 32%N /\
  inst_key_wrapper_Sha1Hash = 20%N /\ inst_key_wrapper_Verifier = 32%N /\ inst_key_wrapper_Proof = 20%N /\
  inst_key_wrapper_SKey = 32%N /\ inst_key_wrapper_ReconnectData = 16%N /\ inst_key_wrapper_SessionKey = 40%N /\
  inst_key_no_checks_initialization_Salt = inst_key_wrapper_Salt /\
  inst_key_no_checks_initialization_PrivateKey = inst_key_wrapper_PrivateKey /\
  inst_key_no_checks_initialization_Sha1Hash = inst_key_wrapper_Sha1Hash /\
  inst_key_no_checks_initialization_Verifier = inst_key_wrapper_Verifier /\
  inst_key_no_checks_initialization_Proof = inst_key_wrapper_Proof /\
  inst_key_no_checks_initialization_SKey = inst_key_wrapper_SKey /\
  inst_key_no_checks_initialization_ReconnectData = inst_key_wrapper_ReconnectData /\
  inst_key_no_checks_initialization_SessionKey = inst_key_wrapper_SessionKey.
Proof. repeat split. Qed.
