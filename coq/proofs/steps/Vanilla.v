(* Vanilla: the loop bodies translated from src/vanilla_header/{encrypt,decrypt}.rs on this run, folded
   over the slice, are enc_loop / dec_loop of the model at key length SESSION_KEY_LENGTH. *)
From Coq Require Import List NArith Lia.
From WS Require Import lib.Bytes lib.Res lib.StepLoop Consts Steps model.HeaderCipher model.Rc4 proofs.steps.Common.
Import ListNotations.
Local Open Scope N_scope.

Lemma vanilla_encrypt_translated : forall data key s,
  slice_loop (tr_vanilla_encrypt_step key) (cst_pair s) data = loop_view (enc_loop session_key_length key s data).
Proof.
  induction data as [|x r IH]; intros key s; [reflexivity|].
  cbn [slice_loop enc_loop]. unfold tr_vanilla_encrypt_step at 1, cst_pair at 1.
  destruct (nth_error key (N.to_nat (c_idx s))) as [k|]; [|reflexivity].
  destruct (255 <? c_idx s + 1); [reflexivity|].
  destruct (session_key_length =? 0); [reflexivity|].
  specialize (IH key {| c_idx := (c_idx s + 1) mod session_key_length; c_prev := (N.lxor x k + c_prev s) mod 256 |}).
  unfold cst_pair at 1 in IH. cbn [c_idx c_prev] in IH. rewrite IH.
  destruct (enc_loop _ _ _ r) as [[s' out]|]; reflexivity.
Qed.

Lemma vanilla_decrypt_translated : forall data key s,
  slice_loop (tr_vanilla_decrypt_step key) (cst_pair s) data = loop_view (dec_loop session_key_length key s data).
Proof.
  induction data as [|y r IH]; intros key s; [reflexivity|].
  cbn [slice_loop dec_loop]. unfold tr_vanilla_decrypt_step at 1, cst_pair at 1.
  destruct (nth_error key (N.to_nat (c_idx s))) as [k|]; [|reflexivity].
  destruct (255 <? c_idx s + 1); [reflexivity|].
  destruct (session_key_length =? 0); [reflexivity|].
  specialize (IH key {| c_idx := (c_idx s + 1) mod session_key_length; c_prev := y |}).
  unfold cst_pair at 1 in IH. cbn [c_idx c_prev] in IH. rewrite IH.
  destruct (dec_loop _ _ _ r) as [[s' out]|]; reflexivity.
Qed.

