(* Vanilla: the loop bodies translated from src/vanilla_header/{encrypt,decrypt}.rs on this run, folded
   over the slice, are enc_loop / dec_loop of the model at key length SESSION_KEY_LENGTH. *)
From Coq Require Import List NArith Lia.
From WS Require Import lib.Bytes lib.Res lib.Calls lib.StepLoop Consts Steps spec.HeaderCipher model.HeaderCipher model.Vanilla proofs.HeaderCipher proofs.Vanilla proofs.steps.Common.
Import ListNotations.
Local Open Scope N_scope.

Lemma vanilla_encrypt_translated : forall data key s,
  slice_loop (tr_vanilla_encrypt_step key) (cst_pair s) data = loop_view (enc_loop session_key_length key s data).
Proof.
  induction data as [|x r IH]; intros key s; [reflexivity|].
  cbn [slice_loop enc_loop]. unfold tr_vanilla_encrypt_step at 1, cst_pair at 1.
  destruct (nth_error key (N.to_nat (c_idx s))) as [k|]; [|reflexivity].
  destruct (255 <? c_idx s + 1); [reflexivity|].
  destruct (session_key_length =? 0); [reflexivity|].
  specialize (IH key {| c_idx := (c_idx s + 1) mod session_key_length; c_prev := (N.lxor x k + c_prev s) mod 256 |}).
  unfold cst_pair at 1 in IH. cbn [c_idx c_prev] in IH. rewrite IH.
  destruct (enc_loop _ _ _ r) as [[s' out]|]; reflexivity.
Qed.

Lemma vanilla_decrypt_translated : forall data key s,
  slice_loop (tr_vanilla_decrypt_step key) (cst_pair s) data = loop_view (dec_loop session_key_length key s data).
Proof.
  induction data as [|y r IH]; intros key s; [reflexivity|].
  cbn [slice_loop dec_loop]. unfold tr_vanilla_decrypt_step at 1, cst_pair at 1.
  destruct (nth_error key (N.to_nat (c_idx s))) as [k|]; [|reflexivity].
  destruct (255 <? c_idx s + 1); [reflexivity|].
  destruct (session_key_length =? 0); [reflexivity|].
  specialize (IH key {| c_idx := (c_idx s + 1) mod session_key_length; c_prev := y |}).
  unfold cst_pair at 1 in IH. cbn [c_idx c_prev] in IH. rewrite IH.
  destruct (dec_loop _ _ _ r) as [[s' out]|]; reflexivity.
Qed.


(* ---- the property-level statements, about the functions translated from the source ---- *)
Definition half_view (r : nres (half * list N)) : option ((N * N) * list N) :=
  match r with Ok (h, out) => Some (cst_pair (h_st h), out) | _ => None end.

Lemma vanilla_source_enc_run : forall chunks K s,
  calls_loop (tr_vanilla_encrypt_step K) (cst_pair s) chunks = half_view (run_calls encrypt {| h_key := K; h_st := s |} chunks).
Proof.
  induction chunks as [|c r IH]; intros K s; [reflexivity|].
  cbn [calls_loop run_calls]. rewrite vanilla_encrypt_translated. unfold encrypt at 1. cbn [h_key h_st].
  destruct (enc_loop session_key_length K s c) as [[s' o]|]; [|reflexivity].
  cbn [loop_view]. rewrite IH.
  destruct (run_calls encrypt {| h_key := K; h_st := s' |} r) as [[h' o']|e|]; [reflexivity|destruct e|reflexivity].
Qed.

Lemma vanilla_source_dec_run : forall chunks K s,
  calls_loop (tr_vanilla_decrypt_step K) (cst_pair s) chunks = half_view (run_calls decrypt {| h_key := K; h_st := s |} chunks).
Proof.
  induction chunks as [|c r IH]; intros K s; [reflexivity|].
  cbn [calls_loop run_calls]. rewrite vanilla_decrypt_translated. unfold decrypt at 1. cbn [h_key h_st].
  destruct (dec_loop session_key_length K s c) as [[s' o]|]; [|reflexivity].
  cbn [loop_view]. rewrite IH.
  destruct (run_calls decrypt {| h_key := K; h_st := s' |} r) as [[h' o']|e|]; [reflexivity|destruct e|reflexivity].
Qed.

Theorem vanilla_source_enc_calls : forall K chunks, length K = 40%nat ->
  calls_loop (tr_vanilla_encrypt_step K) (0, 0) chunks =
  Some ((N.of_nat (length (concat chunks) mod 40), last (encrypt_stream K (concat chunks)) 0),
        encrypt_stream K (concat chunks)).
Proof.
  intros K chunks HK.
  change (0, 0) with (cst_pair {| c_idx := 0; c_prev := 0 |}).
  rewrite vanilla_source_enc_run. change {| h_key := K; h_st := {| c_idx := 0; c_prev := 0 |} |} with (half_new K).
  rewrite (enc_calls K chunks HK). reflexivity.
Qed.

Theorem vanilla_source_dec_calls : forall K chunks, length K = 40%nat ->
  calls_loop (tr_vanilla_decrypt_step K) (0, 0) chunks =
  Some ((N.of_nat (length (concat chunks) mod 40), last (concat chunks) 0), decrypt_stream K (concat chunks)).
Proof.
  intros K chunks HK.
  change (0, 0) with (cst_pair {| c_idx := 0; c_prev := 0 |}).
  rewrite vanilla_source_dec_run. change {| h_key := K; h_st := {| c_idx := 0; c_prev := 0 |} |} with (half_new K).
  rewrite (dec_calls K chunks HK). reflexivity.
Qed.

(* ---- EncrypterHalf::encrypt / DecrypterHalf::decrypt: the methods themselves (which field is passed as
   the key, which two as the running state, that the state is written back) ---- *)
Definition vhalf_full (r : nres (half * list N)) : option ((list N * N * N) * unit * list N) :=
  match r with Ok (h, out) => Some ((h_key h, c_idx (h_st h), c_prev (h_st h)), tt, out) | _ => None end.

Lemma vanilla_half_encrypt_translated : forall h data,
  tr_vanilla_half_encrypt (h_key h) (c_idx (h_st h)) (c_prev (h_st h)) data = vhalf_full (encrypt h data).
Proof.
  intros h data. unfold tr_vanilla_half_encrypt, encrypt.
  change (c_idx (h_st h), c_prev (h_st h)) with (cst_pair (h_st h)). rewrite vanilla_encrypt_translated.
  destruct (enc_loop _ _ _ _) as [[s out]|]; reflexivity.
Qed.
Lemma vanilla_half_decrypt_translated : forall h data,
  tr_vanilla_half_decrypt (h_key h) (c_idx (h_st h)) (c_prev (h_st h)) data = vhalf_full (decrypt h data).
Proof.
  intros h data. unfold tr_vanilla_half_decrypt, decrypt.
  change (c_idx (h_st h), c_prev (h_st h)) with (cst_pair (h_st h)). rewrite vanilla_decrypt_translated.
  destruct (dec_loop _ _ _ _) as [[s out]|]; reflexivity.
Qed.
