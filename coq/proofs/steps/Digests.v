(* The digest functions of src/srp_internal.rs / srp_internal_client.rs translated from the source on this
   run (SHA-1 chains with every update in order, the ":" separator, the xor loop of calculate_xor_hash) are
   the model's functions.  The field-order obligations of Layouts.v pin the same order a second way. *)
From Coq Require Import List NArith Lia.
From WS Require Import lib.Bytes lib.Res lib.Sha1 lib.StepLoop Consts Steps model.Bigint model.Srp.
Import ListNotations.
Local Open Scope N_scope.

Lemma calculate_x_translated : forall u p s, tr_srp_calculate_x u p s = Some (calculate_x u p s).
Proof. reflexivity. Qed.
Lemma calculate_server_proof_translated : forall A M1 K, tr_srp_calculate_server_proof A M1 K = Some (calculate_server_proof A M1 K).
Proof. reflexivity. Qed.
Lemma calculate_client_proof_translated : forall u K A B s,
  tr_srp_calculate_client_proof u K A B s = Some (calculate_client_proof u K A B s).
Proof. reflexivity. Qed.
Lemma calculate_reconnect_proof_translated : forall u c s K,
  tr_srp_calculate_reconnect_proof u c s K = Some (calculate_reconnect_proof u c s K).
Proof. reflexivity. Qed.

Definition xor_body (g_hash : list N) : list N -> N * N -> option (list N + list N) :=
  fun v_xor_hash '(v_i, v_n) =>
  match nth_error g_hash (N.to_nat v_i) with None => None | Some t1 =>
  if N.of_nat (length v_xor_hash) <=? v_i then None else
  let v_xor_hash := list_set v_xor_hash (N.to_nat v_i) (N.lxor v_n t1) in
  Some (inr v_xor_hash) end.

Lemma list_set_app : forall (pre : list N) p post v, list_set (pre ++ p :: post) (length pre) v = pre ++ v :: post.
Proof. induction pre as [|x r IH]; intros p post v; cbn [app length list_set]; [reflexivity|]. now rewrite IH. Qed.

Lemma skipn_nth_cons_d : forall (l : list N) k t, nth_error l k = Some t -> skipn k l = t :: skipn (S k) l.
Proof.
  induction l as [|x r IH]; intros [|k] t H; cbn [nth_error] in H; try discriminate.
  - injection H as ->. reflexivity.
  - cbn [skipn]. rewrite (IH k t H). reflexivity.
Qed.

Lemma xor_loop_spec : forall g l1 pre post, length post = length l1 -> (length pre + length l1 <= length g)%nat ->
  for_loop (xor_body g) (pre ++ post) (enumerate_from (N.of_nat (length pre)) l1)
  = Some (inr (pre ++ xor_bytes l1 (skipn (length pre) g))).
Proof.
  intros g. induction l1 as [|n l1 IH]; intros pre post Hp Hg.
  - destruct post; [|discriminate]. reflexivity.
  - destruct post as [|p post]; [discriminate|]. cbn [length] in *.
    cbn [enumerate_from for_loop]. unfold xor_body at 1. rewrite Nat2N.id.
    destruct (nth_error g (length pre)) as [t|] eqn:En; [|apply nth_error_None in En; lia].
    rewrite app_length. cbn [length].
    destruct (N.leb_spec (N.of_nat (length pre + S (length post))) (N.of_nat (length pre))) as [H|_]; [lia|].
    rewrite list_set_app. replace (N.of_nat (length pre) + 1) with (N.of_nat (length (pre ++ [N.lxor n t]))) by (rewrite app_length; cbn [length]; lia).
    change (pre ++ N.lxor n t :: post) with (pre ++ [N.lxor n t] ++ post). rewrite app_assoc.
    rewrite IH by (rewrite ?app_length; cbn [length]; lia).
    rewrite app_length. cbn [length]. rewrite Nat.add_1_r.
    rewrite (skipn_nth_cons_d g (length pre) t En). unfold xor_bytes. cbn [combine map fst snd].
    rewrite <- app_assoc. reflexivity.
Qed.

Lemma xor_loop_all : forall g l1 post, length post = length l1 -> (length l1 <= length g)%nat ->
  for_loop (xor_body g) post (enumerate_list l1) = Some (inr (xor_bytes l1 g)).
Proof.
  intros g l1 post Hp Hg. pose proof (xor_loop_spec g l1 [] post Hp) as L.
  cbn [app length skipn] in L. change (N.of_nat 0) with 0 in L. apply L. cbn [Nat.add]. exact Hg.
Qed.

Lemma calculate_xor_hash_translated : forall n g, tr_srp_calculate_xor_hash n g = Some (calculate_xor_hash n g).
Proof.
  intros n g. unfold tr_srp_calculate_xor_hash, calculate_xor_hash. cbv zeta.
  match goal with |- context [for_loop ?f _ _] => change f with (xor_body (sha1 [g])) end.
  rewrite xor_loop_all.
  - reflexivity.
  - rewrite repeat_length, sha1_length. reflexivity.
  - rewrite !sha1_length. apply le_n.
Qed.

Lemma calculate_client_proof_custom_translated : forall u K A B s n g,
  tr_srp_calculate_client_proof_custom u K A B s n g = Some (calculate_client_proof_with_custom_value u K A B s n g).
Proof.
  intros. unfold tr_srp_calculate_client_proof_custom. rewrite calculate_xor_hash_translated. reflexivity.
Qed.

(* the world-login proof (src/vanilla_header/internal.rs, shared by the three versions) *)
From WS Require model.WorldProof.
Lemma calculate_world_server_proof_translated : forall u K ss cs,
  tr_world_calculate_world_server_proof u K ss cs = Some (model.WorldProof.calculate_world_server_proof u K ss cs).
Proof. reflexivity. Qed.
