(* The typestate API: the bodies of SrpServer::verify_reconnection_attempt, SrpProof::into_server,
   SrpClientChallenge::verify_server_proof and SrpClient::calculate_reconnect_values translated from
   src/server.rs / src/client.rs on this run are the model's functions.  The translation keeps the
   callee of every call, the order and identity of its arguments, the comparison, the position of the
   random draw relative to it, the early return and what goes into the values returned. *)
From Coq Require Import List NArith.
From WS Require Import lib.Bytes lib.Res lib.Tape lib.StepLoop Consts Steps model.Bigint model.Key model.Srp model.Server model.Client.
Import ListNotations.
Local Open Scope N_scope.

Lemma client_calculate_reconnect_values_translated : forall c server_challenge t,
  tr_client_calculate_reconnect_values (sc_user c) (sc_K c) server_challenge t
  = Some (calculate_reconnect_values c server_challenge t).
Proof.
  intros [u K] sc t. unfold tr_client_calculate_reconnect_values, calculate_reconnect_values. cbn [sc_user sc_K].
  destruct (draw _ t) as [cd t']. reflexivity.
Qed.
