(* Wrath: the body of ServerEncrypterHalf::encrypt_server_header translated from
   src/wrath_header/encrypt.rs on this run (threshold test, big-endian size with the marker bit via
   the inlined set_large_header, little-endian opcode, the call into the stream cipher, the copy into
   the 5-byte buffer and the slice returned) is the model's encrypt_server_header, with
   InnerCrypto::apply as the external call. *)
From Coq Require Import List NArith Lia.
From WS Require Import lib.Bytes lib.Res lib.StepLoop Consts Steps spec.Rc4 model.Rc4 model.Wrath proofs.Rc4 proofs.Wrath.
Import ListNotations.
Local Open Scope N_scope.

Definition apply_view (r : rc4) (d : list N) : option (rc4 * list N) :=
  match inner_apply r d with Ok x => Some x | _ => None end.
Definition enc_view (r : nres (server_enc * list N)) : option ((rc4 * list N) * list N) :=
  match r with Ok (h', out) => Some ((se_rc4 h', se_buf h'), out) | _ => None end.

Lemma apply_keystream_length : forall xs r r' o, apply_keystream r xs = Ok (r', o) -> length o = length xs.
Proof.
  induction xs as [|x xs IH]; intros r r' o H; cbn [apply_keystream] in H.
  - injection H as _ <-. reflexivity.
  - destruct (pseudo_random_generation r) as [[r1 v]|]; [|discriminate].
    destruct (apply_keystream r1 xs) as [[r2 o2]|e|] eqn:E; [|discriminate|discriminate].
    injection H as _ <-. cbn [length]. f_equal. eapply IH; exact E.
Qed.

Lemma u32_be_bytes : forall w,
  rev (N_to_le 4 w) = [w / 16777216 mod 256; w / 65536 mod 256; w / 256 mod 256; w mod 256].
Proof.
  intro w. cbn [N_to_le rev app].
  rewrite !N.div_div by discriminate. reflexivity.
Qed.

Lemma wrath_encrypt_server_header_translated : forall h size opcode,
  length (se_buf h) = 5%nat ->
  tr_wrath_encrypt_server_header apply_view (se_rc4 h) (se_buf h) size opcode
  = enc_view (encrypt_server_header h size opcode).
Proof.
  intros [r buf] size opcode Hb. cbn [se_rc4 se_buf] in *.
  destruct buf as [|p0 [|p1 [|p2 [|p3 [|p4 [|]]]]]]; try discriminate Hb. clear Hb.
  unfold tr_wrath_encrypt_server_header, encrypt_server_header, se_encrypt, large_header_plain,
    small_header_plain, u32_be, set_large_header, le16, apply_view, copy_into.
  cbn [se_rc4 se_buf]. rewrite u32_be_bytes.
  change (0x7FFF) with 32767.
  change (N.to_nat 0) with 0%nat. change (N.to_nat 1) with 1%nat. change (N.to_nat 2) with 2%nat.
  change (N.to_nat 3) with 3%nat. change (N.to_nat 4) with 4%nat.
  destruct (32767 <? size).
  - cbn [N_to_le nth_error app].
    destruct (inner_apply r _) as [[r' out]|e|] eqn:E; [|destruct e|reflexivity].
    pose proof (apply_keystream_length _ _ _ _ E) as L. cbn [length] in L.
    destruct out as [|o0 [|o1 [|o2 [|o3 [|o4 [|]]]]]]; try discriminate L.
    reflexivity.
  - cbn [N_to_le nth_error app].
    destruct (inner_apply r _) as [[r' out]|e|] eqn:E; [|destruct e|reflexivity].
    pose proof (apply_keystream_length _ _ _ _ E) as L. cbn [length] in L.
    destruct out as [|o0 [|o1 [|o2 [|o3 [|]]]]]; try discriminate L.
    reflexivity.
Qed.

(* property level, about the translated function: a header is 4 bytes when size <= 0x7FFF and 5 bytes
   (marker bit set in the first plaintext byte) when 0x7FFF < size <= 0x7FFFFF; the bytes handed out
   are the plaintext layout xor the next keystream bytes, and the cipher advances by exactly that many *)
Theorem wrath_source_layout : forall se size opcode, wf_se se -> size <= 0x7FFFFF -> opcode < 65536 ->
  let plain := if size <=? 0x7FFF then [size / 256; size mod 256; opcode mod 256; opcode / 256]
               else [N.lor (size / 65536) 128; (size / 256) mod 256; size mod 256; opcode mod 256; opcode / 256] in
  exists r' buf' wire,
    tr_wrath_encrypt_server_header apply_view (se_rc4 se) (se_buf se) size opcode = Some ((r', buf'), wire) /\
    length wire = length plain /\
    xor_bytes wire (ks (se_rc4 se) (length wire)) = plain /\
    r' = adv (se_rc4 se) (length wire).
Proof.
  intros se size opcode Hw Hs Ho. cbv zeta.
  destruct (layout se size opcode Hw Hs Ho) as (se' & wire & E & _ & HL & HX & HA & _).
  exists (se_rc4 se'), (se_buf se'), wire.
  rewrite wrath_encrypt_server_header_translated by (destruct Hw as [_ Hb]; exact Hb).
  rewrite E. cbn [enc_view]. auto.
Qed.

(* ================================================================================================
   The decode side: ServerHeader::from_small_array / from_large_array (src/wrath_header/mod.rs, with
   clear_large_header inlined) and ClientDecrypterHalf::attempt_decrypt_server_header /
   decrypt_large_server_header (src/wrath_header/decrypt.rs, with large_header inlined and
   InnerCrypto::apply as the external call), translated on this run, are the model's functions. *)
From Coq Require Import ZifyN ZifyBool ZifyNat.

Lemma from_small_array_translated : forall b0 b1 b2 b3,
  tr_wrath_from_small_array [b0; b1; b2; b3] = Some (from_small_array b0 b1 b2 b3).
Proof.
  intros. unfold tr_wrath_from_small_array, from_small_array.
  change (N.to_nat 0) with 0%nat. change (N.to_nat 1) with 1%nat. change (N.to_nat 2) with 2%nat. change (N.to_nat 3) with 3%nat.
  cbn [nth_error rev app le_to_N]. f_equal. f_equal; lia.
Qed.

Lemma from_large_array_translated : forall b0 b1 b2 b3 b4,
  tr_wrath_from_large_array [b0; b1; b2; b3; b4] = Some (from_large_array b0 b1 b2 b3 b4).
Proof.
  intros. unfold tr_wrath_from_large_array, from_large_array, clear_large_header.
  change (N.to_nat 0) with 0%nat. change (N.to_nat 1) with 1%nat. change (N.to_nat 2) with 2%nat.
  change (N.to_nat 3) with 3%nat. change (N.to_nat 4) with 4%nat.
  cbn [nth_error rev app le_to_N]. f_equal. f_equal; lia.
Qed.

Definition attempt_view (r : nres (client_dec * attempt)) : option ((rc4 * list N) * option (N * N)) :=
  match r with
  | Ok (h', Header s o) => Some ((cd_rc4 h', cd_hdr h'), Some (s, o))
  | Ok (h', AdditionalByteRequired) => Some ((cd_rc4 h', cd_hdr h'), None)
  | _ => None
  end.

Lemma wrath_attempt_translated : forall h buf,
  length buf = 4%nat -> length (cd_hdr h) = 4%nat ->
  tr_wrath_attempt_decrypt_server_header apply_view (cd_rc4 h) (cd_hdr h) buf
  = attempt_view (attempt_decrypt_server_header h buf).
Proof.
  intros [r hdr] buf Hb Hh. cbn [cd_rc4 cd_hdr] in *.
  destruct hdr as [|p0 [|p1 [|p2 [|p3 [|]]]]]; try discriminate Hh. clear Hh.
  unfold tr_wrath_attempt_decrypt_server_header, attempt_decrypt_server_header, cd_decrypt, apply_view, large_header.
  cbn [cd_rc4 cd_hdr].
  destruct (inner_apply r buf) as [[r' out]|e|] eqn:E; [|destruct e|reflexivity].
  pose proof (apply_keystream_length _ _ _ _ E) as L. rewrite Hb in L.
  destruct out as [|o0 [|o1 [|o2 [|o3 [|]]]]]; try discriminate L.
  change (N.to_nat 0) with 0%nat. change (N.to_nat 1) with 1%nat. change (N.to_nat 2) with 2%nat. change (N.to_nat 3) with 3%nat.
  cbn [nth_error].
  destruct (negb (N.land o0 128 =? 0)).
  - reflexivity.
  - rewrite from_small_array_translated. cbn [cd_rc4 cd_hdr]. destruct (from_small_array o0 o1 o2 o3). reflexivity.
Qed.

Definition large_view (r : nres (client_dec * (N * N))) : option ((rc4 * list N) * (N * N)) :=
  match r with Ok (h', so) => Some ((cd_rc4 h', cd_hdr h'), so) | _ => None end.

Lemma wrath_decrypt_large_translated : forall h byte,
  length (cd_hdr h) = 4%nat ->
  tr_wrath_decrypt_large_server_header apply_view (cd_rc4 h) (cd_hdr h) byte
  = large_view (decrypt_large_server_header h byte).
Proof.
  intros [r hdr] byte Hh. cbn [cd_rc4 cd_hdr] in *.
  destruct hdr as [|p0 [|p1 [|p2 [|p3 [|]]]]]; try discriminate Hh. clear Hh.
  unfold tr_wrath_decrypt_large_server_header, decrypt_large_server_header, cd_decrypt, apply_view.
  cbn [cd_rc4 cd_hdr].
  destruct (inner_apply r [byte]) as [[r' out]|e|] eqn:E; [|destruct e|reflexivity].
  pose proof (apply_keystream_length _ _ _ _ E) as L. cbn [length] in L.
  destruct out as [|b4 [|]]; try discriminate L.
  change (N.to_nat 0) with 0%nat. change (N.to_nat 1) with 1%nat. change (N.to_nat 2) with 2%nat. change (N.to_nat 3) with 3%nat.
  cbn [nth_error cd_hdr]. rewrite from_large_array_translated. reflexivity.
Qed.
