(* Wrath: the body of ServerEncrypterHalf::encrypt_server_header translated from
   src/wrath_header/encrypt.rs on this run (threshold test, big-endian size with the marker bit via
   the inlined set_large_header, little-endian opcode, the call into the stream cipher, the copy into
   the 5-byte buffer and the slice returned) is the model's encrypt_server_header, with
   InnerCrypto::apply as the external call. *)
From Coq Require Import List NArith Lia.
From WS Require Import lib.Bytes lib.Res lib.StepLoop Consts Steps spec.Rc4 model.Rc4 model.Wrath proofs.Rc4 proofs.Wrath.
Import ListNotations.
Local Open Scope N_scope.

Definition apply_view (r : rc4) (d : list N) : option (rc4 * list N) :=
  match inner_apply r d with Ok x => Some x | _ => None end.
Definition enc_view (r : nres (server_enc * list N)) : option ((rc4 * list N) * list N) :=
  match r with Ok (h', out) => Some ((se_rc4 h', se_buf h'), out) | _ => None end.

Lemma apply_keystream_length : forall xs r r' o, apply_keystream r xs = Ok (r', o) -> length o = length xs.
Proof.
  induction xs as [|x xs IH]; intros r r' o H; cbn [apply_keystream] in H.
  - injection H as _ <-. reflexivity.
  - destruct (pseudo_random_generation r) as [[r1 v]|]; [|discriminate].
    destruct (apply_keystream r1 xs) as [[r2 o2]|e|] eqn:E; [|discriminate|discriminate].
    injection H as _ <-. cbn [length]. f_equal. eapply IH; exact E.
Qed.

Lemma u32_be_bytes : forall w,
  rev (N_to_le 4 w) = [w / 16777216 mod 256; w / 65536 mod 256; w / 256 mod 256; w mod 256].
Proof.
  intro w. cbn [N_to_le rev app].
  rewrite !N.div_div by discriminate. reflexivity.
Qed.

Lemma wrath_encrypt_server_header_translated : forall h size opcode,
  length (se_buf h) = 5%nat ->
  tr_wrath_encrypt_server_header apply_view (se_rc4 h) (se_buf h) size opcode
  = enc_view (encrypt_server_header h size opcode).
Proof.
  intros [r buf] size opcode Hb. cbn [se_rc4 se_buf] in *.
  destruct buf as [|p0 [|p1 [|p2 [|p3 [|p4 [|]]]]]]; try discriminate Hb. clear Hb.
  unfold tr_wrath_encrypt_server_header, encrypt_server_header, se_encrypt, large_header_plain,
    small_header_plain, u32_be, set_large_header, le16, apply_view, copy_into.
  cbn [se_rc4 se_buf]. rewrite u32_be_bytes.
  change (0x7FFF) with 32767.
  change (N.to_nat 0) with 0%nat. change (N.to_nat 1) with 1%nat. change (N.to_nat 2) with 2%nat.
  change (N.to_nat 3) with 3%nat. change (N.to_nat 4) with 4%nat.
  destruct (32767 <? size).
  - cbn [N_to_le nth_error app].
    destruct (inner_apply r _) as [[r' out]|e|] eqn:E; [|destruct e|reflexivity].
    pose proof (apply_keystream_length _ _ _ _ E) as L. cbn [length] in L.
    destruct out as [|o0 [|o1 [|o2 [|o3 [|o4 [|]]]]]]; try discriminate L.
    reflexivity.
  - cbn [N_to_le nth_error app].
    destruct (inner_apply r _) as [[r' out]|e|] eqn:E; [|destruct e|reflexivity].
    pose proof (apply_keystream_length _ _ _ _ E) as L. cbn [length] in L.
    destruct out as [|o0 [|o1 [|o2 [|o3 [|]]]]]; try discriminate L.
    reflexivity.
Qed.

(* property level, about the translated function: a header is 4 bytes when size <= 0x7FFF and 5 bytes
   (marker bit set in the first plaintext byte) when 0x7FFF < size <= 0x7FFFFF; the bytes handed out
   are the plaintext layout xor the next keystream bytes, and the cipher advances by exactly that many *)
Theorem wrath_source_layout : forall se size opcode, wf_se se -> size <= 0x7FFFFF -> opcode < 65536 ->
  let plain := if size <=? 0x7FFF then [size / 256; size mod 256; opcode mod 256; opcode / 256]
               else [N.lor (size / 65536) 128; (size / 256) mod 256; size mod 256; opcode mod 256; opcode / 256] in
  exists r' buf' wire,
    tr_wrath_encrypt_server_header apply_view (se_rc4 se) (se_buf se) size opcode = Some ((r', buf'), wire) /\
    length wire = length plain /\
    xor_bytes wire (ks (se_rc4 se) (length wire)) = plain /\
    r' = adv (se_rc4 se) (length wire).
Proof.
  intros se size opcode Hw Hs Ho. cbv zeta.
  destruct (layout se size opcode Hw Hs Ho) as (se' & wire & E & _ & HL & HX & HA & _).
  exists (se_rc4 se'), (se_buf se'), wire.
  rewrite wrath_encrypt_server_header_translated by (destruct Hw as [_ Hb]; exact Hb).
  rewrite E. cbn [enc_view]. auto.
Qed.
