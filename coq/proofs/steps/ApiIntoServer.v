(* The typestate API: the bodies of SrpServer::verify_reconnection_attempt, SrpProof::into_server,
   SrpClientChallenge::verify_server_proof and SrpClient::calculate_reconnect_values translated from
   src/server.rs / src/client.rs on this run are the model's functions.  The translation keeps the
   callee of every call, the order and identity of its arguments, the comparison, the position of the
   random draw relative to it, the early return and what goes into the values returned. *)
From Coq Require Import List NArith.
From WS Require Import lib.Bytes lib.Res lib.Tape lib.StepLoop Consts Steps model.Bigint model.Key model.Srp model.Server model.Client.
Import ListNotations.
Local Open Scope N_scope.

Definition server_view (s : srp_server) : list N * list N * list N := (ss_user s, ss_K s, ss_chal s).

Lemma server_into_server_translated : forall be p A client_proof t,
  tr_server_into_server be (pr_user p) (pr_B p) (pr_salt p) (pr_b p) (pr_v p) A client_proof t
  = match into_server be p A client_proof t with
    | Ok (s, m2, t') => Some (inl (server_view s, m2), t')
    | Err e => Some (inr (me_client_proof e, me_server_proof e), t)       (* nothing is drawn on refusal *)
    | Panic => None
    end.
Proof.
  intros be [u B salt b v] A cp t. unfold tr_server_into_server, into_server, lift, server_view.
  cbn [pr_user pr_B pr_salt pr_b pr_v].
  destruct (calculate_session_key be A B v b) as [K|e|]; [|destruct e|reflexivity].
  cbn [bind].
  destruct (negb (list_eqb cp (calculate_client_proof u K A B salt))); [reflexivity|].
  destruct (draw _ t) as [chal t']. reflexivity.
Qed.

