(* PIN: the body of pin_to_bytes translated from src/pin.rs on this run (digit extraction by a `while`
   loop writing into the 10-byte array, in-place reversal of the written prefix, the prefix returned)
   is the model's pin_to_bytes, with the same fuel. *)
From Coq Require Import List NArith Lia ZifyBool ZifyN ZifyNat.
From WS Require Import lib.Bytes lib.Res lib.StepLoop Consts Steps spec.Pin model.Arr model.Pin proofs.Pin.
Import ListNotations.
Local Open Scope N_scope.

Definition res_opt {A} (r : nres A) : option A := match r with Ok a => Some a | _ => None end.

Lemma set_nth_list_set : forall (l : list N) n v,
  set_nth n v l = if (n <? length l)%nat then Some (list_set l n v) else None.
Proof.
  induction l as [|x r IH]; intros [|n] v; cbn [set_nth list_set length]; try reflexivity.
  rewrite IH. change (S n <? S (length r))%nat with (n <? length r)%nat.
  destruct (n <? length r)%nat; reflexivity.
Qed.

Lemma set_nth_length : forall (l l' : list N) n v, set_nth n v l = Some l' -> length l' = length l.
Proof.
  induction l as [|x r IH]; intros l' [|n] v H; cbn [set_nth] in H; try discriminate.
  - injection H as <-. reflexivity.
  - destruct (set_nth n v r) as [r'|] eqn:E; [|discriminate]. injection H as <-. cbn. f_equal. eauto.
Qed.

Definition pin_cond := fun st : N * list N * N => let '(v_pin, v_out_pin_array, v_i) := st in Some (negb (v_pin =? 0)).

Definition pin_body := fun st : N * list N * N => let '(v_pin, v_out_pin_array, v_i) := st in
    if 10 =? 0 then None else
    if N.of_nat (length v_out_pin_array) <=? v_i then None else
    let v_out_pin_array := list_set v_out_pin_array (N.to_nat v_i) ((v_pin mod 10) mod 256) in
    if 10 =? 0 then None else
    let v_pin := (v_pin / 10) in
    if 18446744073709551615 <? v_i + 1 then None else
    let v_i := (v_i + 1) in
    Some (v_pin, v_out_pin_array, v_i).

Lemma pin_loop_translated : forall fuel pin arr i,
    N.of_nat (length arr) < 18446744073709551615 ->
    while_loop fuel pin_cond pin_body (pin, arr, N.of_nat i)
    = match pin_loop fuel pin arr i with Ok (a, j) => Some (0, a, N.of_nat j) | _ => None end.
  Proof.
    induction fuel as [|f IH]; intros pin arr i Hl; [reflexivity|].
    cbn [while_loop pin_loop]. unfold pin_cond at 1.
    destruct (pin =? 0) eqn:Ez; cbn [negb].
    - apply N.eqb_eq in Ez. subst pin. reflexivity.
    - unfold pin_body at 1. change (10 =? 0) with false. cbv iota.
      rewrite set_nth_list_set. rewrite Nat2N.id.
      destruct (N.of_nat (length arr) <=? N.of_nat i) eqn:E1;
      destruct (i <? length arr)%nat eqn:E2; try lia; [reflexivity|].
      destruct (18446744073709551615 <? N.of_nat i + 1) eqn:E3; [lia|].
      replace (N.of_nat i + 1) with (N.of_nat (S i)) by lia.
      apply IH.
      assert (L : length (list_set arr i ((pin mod 10) mod 256)) = length arr).
      { pose proof (set_nth_list_set arr i ((pin mod 10) mod 256)) as S1. rewrite E2 in S1.
        eapply set_nth_length; exact S1. }
      rewrite L. exact Hl.
Qed.

Lemma pin_loop_zero : forall fuel pin arr i a j, pin_loop fuel pin arr i = Ok (a, j) -> length a = length arr /\ (i <= j)%nat.
Proof.
  induction fuel as [|f IH]; intros pin arr i a j H; cbn [pin_loop] in H; [discriminate|].
  destruct (pin =? 0).
  - injection H as <- <-. split; [reflexivity|lia].
  - destruct (set_nth i _ arr) as [arr'|] eqn:E; [|discriminate].
    apply IH in H. destruct H as [H1 H2]. rewrite H1. split; [eapply set_nth_length; exact E|lia].
Qed.

Lemma pin_to_bytes_translated : forall pin arr,
  N.of_nat (length arr) < 18446744073709551615 ->
  tr_pin_to_bytes (S (length arr)) pin arr = res_opt (pin_to_bytes pin arr).
Proof.
  intros pin arr Hl. unfold tr_pin_to_bytes, pin_to_bytes.
  pose proof (pin_loop_translated (S (length arr)) pin arr 0 Hl) as L.
  change (N.of_nat 0) with 0 in L.
  match goal with |- context [while_loop ?f ?c ?b ?s] =>
    change (while_loop f c b s) with (while_loop (S (length arr)) pin_cond pin_body (pin, arr, 0)) end.
  rewrite L. clear L.
  destruct (pin_loop (S (length arr)) pin arr 0) as [[a j]|e|] eqn:E; [|destruct e|reflexivity].
  cbn [bind]. unfold slice.
  assert (Z0 : N.of_nat j <? 0 = false) by lia. rewrite !Z0. cbn [orb].
  change (N.to_nat 0) with 0%nat. cbn [firstn skipn app]. rewrite !N.sub_0_r, !Nat2N.id.
  destruct (N.of_nat (length a) <? N.of_nat j) eqn:E1; [reflexivity|].
  assert (Hj : (j <= length a)%nat) by lia.
  set (pre := rev (firstn j a)).
  assert (Lp : length pre = j) by (unfold pre; rewrite rev_length, firstn_length; lia).
  destruct (N.of_nat (length (pre ++ skipn j a)) <? N.of_nat j) eqn:E2.
  { rewrite app_length, skipn_length in E2. lia. }
  cbn [res_opt]. f_equal.
  rewrite firstn_app, Lp, Nat.sub_diag. cbn [firstn]. rewrite app_nil_r. apply firstn_all2. lia.
Qed.

(* property level, about the translated function: for every u32 PIN and a 10-byte array the result
   is the decimal expansion, most significant digit first, and nothing panics *)
Theorem pin_source_digits : forall pin out, pin < 2 ^ 32 -> length out = 10%nat ->
  tr_pin_to_bytes 11 pin out = Some (digits pin).
Proof.
  intros pin out Hp Ho.
  change 11%nat with (S 10). rewrite <- Ho.
  rewrite pin_to_bytes_translated by (rewrite Ho; reflexivity).
  rewrite pin_to_bytes_spec; [reflexivity|]. rewrite Ho. apply digits_length_u32. exact Hp.
Qed.
