(* PIN: the body of pin_to_bytes translated from src/pin.rs on this run (digit extraction by a `while`
   loop writing into the 10-byte array, in-place reversal of the written prefix, the prefix returned)
   is the model's pin_to_bytes, with the same fuel. *)
From Coq Require Import List NArith Lia ZifyBool ZifyN ZifyNat.
From WS Require Import lib.Bytes lib.Res lib.StepLoop Consts Steps spec.Pin model.Arr model.Pin proofs.Pin.
Import ListNotations.
Local Open Scope N_scope.

Definition res_opt {A} (r : nres A) : option A := match r with Ok a => Some a | _ => None end.

Lemma set_nth_list_set : forall (l : list N) n v,
  set_nth n v l = if (n <? length l)%nat then Some (list_set l n v) else None.
Proof.
  induction l as [|x r IH]; intros [|n] v; cbn [set_nth list_set length]; try reflexivity.
  rewrite IH. change (S n <? S (length r))%nat with (n <? length r)%nat.
  destruct (n <? length r)%nat; reflexivity.
Qed.

Lemma set_nth_length : forall (l l' : list N) n v, set_nth n v l = Some l' -> length l' = length l.
Proof.
  induction l as [|x r IH]; intros l' [|n] v H; cbn [set_nth] in H; try discriminate.
  - injection H as <-. reflexivity.
  - destruct (set_nth n v r) as [r'|] eqn:E; [|discriminate]. injection H as <-. cbn. f_equal. eauto.
Qed.

Definition pin_cond := fun st : N * list N * N => let '(v_pin, v_out_pin_array, v_i) := st in Some (negb (v_pin =? 0)).

Definition pin_body := fun st : N * list N * N => let '(v_pin, v_out_pin_array, v_i) := st in
    if 10 =? 0 then None else
    if N.of_nat (length v_out_pin_array) <=? v_i then None else
    let v_out_pin_array := list_set v_out_pin_array (N.to_nat v_i) ((v_pin mod 10) mod 256) in
    if 10 =? 0 then None else
    let v_pin := (v_pin / 10) in
    if 18446744073709551615 <? v_i + 1 then None else
    let v_i := (v_i + 1) in
    Some (v_pin, v_out_pin_array, v_i).

Lemma pin_loop_translated : forall fuel pin arr i,
    N.of_nat (length arr) < 18446744073709551615 ->
    while_loop fuel pin_cond pin_body (pin, arr, N.of_nat i)
    = match pin_loop fuel pin arr i with Ok (a, j) => Some (0, a, N.of_nat j) | _ => None end.
  Proof.
    induction fuel as [|f IH]; intros pin arr i Hl; [reflexivity|].
    cbn [while_loop pin_loop]. unfold pin_cond at 1.
    destruct (pin =? 0) eqn:Ez; cbn [negb].
    - apply N.eqb_eq in Ez. subst pin. reflexivity.
    - unfold pin_body at 1. change (10 =? 0) with false. cbv iota.
      rewrite set_nth_list_set. rewrite Nat2N.id.
      destruct (N.of_nat (length arr) <=? N.of_nat i) eqn:E1;
      destruct (i <? length arr)%nat eqn:E2; try lia; [reflexivity|].
      destruct (18446744073709551615 <? N.of_nat i + 1) eqn:E3; [lia|].
      replace (N.of_nat i + 1) with (N.of_nat (S i)) by lia.
      apply IH.
      assert (L : length (list_set arr i ((pin mod 10) mod 256)) = length arr).
      { pose proof (set_nth_list_set arr i ((pin mod 10) mod 256)) as S1. rewrite E2 in S1.
        eapply set_nth_length; exact S1. }
      rewrite L. exact Hl.
Qed.

Lemma pin_loop_zero : forall fuel pin arr i a j, pin_loop fuel pin arr i = Ok (a, j) -> length a = length arr /\ (i <= j)%nat.
Proof.
  induction fuel as [|f IH]; intros pin arr i a j H; cbn [pin_loop] in H; [discriminate|].
  destruct (pin =? 0).
  - injection H as <- <-. split; [reflexivity|lia].
  - destruct (set_nth i _ arr) as [arr'|] eqn:E; [|discriminate].
    apply IH in H. destruct H as [H1 H2]. rewrite H1. split; [eapply set_nth_length; exact E|lia].
Qed.

Lemma pin_to_bytes_translated : forall pin arr,
  N.of_nat (length arr) < 18446744073709551615 ->
  tr_pin_to_bytes (S (length arr)) pin arr = res_opt (pin_to_bytes pin arr).
Proof.
  intros pin arr Hl. unfold tr_pin_to_bytes, pin_to_bytes.
  pose proof (pin_loop_translated (S (length arr)) pin arr 0 Hl) as L.
  change (N.of_nat 0) with 0 in L.
  match goal with |- context [while_loop ?f ?c ?b ?s] =>
    change (while_loop f c b s) with (while_loop (S (length arr)) pin_cond pin_body (pin, arr, 0)) end.
  rewrite L. clear L.
  destruct (pin_loop (S (length arr)) pin arr 0) as [[a j]|e|] eqn:E; [|destruct e|reflexivity].
  cbn [bind]. unfold slice.
  assert (Z0 : N.of_nat j <? 0 = false) by lia. rewrite !Z0. cbn [orb].
  change (N.to_nat 0) with 0%nat. cbn [firstn skipn app]. rewrite !N.sub_0_r, !Nat2N.id.
  destruct (N.of_nat (length a) <? N.of_nat j) eqn:E1; [reflexivity|].
  assert (Hj : (j <= length a)%nat) by lia.
  set (pre := rev (firstn j a)).
  assert (Lp : length pre = j) by (unfold pre; rewrite rev_length, firstn_length; lia).
  destruct (N.of_nat (length (pre ++ skipn j a)) <? N.of_nat j) eqn:E2.
  { rewrite app_length, skipn_length in E2. lia. }
  cbn [res_opt]. f_equal.
  rewrite firstn_app, Lp, Nat.sub_diag. cbn [firstn]. rewrite app_nil_r. apply firstn_all2. lia.
Qed.

(* property level, about the translated function: for every u32 PIN and a 10-byte array the result
   is the decimal expansion, most significant digit first, and nothing panics *)
Theorem pin_source_digits : forall pin out, pin < 2 ^ 32 -> length out = 10%nat ->
  tr_pin_to_bytes 11 pin out = Some (digits pin).
Proof.
  intros pin out Hp Ho.
  change 11%nat with (S 10). rewrite <- Ho.
  rewrite pin_to_bytes_translated by (rewrite Ho; reflexivity).
  rewrite pin_to_bytes_spec; [reflexivity|]. rewrite Ho. apply digits_length_u32. exact Hp.
Qed.

(* ================================================================================================
   remap_pin_grid: the body translated from src/pin.rs on this run (the counted-down outer loop with
   its remainder / quotient step, the pick from the pool, and the inner loop that closes the gap) is
   the model's remap_pin_grid, for every u32 seed. *)
Definition remap_inner (v_remainder : N) := fun (v_grid : list N) (v_i : N) =>
  if 18446744073709551615 <? v_remainder + v_i then None else
  if 18446744073709551615 <? v_remainder + v_i then None else
  if 18446744073709551615 <? (v_remainder + v_i) + 1 then None else
  match nth_error v_grid (N.to_nat ((v_remainder + v_i) + 1)) with None => None | Some t2 =>
  if N.of_nat (length v_grid) <=? (v_remainder + v_i) then None else
  let v_grid := list_set v_grid (N.to_nat (v_remainder + v_i)) t2 in
  Some (inr (A := list N) v_grid) end.

Definition remap_outer := fun '(v_pin_grid_seed, v_grid, v_remapped_grid) '(v_remapped_index, v_i) =>
  if v_i =? 0 then None else
  let v_remainder := (v_pin_grid_seed mod v_i) in
  if v_i =? 0 then None else
  let v_pin_grid_seed := (v_pin_grid_seed / v_i) in
  match nth_error v_grid (N.to_nat v_remainder) with None => None | Some t1 =>
  if N.of_nat (length v_remapped_grid) <=? v_remapped_index then None else
  let v_remapped_grid := list_set v_remapped_grid (N.to_nat v_remapped_index) t1 in
  if v_i <? v_remainder then None else
  if (v_i - v_remainder) <? 1 then None else
  let v_copy_size := ((v_i - v_remainder) - 1) in
  match for_loop (remap_inner v_remainder) v_grid (range_list 0 v_copy_size) with
  | None => None
  | Some (inl r_early) => Some (inl r_early)
  | Some (inr v_grid) =>
  Some (inr (v_pin_grid_seed, v_grid, v_remapped_grid)) end end.

Lemma remap_inner_shift : forall n j0 grid rem,
  rem + N.of_nat j0 + N.of_nat n < 18446744073709551615 ->
  for_loop (remap_inner rem) grid (map (fun k => 0 + N.of_nat k) (seq j0 n))
  = match shift_left n (N.to_nat rem + j0) grid with Some g => Some (inr g) | None => None end.
Proof.
  induction n as [|n IH]; intros j0 grid rem Hb; [reflexivity|].
  cbn [seq map for_loop shift_left]. unfold remap_inner at 1.
  rewrite N.add_0_l.
  destruct (18446744073709551615 <? rem + N.of_nat j0) eqn:E1; [lia|].
  destruct (18446744073709551615 <? rem + N.of_nat j0 + 1) eqn:E2; [lia|].
  replace (N.to_nat (rem + N.of_nat j0 + 1)) with (S (N.to_nat rem + j0)) by lia.
  destruct (nth_error grid (S (N.to_nat rem + j0))) as [v|] eqn:En; [|reflexivity].
  rewrite set_nth_list_set.
  replace (N.to_nat (rem + N.of_nat j0)) with (N.to_nat rem + j0)%nat by lia.
  destruct (N.of_nat (length grid) <=? rem + N.of_nat j0) eqn:E3;
  destruct (N.to_nat rem + j0 <? length grid)%nat eqn:E4; try lia; [reflexivity|].
  rewrite (IH (S j0)) by lia. replace (N.to_nat rem + S j0)%nat with (S (N.to_nat rem + j0)) by lia. reflexivity.
Qed.

Definition remap_fin (x : option (list N + (N * list N * list N))) : option (list N) :=
  match x with Some (inr (_, _, r)) => Some r | Some (inl e) => Some e | None => None end.

Lemma remap_outer_loop : forall is idx seed grid remapped,
  Forall (fun i => i < 4294967296) is ->
  remap_fin (for_loop remap_outer (seed, grid, remapped) (enumerate_from (N.of_nat idx) is))
  = res_opt (remap_loop is idx seed grid remapped).
Proof.
  induction is as [|i r IH]; intros idx seed grid remapped Hf; [reflexivity|].
  inversion Hf as [|? ? Hi Hr]; subst.
  cbn [enumerate_from for_loop remap_loop]. unfold remap_outer at 1.
  destruct (i =? 0) eqn:Ei; [reflexivity|].
  assert (Hi0 : i <> 0) by (apply N.eqb_neq; exact Ei).
  pose proof (N.mod_lt seed i Hi0) as Hm.
  destruct (nth_error grid (N.to_nat (seed mod i))) as [v|]; [|reflexivity].
  rewrite set_nth_list_set, Nat2N.id.
  destruct (N.of_nat (length remapped) <=? N.of_nat idx) eqn:E1;
  destruct (idx <? length remapped)%nat eqn:E2; try lia; [reflexivity|].
  destruct (i <? seed mod i) eqn:E3; [lia|].
  destruct (i - seed mod i <? 1) eqn:E4; destruct (i <? seed mod i + 1) eqn:E5; try lia.
  unfold range_list. rewrite N.sub_0_r.
  rewrite (remap_inner_shift (N.to_nat (i - seed mod i - 1)) 0 grid (seed mod i)) by lia.
  rewrite Nat.add_0_r.
  destruct (shift_left _ _ grid) as [g|]; [|reflexivity].
  replace (N.of_nat idx + 1) with (N.of_nat (S idx)) by lia.
  apply IH. exact Hr.
Qed.

Lemma pin_remap_pin_grid_translated : forall seed,
  tr_pin_remap_pin_grid seed = res_opt (remap_pin_grid seed).
Proof.
  intro seed. unfold tr_pin_remap_pin_grid, remap_pin_grid.
  match goal with |- context [for_loop ?b ?s ?l] =>
    change (for_loop b s l) with (for_loop remap_outer (seed, initial_grid, initial_grid) (enumerate_from (N.of_nat 0) (countdown (N.to_nat max_pin_length)))) end.
  pose proof (remap_outer_loop (countdown (N.to_nat max_pin_length)) 0 seed initial_grid initial_grid) as L.
  assert (Hf : Forall (fun i => i < 4294967296) (countdown (N.to_nat max_pin_length))).
  { apply Forall_forall. intros x Hx. vm_compute in Hx. repeat (destruct Hx as [<-|Hx]; [reflexivity|]). destruct Hx. }
  specialize (L Hf). rewrite <- L. unfold remap_fin.
  destruct (for_loop remap_outer _ _) as [[e|[[s g] r]]|]; reflexivity.
Qed.

(* property level, about the translated function: the layout is the factorial-base (Lehmer) decoding
   of seed mod 10! applied to the digits 0..9 *)
Theorem pin_source_grid : forall seed, tr_pin_remap_pin_grid seed = Some (grid seed).
Proof. intro seed. rewrite pin_remap_pin_grid_translated, grid_spec. reflexivity. Qed.

(* ---- calculate_hash and verify_client_pin_hash, translated from src/pin.rs on this run: the two
   `for b in &mut *bytes` loops (digit -> position in the remapped grid by iter().enumerate().find(),
   then `*b += 0x30` with the u8 overflow check), the two SHA-1 chains and the length gate ---- *)
Fixpoint map_opt (g : N -> option N) (l : list N) : option (list N) :=
  match l with
  | [] => Some []
  | x :: r => match g x with None => None | Some y => match map_opt g r with None => None | Some r' => Some (y :: r') end end
  end.

Definition idx_body {R : Type} (g : N -> option N) (bs : list N) (idx : N) : option (R + list N) :=
  match nth_error bs (N.to_nat idx) with None => None | Some t =>
  match g t with None => None | Some v =>
  if N.of_nat (length bs) <=? idx then None else Some (inr (list_set bs (N.to_nat idx) v)) end end.

Lemma for_loop_ext : forall {S R A : Type} (f f' : S -> A -> option (R + S)) l s,
  (forall s x, f s x = f' s x) -> for_loop f s l = for_loop f' s l.
Proof.
  intros S0 R A f f' l. induction l as [|x r IH]; intros s H; [reflexivity|].
  cbn [for_loop]. rewrite H. destruct (f' s x) as [[e|s']|]; [reflexivity|apply IH; exact H|reflexivity].
Qed.

Lemma skipn_nth_cons : forall (l : list N) k t, nth_error l k = Some t -> skipn k l = t :: skipn (S k) l.
Proof.
  induction l as [|x r IH]; intros [|k] t H; cbn [nth_error] in H; try discriminate.
  - injection H as ->. reflexivity.
  - cbn [skipn]. rewrite (IH k t H). reflexivity.
Qed.

Lemma skipn_list_set : forall l k v, skipn (S k) (list_set l k v) = skipn (S k) l.
Proof. induction l as [|x r IH]; intros [|k] v; cbn [list_set skipn]; try reflexivity. apply IH. Qed.

Lemma firstn_list_set' : forall l n v, (n < length l)%nat -> firstn (S n) (list_set l n v) = firstn n l ++ [v].
Proof.
  induction l as [|x r IH]; intros [|n] v H; cbn [length] in H; try lia; [reflexivity|].
  cbn [list_set]. change (firstn (S (S n)) (x :: list_set r n v)) with (x :: firstn (S n) (list_set r n v)).
  rewrite IH by lia. reflexivity.
Qed.

Lemma length_list_set' : forall l n v, length (list_set l n v) = length l.
Proof. induction l as [|x r IH]; intros [|n] v; cbn; try reflexivity. now rewrite IH. Qed.

Lemma idx_loop_spec : forall (R : Type) g m k bs, (k + m = length bs)%nat ->
  for_loop (@idx_body R g) bs (map N.of_nat (seq k m))
  = match map_opt g (skipn k bs) with Some l => Some (inr (firstn k bs ++ l)) | None => None end.
Proof.
  intros R g. induction m as [|m IH]; intros k bs H.
  - cbn [seq map for_loop]. replace k with (length bs) by lia. rewrite skipn_all, firstn_all. cbn [map_opt].
    now rewrite app_nil_r.
  - cbn [seq map for_loop]. unfold idx_body at 1. rewrite Nat2N.id.
    destruct (nth_error bs k) as [t|] eqn:En; [|apply nth_error_None in En; lia].
    rewrite (skipn_nth_cons bs k t En). cbn [map_opt].
    destruct (g t) as [v|]; [|reflexivity].
    destruct (N.leb_spec (N.of_nat (length bs)) (N.of_nat k)) as [Hle|_]; [lia|].
    rewrite IH by (rewrite length_list_set'; lia).
    rewrite skipn_list_set, firstn_list_set' by lia.
    destruct (map_opt g (skipn (S k) bs)) as [l|]; [|reflexivity]. now rewrite <- app_assoc.
Qed.

Lemma idx_loop_all : forall (R : Type) g bs,
  for_loop (@idx_body R g) bs (range_list 0 (N.of_nat (length bs)))
  = match map_opt g bs with Some l => Some (inr l) | None => None end.
Proof.
  intros R g bs. unfold range_list. rewrite N.sub_0_r, Nat2N.id.
  rewrite (map_ext _ N.of_nat) by (intros a; apply N.add_0_l).
  rewrite (idx_loop_spec R g (length bs) 0 bs) by reflexivity. reflexivity.
Qed.

Lemma map_res_opt : forall (f : N -> nres N) g l,
  (forall x, f x = match g x with Some v => Ok v | None => Panic end) ->
  map_res f l = match map_opt g l with Some l' => Ok l' | None => Panic end.
Proof.
  intros f g l H. induction l as [|x r IH]; [reflexivity|].
  cbn [map_res map_opt]. rewrite H. destruct (g x) as [v|]; [|reflexivity]. cbn [bind].
  rewrite IH. destruct (map_opt g r) as [r'|]; reflexivity.
Qed.

Lemma position_find_index : forall b l i,
  match position_from b l i with Some (j, _) => Some j | None => None end = find_index b l i.
Proof.
  intros b l. induction l as [|a r IH]; intros i; [reflexivity|].
  cbn [position_from find_index]. destruct (a =? b); [reflexivity|apply IH].
Qed.

Definition g_remap (grid : list N) (b : N) : option N :=
  match position_from b grid 0 with None => None | Some (j, _) => Some (j mod 256) end.
Definition g_ascii (b : N) : option N := if 255 <? b + 48 then None else Some (b + 48).

Lemma pin_calculate_hash_translated : forall pin seed ss cs,
  tr_pin_calculate_hash pin seed ss cs = res_opt (calculate_hash pin seed ss cs).
Proof.
  intros pin seed ss cs. unfold tr_pin_calculate_hash, calculate_hash. cbv zeta.
  change 11%nat with (S (length (repeat 0 (N.to_nat max_pin_length)))).
  rewrite pin_to_bytes_translated by (vm_compute; reflexivity).
  destruct (pin_to_bytes pin _) as [bytes|e|]; [|destruct e|reflexivity]. cbn [res_opt bind].
  destruct (_ || _); [reflexivity|].
  rewrite pin_remap_pin_grid_translated.
  destruct (remap_pin_grid seed) as [grid|e|]; [|destruct e|reflexivity]. cbn [res_opt bind].
  rewrite (for_loop_ext _ (idx_body (g_remap grid))).
  2:{ intros s x. unfold idx_body, g_remap. destruct (nth_error s (N.to_nat x)) as [t|]; [|reflexivity].
      destruct (position_from t grid 0) as [[j a]|]; reflexivity. }
  rewrite idx_loop_all.
  rewrite (map_res_opt (remap_digit grid) (g_remap grid)).
  2:{ intros x. unfold remap_digit, g_remap. rewrite <- position_find_index.
      destruct (position_from x grid 0) as [[j a]|]; reflexivity. }
  destruct (map_opt (g_remap grid) bytes) as [b1|]; [|reflexivity]. cbn [bind].
  rewrite (for_loop_ext _ (idx_body g_ascii)).
  2:{ intros s x. unfold idx_body, g_ascii. destruct (nth_error s (N.to_nat x)) as [t|]; [|reflexivity].
      destruct (255 <? t + 48); reflexivity. }
  rewrite idx_loop_all.
  rewrite (map_res_opt to_ascii g_ascii).
  2:{ intros x. unfold to_ascii, g_ascii. destruct (255 <? x + 48); reflexivity. }
  destruct (map_opt g_ascii b1) as [b2|]; reflexivity.
Qed.

Lemma pin_verify_client_pin_hash_translated : forall pin seed ss cs h,
  tr_pin_verify_client_pin_hash pin seed ss cs h = res_opt (verify_client_pin_hash pin seed ss cs h).
Proof.
  intros pin seed ss cs h. unfold tr_pin_verify_client_pin_hash, verify_client_pin_hash. rewrite pin_calculate_hash_translated.
  destruct (calculate_hash pin seed ss cs) as [[r|]|e|]; try reflexivity; destruct e.
Qed.
