(* RC4: the body of Rc4::pseudo_random_generation translated from src/rc4.rs on this run (helpers
   s_i / s_j inlined) is the model's pseudo_random_generation. *)
From Coq Require Import List NArith Lia.
From WS Require Import lib.Bytes lib.Res lib.StepLoop Consts Steps model.HeaderCipher model.Rc4 proofs.steps.Common.
Import ListNotations.
Local Open Scope N_scope.

(* ---- RC4: the translated output step is pseudo_random_generation ---- *)
Lemma list_set_upd : forall l n v, list_set l n v = upd n v l.
Proof. induction l as [|x r IH]; intros [|n] v; cbn; try reflexivity. now rewrite IH. Qed.

Definition prga_view (r : option (rc4 * N)) : option ((list N * N * N) * N) :=
  match r with Some (r', v) => Some ((st r', ri r', rj r'), v) | None => None end.

Lemma rc4_prga_translated : forall r,
  tr_rc4_prga (st r) (ri r) (rj r) = prga_view (pseudo_random_generation r).
Proof.
  intros [s i j]. unfold tr_rc4_prga, pseudo_random_generation, swap, get. cbn [st ri rj].
  destruct (nth_error s (N.to_nat ((i + 1) mod 256))) as [si|]; [|reflexivity].
  destruct (nth_error s (N.to_nat ((j + si) mod 256))) as [sj|]; [|reflexivity].
  rewrite !list_set_upd.
  destruct (nth_error (upd _ si (upd _ sj s)) (N.to_nat ((i + 1) mod 256))) as [a|]; [|reflexivity].
  destruct (nth_error (upd _ si (upd _ sj s)) (N.to_nat ((j + si) mod 256))) as [b|]; [|reflexivity].
  destruct (nth_error (upd _ si (upd _ sj s)) (N.to_nat ((a + b) mod 256))) as [v|]; reflexivity.
Qed.

(* ---- Rc4::apply_keystream: the loop body translated from src/rc4.rs (it calls the translated output
   step), folded over the slice, is the model's apply_keystream ---- *)
From WS Require Import lib.Calls spec.Rc4 proofs.Rc4.
Definition rc4_triple (r : rc4) : list N * N * N := (st r, ri r, rj r).
Definition ks_view (r : nres (rc4 * list N)) : option ((list N * N * N) * list N) :=
  match r with Ok (r', out) => Some (rc4_triple r', out) | _ => None end.

Lemma rc4_apply_keystream_translated : forall data r,
  slice_loop tr_rc4_apply_keystream_step (rc4_triple r) data = ks_view (apply_keystream r data).
Proof.
  induction data as [|x xs IH]; intros r; [reflexivity|].
  cbn [slice_loop apply_keystream]. unfold tr_rc4_apply_keystream_step at 1, rc4_triple at 1.
  rewrite rc4_prga_translated.
  destruct (pseudo_random_generation r) as [[r' v]|]; [|reflexivity].
  cbn [prga_view]. change (st r', ri r', rj r') with (rc4_triple r'). rewrite IH.
  destruct (apply_keystream r' xs) as [[r'' out]|e|]; [reflexivity|destruct e|reflexivity].
Qed.

(* property level, about the translated functions: from a state produced by the key schedule for a
   non-empty key, a prefix and then any data come out as the RC4 keystream of that key at that offset,
   xored in; in particular calls of any lengths chain *)
Theorem rc4_source_stream : forall key, key <> [] ->
  exists r0, rc4_new key = Ok r0 /\
  forall pre data, exists t1 t2,
    slice_loop tr_rc4_apply_keystream_step (rc4_triple r0) pre = Some (t1, rc4_crypt key 0 pre) /\
    slice_loop tr_rc4_apply_keystream_step t1 data = Some (t2, rc4_crypt key (length pre) data).
Proof.
  intros key Hne. destruct (rc4_refines_spec key Hne) as (r0 & E0 & _ & H).
  exists r0. split; [exact E0|]. intros pre data.
  destruct (H pre data) as (r1 & r2 & E1 & _ & _ & E2 & _ & _).
  exists (rc4_triple r1), (rc4_triple r2). split.
  - rewrite rc4_apply_keystream_translated, E1. reflexivity.
  - rewrite rc4_apply_keystream_translated, E2. reflexivity.
Qed.

(* ---- Rc4::key_scheduling_algorithm and Rc4::new, translated from src/rc4.rs on this run (the two
   for_each closures as loops over `iter_mut().enumerate()` and `(0..256).zip(key.iter().cycle())`) ---- *)
Lemma cycle_take_cycle : forall key n, cycle_take key n = cycle key n.
Proof.
  intros key n. unfold cycle_take, cycle. generalize key at 2 4 as cur. revert n.
  induction n as [|n IH]; intros cur; [reflexivity|].
  cbn [cycle_from cycle_aux]. destruct cur as [|k cur]; [destruct key as [|k cur]; [reflexivity|]|]; now rewrite IH.
Qed.

Lemma length_list_set : forall l n v, length (list_set l n v) = length l.
Proof. induction l as [|x r IH]; intros [|n] v; cbn; try reflexivity. now rewrite IH. Qed.

Lemma firstn_list_set : forall l n v, (n < length l)%nat -> firstn (S n) (list_set l n v) = firstn n l ++ [v].
Proof.
  induction l as [|x r IH]; intros [|n] v H; cbn [length] in H; try lia; [reflexivity|].
  cbn [list_set]. change (firstn (S (S n)) (x :: list_set r n v)) with (x :: firstn (S n) (list_set r n v)).
  rewrite IH by lia. reflexivity.
Qed.

Definition init_body (s : list N) (v : N) : option (((list N * N * N) * unit) + list N) :=
  if N.of_nat (length s) <=? v then None else Some (inr (list_set s (N.to_nat v) (v mod 256))).

Lemma init_loop_spec : forall m k s, (k + m = length s)%nat ->
  for_loop init_body s (map N.of_nat (seq k m))
  = Some (inr (firstn k s ++ map (fun i => N.of_nat i mod 256) (seq k m))).
Proof.
  induction m as [|m IH]; intros k s H.
  - cbn [seq map for_loop]. rewrite app_nil_r. replace k with (length s) by lia. now rewrite firstn_all.
  - cbn [seq map for_loop]. unfold init_body at 1.
    destruct (N.leb_spec (N.of_nat (length s)) (N.of_nat k)) as [Hle|_]; [lia|].
    rewrite Nat2N.id. rewrite IH by (rewrite length_list_set; lia).
    rewrite firstn_list_set by lia. rewrite <- app_assoc. reflexivity.
Qed.

Fixpoint ksa_loop_j (pairs : list (nat * N)) (s : list N) (j : N) : option (list N * N) :=
  match pairs with
  | [] => Some (s, j)
  | (i, k) :: r =>
    match get s (N.of_nat i) with
    | None => None
    | Some si =>
      let j' := ((j + si) mod 256 + k) mod 256 in
      match swap s (N.of_nat i) j' with
      | None => None
      | Some s' => ksa_loop_j r s' j'
      end
    end
  end.

Lemma ksa_loop_j_fst : forall pairs s j, ksa_loop pairs s j = option_map fst (ksa_loop_j pairs s j).
Proof.
  induction pairs as [|[i k] r IH]; intros s j; [reflexivity|].
  cbn [ksa_loop ksa_loop_j]. destruct (get s (N.of_nat i)) as [si|]; [|reflexivity].
  destruct (swap s (N.of_nat i) _) as [s'|]; [apply IH|reflexivity].
Qed.

Definition ksa_body : list N * N -> N * N -> option (((list N * N * N) * unit) + (list N * N)) :=
  fun '(s_state, v_j) '(v_i, v_k) =>
  match nth_error s_state (N.to_nat v_i) with None => None | Some t1 =>
  let v_j := ((((v_j + t1) mod 256) + v_k) mod 256) in
  match nth_error s_state (N.to_nat v_i), nth_error s_state (N.to_nat v_j) with
  | Some x2, Some y3 =>
  let s_state := list_set (list_set s_state (N.to_nat v_i) y3) (N.to_nat v_j) x2 in
  Some (inr (s_state, v_j))
  | _, _ => None end end.

Lemma ksa_body_loop : forall (l : list nat) ks s j,
  for_loop ksa_body (s, j) (combine (map N.of_nat l) ks)
  = match ksa_loop_j (combine l ks) s j with Some r => Some (inr r) | None => None end.
Proof.
  induction l as [|i l IH]; intros ks s j; [reflexivity|].
  destruct ks as [|k ks]; [reflexivity|].
  cbn [map combine for_loop ksa_loop_j]. unfold ksa_body at 1, get, swap, get. cbv beta iota.
  destruct (nth_error s (N.to_nat (N.of_nat i))) as [si|]; [|reflexivity].
  destruct (nth_error s (N.to_nat (((j + si) mod 256 + k) mod 256))) as [sj|]; [|reflexivity].
  rewrite !list_set_upd. apply IH.
Qed.

Lemma rc4_ksa_translated : forall s i j key, length s = 256%nat ->
  tr_rc4_key_scheduling_algorithm s i j key
  = match ksa_loop (combine (seq 0 256) (cycle key 256)) identity_state 0 with
    | Some s' => Some ((s', i, j), tt) | None => None end.
Proof.
  intros s i j key Hs. unfold tr_rc4_key_scheduling_algorithm.
  change (fun (s_state : list N) (v_i : N) => _) with init_body.
  assert (Hr : range_list 0 (N.of_nat (length s)) = map N.of_nat (seq 0 256)) by (rewrite Hs; reflexivity).
  rewrite Hr. rewrite (init_loop_spec 256 0 s) by (rewrite Hs; reflexivity).
  cbn [firstn app]. change (map (fun i0 : nat => N.of_nat i0 mod 256) (seq 0 256)) with identity_state.
  cbv beta iota zeta.
  match goal with |- context [for_loop ?f (identity_state, 0) _] => change f with ksa_body end.
  change (range_list 0 256) with (map N.of_nat (seq 0 256)).
  rewrite map_length, seq_length, cycle_take_cycle, ksa_body_loop, ksa_loop_j_fst.
  destruct (ksa_loop_j _ identity_state 0) as [[s' j']|]; reflexivity.
Qed.

Lemma rc4_new_translated : forall key,
  tr_rc4_new key = match rc4_new key with Ok r => Some (rc4_triple r) | _ => None end.
Proof.
  intros key. unfold tr_rc4_new, rc4_new. rewrite rc4_ksa_translated by reflexivity.
  destruct (ksa_loop _ identity_state 0) as [s'|]; reflexivity.
Qed.
