(* RC4: the body of Rc4::pseudo_random_generation translated from src/rc4.rs on this run (helpers
   s_i / s_j inlined) is the model's pseudo_random_generation. *)
From Coq Require Import List NArith Lia.
From WS Require Import lib.Bytes lib.Res lib.StepLoop Consts Steps model.HeaderCipher model.Rc4 proofs.steps.Common.
Import ListNotations.
Local Open Scope N_scope.

(* ---- RC4: the translated output step is pseudo_random_generation ---- *)
Lemma list_set_upd : forall l n v, list_set l n v = upd n v l.
Proof. induction l as [|x r IH]; intros [|n] v; cbn; try reflexivity. now rewrite IH. Qed.

Definition prga_view (r : option (rc4 * N)) : option ((list N * N * N) * N) :=
  match r with Some (r', v) => Some ((st r', ri r', rj r'), v) | None => None end.

Lemma rc4_prga_translated : forall r,
  tr_rc4_prga (st r) (ri r) (rj r) = prga_view (pseudo_random_generation r).
Proof.
  intros [s i j]. unfold tr_rc4_prga, pseudo_random_generation, swap, get. cbn [st ri rj].
  destruct (nth_error s (N.to_nat ((i + 1) mod 256))) as [si|]; [|reflexivity].
  destruct (nth_error s (N.to_nat ((j + si) mod 256))) as [sj|]; [|reflexivity].
  rewrite !list_set_upd.
  destruct (nth_error (upd _ si (upd _ sj s)) (N.to_nat ((i + 1) mod 256))) as [a|]; [|reflexivity].
  destruct (nth_error (upd _ si (upd _ sj s)) (N.to_nat ((j + si) mod 256))) as [b|]; [|reflexivity].
  destruct (nth_error (upd _ si (upd _ sj s)) (N.to_nat ((a + b) mod 256))) as [v|]; reflexivity.
Qed.
