(* RC4: the body of Rc4::pseudo_random_generation translated from src/rc4.rs on this run (helpers
   s_i / s_j inlined) is the model's pseudo_random_generation. *)
From Coq Require Import List NArith Lia.
From WS Require Import lib.Bytes lib.Res lib.StepLoop Consts Steps model.HeaderCipher model.Rc4 proofs.steps.Common.
Import ListNotations.
Local Open Scope N_scope.

(* ---- RC4: the translated output step is pseudo_random_generation ---- *)
Lemma list_set_upd : forall l n v, list_set l n v = upd n v l.
Proof. induction l as [|x r IH]; intros [|n] v; cbn; try reflexivity. now rewrite IH. Qed.

Definition prga_view (r : option (rc4 * N)) : option ((list N * N * N) * N) :=
  match r with Some (r', v) => Some ((st r', ri r', rj r'), v) | None => None end.

Lemma rc4_prga_translated : forall r,
  tr_rc4_prga (st r) (ri r) (rj r) = prga_view (pseudo_random_generation r).
Proof.
  intros [s i j]. unfold tr_rc4_prga, pseudo_random_generation, swap, get. cbn [st ri rj].
  destruct (nth_error s (N.to_nat ((i + 1) mod 256))) as [si|]; [|reflexivity].
  destruct (nth_error s (N.to_nat ((j + si) mod 256))) as [sj|]; [|reflexivity].
  rewrite !list_set_upd.
  destruct (nth_error (upd _ si (upd _ sj s)) (N.to_nat ((i + 1) mod 256))) as [a|]; [|reflexivity].
  destruct (nth_error (upd _ si (upd _ sj s)) (N.to_nat ((j + si) mod 256))) as [b|]; [|reflexivity].
  destruct (nth_error (upd _ si (upd _ sj s)) (N.to_nat ((a + b) mod 256))) as [v|]; reflexivity.
Qed.

(* ---- Rc4::apply_keystream: the loop body translated from src/rc4.rs (it calls the translated output
   step), folded over the slice, is the model's apply_keystream ---- *)
From WS Require Import lib.Calls spec.Rc4 proofs.Rc4.
Definition rc4_triple (r : rc4) : list N * N * N := (st r, ri r, rj r).
Definition ks_view (r : nres (rc4 * list N)) : option ((list N * N * N) * list N) :=
  match r with Ok (r', out) => Some (rc4_triple r', out) | _ => None end.

Lemma rc4_apply_keystream_translated : forall data r,
  slice_loop tr_rc4_apply_keystream_step (rc4_triple r) data = ks_view (apply_keystream r data).
Proof.
  induction data as [|x xs IH]; intros r; [reflexivity|].
  cbn [slice_loop apply_keystream]. unfold tr_rc4_apply_keystream_step at 1, rc4_triple at 1.
  rewrite rc4_prga_translated.
  destruct (pseudo_random_generation r) as [[r' v]|]; [|reflexivity].
  cbn [prga_view]. change (st r', ri r', rj r') with (rc4_triple r'). rewrite IH.
  destruct (apply_keystream r' xs) as [[r'' out]|e|]; [reflexivity|destruct e|reflexivity].
Qed.

(* property level, about the translated functions: from a state produced by the key schedule for a
   non-empty key, a prefix and then any data come out as the RC4 keystream of that key at that offset,
   xored in; in particular calls of any lengths chain *)
Theorem rc4_source_stream : forall key, key <> [] ->
  exists r0, rc4_new key = Ok r0 /\
  forall pre data, exists t1 t2,
    slice_loop tr_rc4_apply_keystream_step (rc4_triple r0) pre = Some (t1, rc4_crypt key 0 pre) /\
    slice_loop tr_rc4_apply_keystream_step t1 data = Some (t2, rc4_crypt key (length pre) data).
Proof.
  intros key Hne. destruct (rc4_refines_spec key Hne) as (r0 & E0 & _ & H).
  exists r0. split; [exact E0|]. intros pre data.
  destruct (H pre data) as (r1 & r2 & E1 & _ & _ & E2 & _ & _).
  exists (rc4_triple r1), (rc4_triple r2). split.
  - rewrite rc4_apply_keystream_translated, E1. reflexivity.
  - rewrite rc4_apply_keystream_translated, E2. reflexivity.
Qed.
