(* The constructors of the header-cipher objects, translated from the Rust source on this run, are the
   model's constructors: Vanilla/TBC halves and combined objects (src/{vanilla,tbc}_header/{encrypt,
   decrypt,mod}.rs `new`), Wrath InnerCrypto::new (HMAC-SHA1 keyed by the direction constant over the
   session key, Rc4::new on the tag, 1024 bytes of keystream dropped), the four Wrath halves and the two
   combined objects.  Together with proofs/steps/Rc4.v (Rc4::new / key schedule) this puts the whole
   key-setup path of the three ciphers inside the translated code. *)
From Coq Require Import List NArith Lia.
From WS Require Import lib.Bytes lib.Res lib.Hmac lib.StepLoop Consts Steps model.HeaderCipher model.Rc4
  proofs.steps.Common proofs.steps.Rc4.
From WS Require model.Vanilla model.Tbc model.Wrath.
Import ListNotations.
Local Open Scope N_scope.

Module V := model.Vanilla. Module T := model.Tbc. Module W := model.Wrath.

Definition vhalf_view (h : V.half) : list N * N * N := (V.h_key h, c_idx (V.h_st h), c_prev (V.h_st h)).
Definition thalf_view (h : T.half) : list N * N * N := (T.h_key h, c_idx (T.h_st h), c_prev (T.h_st h)).

Lemma vanilla_encrypter_new_translated : forall sk, tr_vanilla_encrypter_new sk = Some (vhalf_view (V.half_new sk)).
Proof. reflexivity. Qed.
Lemma vanilla_decrypter_new_translated : forall sk, tr_vanilla_decrypter_new sk = Some (vhalf_view (V.half_new sk)).
Proof. reflexivity. Qed.
Lemma vanilla_crypto_new_translated : forall sk,
  tr_vanilla_crypto_new sk = Some (vhalf_view (V.cr_dec (V.crypto_new sk)), vhalf_view (V.cr_enc (V.crypto_new sk))).
Proof. reflexivity. Qed.

Lemma tbc_encrypter_new_translated : forall sk,
  tr_tbc_encrypter_new sk = match T.encrypter_new sk with Ok h => Some (thalf_view h) | _ => None end.
Proof.
  intros sk. unfold tr_tbc_encrypter_new, T.encrypter_new, T.into_key_array. cbv zeta. cbn [fst snd app].
  change [56; 167; 131; 21; 248; 146; 37; 48; 113; 152; 103; 177; 140; 4; 226; 170] with tbc_seed_enc.
  rewrite hmac_sha1_length. reflexivity.
Qed.
Lemma tbc_decrypter_new_translated : forall sk,
  tr_tbc_decrypter_new sk = match T.decrypter_new sk with Ok h => Some (thalf_view h) | _ => None end.
Proof.
  intros sk. unfold tr_tbc_decrypter_new, T.decrypter_new, T.into_key_array. cbv zeta. cbn [fst snd app].
  change [56; 167; 131; 21; 248; 146; 37; 48; 113; 152; 103; 177; 140; 4; 226; 170] with tbc_seed_dec.
  rewrite hmac_sha1_length. reflexivity.
Qed.
Lemma tbc_crypto_new_translated : forall sk,
  tr_tbc_crypto_new sk = match T.crypto_new sk with Ok c => Some (thalf_view (T.cr_dec c), thalf_view (T.cr_enc c)) | _ => None end.
Proof.
  intros sk. unfold tr_tbc_crypto_new, T.crypto_new. rewrite tbc_decrypter_new_translated, tbc_encrypter_new_translated.
  destruct (T.decrypter_new sk) as [d|e|]; [|destruct e|reflexivity]. cbn [bind].
  destruct (T.encrypter_new sk) as [e'|e|]; [reflexivity|destruct e|reflexivity].
Qed.

(* ---- Wrath ---- *)
Lemma wrath_inner_new_translated : forall sk key,
  tr_wrath_inner_new sk key = match W.inner_new sk key with Ok r => Some (rc4_triple r) | _ => None end.
Proof.
  intros sk key. unfold tr_wrath_inner_new, W.inner_new. cbv zeta. cbn [fst snd app].
  rewrite rc4_new_translated. destruct (rc4_new (hmac_sha1 key sk)) as [r|e|]; [|destruct e|reflexivity].
  change (N.to_nat 1024) with (N.to_nat wrath_drop).
  rewrite rc4_apply_keystream_translated.
  destruct (apply_keystream r _) as [[r' out]|e|]; [reflexivity|destruct e|reflexivity].
Qed.

Definition senc_view (h : W.server_enc) := (rc4_triple (W.se_rc4 h), W.se_buf h).
Definition cenc_view (h : W.client_enc) := rc4_triple (W.ce_rc4 h).
Definition sdec_view (h : W.server_dec) := rc4_triple (W.sd_rc4 h).
Definition cdec_view (h : W.client_dec) := (rc4_triple (W.cd_rc4 h), W.cd_hdr h).

Lemma wrath_server_enc_new_translated : forall sk,
  tr_wrath_server_enc_new sk = match W.server_enc_new sk with Ok h => Some (senc_view h) | _ => None end.
Proof.
  intros sk. unfold tr_wrath_server_enc_new, W.server_enc_new. rewrite wrath_inner_new_translated.
  destruct (W.inner_new sk wrath_R) as [r|e|]; [reflexivity|destruct e|reflexivity].
Qed.
Lemma wrath_client_enc_new_translated : forall sk,
  tr_wrath_client_enc_new sk = match W.client_enc_new sk with Ok h => Some (cenc_view h) | _ => None end.
Proof.
  intros sk. unfold tr_wrath_client_enc_new, W.client_enc_new. rewrite wrath_inner_new_translated.
  destruct (W.inner_new sk wrath_S) as [r|e|]; [reflexivity|destruct e|reflexivity].
Qed.
Lemma wrath_server_dec_new_translated : forall sk,
  tr_wrath_server_dec_new sk = match W.server_dec_new sk with Ok h => Some (sdec_view h) | _ => None end.
Proof.
  intros sk. unfold tr_wrath_server_dec_new, W.server_dec_new. rewrite wrath_inner_new_translated.
  destruct (W.inner_new sk wrath_S) as [r|e|]; [reflexivity|destruct e|reflexivity].
Qed.
Lemma wrath_client_dec_new_translated : forall sk,
  tr_wrath_client_dec_new sk = match W.client_dec_new sk with Ok h => Some (cdec_view h) | _ => None end.
Proof.
  intros sk. unfold tr_wrath_client_dec_new, W.client_dec_new. rewrite wrath_inner_new_translated.
  destruct (W.inner_new sk wrath_R) as [r|e|]; [reflexivity|destruct e|reflexivity].
Qed.
Lemma wrath_client_crypto_new_translated : forall sk,
  tr_wrath_client_crypto_new sk
  = match W.client_crypto_new sk with Ok c => Some (cdec_view (W.cc_dec c), cenc_view (W.cc_enc c)) | _ => None end.
Proof.
  intros sk. unfold tr_wrath_client_crypto_new, W.client_crypto_new.
  rewrite wrath_client_dec_new_translated, wrath_client_enc_new_translated.
  destruct (W.client_dec_new sk) as [d|e|]; [|destruct e|reflexivity].
  destruct (W.client_enc_new sk) as [e'|e|]; [reflexivity|destruct e|reflexivity].
Qed.
Lemma wrath_server_crypto_new_translated : forall sk,
  tr_wrath_server_crypto_new sk
  = match W.server_crypto_new sk with Ok c => Some (sdec_view (W.sc_dec c), senc_view (W.sc_enc c)) | _ => None end.
Proof.
  intros sk. unfold tr_wrath_server_crypto_new, W.server_crypto_new.
  rewrite wrath_server_dec_new_translated, wrath_server_enc_new_translated.
  destruct (W.server_dec_new sk) as [d|e|]; [|destruct e|reflexivity].
  destruct (W.server_enc_new sk) as [e'|e|]; [reflexivity|destruct e|reflexivity].
Qed.

(* ---- split / unsplit / is_pair_of (life cycle of the combined objects) ---- *)
Lemma vanilla_split_translated : forall c,
  tr_vanilla_split (vhalf_view (V.cr_dec c)) (vhalf_view (V.cr_enc c)) = Some (vhalf_view (fst (V.split c)), vhalf_view (snd (V.split c))).
Proof. reflexivity. Qed.
Lemma tbc_split_translated : forall c,
  tr_tbc_split (thalf_view (T.cr_dec c)) (thalf_view (T.cr_enc c)) = Some (thalf_view (fst (T.split c)), thalf_view (snd (T.split c))).
Proof. reflexivity. Qed.
Lemma wrath_client_split_translated : forall c,
  tr_wrath_client_split (cdec_view (W.cc_dec c)) (cenc_view (W.cc_enc c)) = Some (cenc_view (fst (W.cc_split c)), cdec_view (snd (W.cc_split c))).
Proof. reflexivity. Qed.
Lemma wrath_server_split_translated : forall c,
  tr_wrath_server_split (sdec_view (W.sc_dec c)) (senc_view (W.sc_enc c)) = Some (senc_view (fst (W.sc_split c)), sdec_view (snd (W.sc_split c))).
Proof. reflexivity. Qed.

Lemma vanilla_is_pair_of_translated : forall e d,
  tr_vanilla_enc_is_pair_of (V.h_key e) (c_idx (V.h_st e)) (c_prev (V.h_st e)) (V.h_key d) (c_idx (V.h_st d)) (c_prev (V.h_st d))
  = Some (V.is_pair_of e d) /\
  tr_vanilla_dec_is_pair_of (V.h_key d) (c_idx (V.h_st d)) (c_prev (V.h_st d)) (V.h_key e) (c_idx (V.h_st e)) (c_prev (V.h_st e))
  = Some (V.is_pair_of e d).
Proof. intros e d. split; reflexivity. Qed.

Lemma vanilla_unsplit_translated : forall e d,
  tr_vanilla_unsplit (V.h_key e) (c_idx (V.h_st e)) (c_prev (V.h_st e)) (V.h_key d) (c_idx (V.h_st d)) (c_prev (V.h_st d))
  = match V.unsplit e d with
    | Ok c => Some (inl (vhalf_view (V.cr_dec c), vhalf_view (V.cr_enc c)))
    | Err _ => Some (inr tt) | Panic => None end.
Proof.
  intros e d. unfold tr_vanilla_unsplit, V.unsplit, V.is_pair_of.
  destruct (list_eqb (V.h_key e) (V.h_key d)); reflexivity.
Qed.

(* property level: splitting a combined object and unsplitting the two halves again, as translated, gives
   back exactly the object; halves of objects made from different session keys are refused *)
Theorem vanilla_source_split_unsplit : forall K,
  exists d e, tr_vanilla_crypto_new K = Some (d, e) /\ tr_vanilla_split d e = Some (e, d) /\
    (let '(k1, i1, p1) := e in let '(k2, i2, p2) := d in tr_vanilla_unsplit k1 i1 p1 k2 i2 p2) = Some (inl (d, e)).
Proof.
  intros K. exists (K, 0, 0), (K, 0, 0). split; [reflexivity|]. split; [reflexivity|].
  unfold tr_vanilla_unsplit. rewrite list_eqb_refl. reflexivity.
Qed.

Theorem vanilla_source_unsplit_refuses : forall K K' i p i' p', K <> K' ->
  tr_vanilla_unsplit K i p K' i' p' = Some (inr tt).
Proof.
  intros K K' i p i' p' H. unfold tr_vanilla_unsplit.
  destruct (list_eqb K K') eqn:E; [apply list_eqb_spec in E; contradiction|reflexivity].
Qed.

(* ---- InnerCrypto::apply and the four Wrath half encrypt / decrypt methods ---- *)
Lemma wrath_inner_apply_translated : forall r data,
  tr_wrath_inner_apply (rc4_triple r) data
  = match W.inner_apply r data with Ok (r', out) => Some (rc4_triple r', tt, out) | _ => None end.
Proof.
  intros r data. unfold tr_wrath_inner_apply, W.inner_apply. rewrite rc4_apply_keystream_translated.
  destruct (apply_keystream r data) as [[r' out]|e|]; [reflexivity|destruct e|reflexivity].
Qed.
Lemma wrath_server_enc_encrypt_translated : forall h data,
  tr_wrath_server_enc_encrypt (rc4_triple (W.se_rc4 h)) (W.se_buf h) data
  = match W.se_encrypt h data with Ok (h', out) => Some (senc_view h', tt, out) | _ => None end.
Proof.
  intros h data. unfold tr_wrath_server_enc_encrypt, W.se_encrypt. rewrite wrath_inner_apply_translated.
  destruct (W.inner_apply _ data) as [[r out]|e|]; [reflexivity|destruct e|reflexivity].
Qed.
Lemma wrath_client_enc_encrypt_translated : forall h data,
  tr_wrath_client_enc_encrypt (rc4_triple (W.ce_rc4 h)) data
  = match W.ce_encrypt h data with Ok (h', out) => Some (cenc_view h', tt, out) | _ => None end.
Proof.
  intros h data. unfold tr_wrath_client_enc_encrypt, W.ce_encrypt. rewrite wrath_inner_apply_translated.
  destruct (W.inner_apply _ data) as [[r out]|e|]; [reflexivity|destruct e|reflexivity].
Qed.
Lemma wrath_server_dec_decrypt_translated : forall h data,
  tr_wrath_server_dec_decrypt (rc4_triple (W.sd_rc4 h)) data
  = match W.sd_decrypt h data with Ok (h', out) => Some (sdec_view h', tt, out) | _ => None end.
Proof.
  intros h data. unfold tr_wrath_server_dec_decrypt, W.sd_decrypt. rewrite wrath_inner_apply_translated.
  destruct (W.inner_apply _ data) as [[r out]|e|]; [reflexivity|destruct e|reflexivity].
Qed.
Lemma wrath_client_dec_decrypt_translated : forall h data,
  tr_wrath_client_dec_decrypt (rc4_triple (W.cd_rc4 h)) (W.cd_hdr h) data
  = match W.cd_decrypt h data with Ok (h', out) => Some (cdec_view h', tt, out) | _ => None end.
Proof.
  intros h data. unfold tr_wrath_client_dec_decrypt, W.cd_decrypt. rewrite wrath_inner_apply_translated.
  destruct (W.inner_apply _ data) as [[r out]|e|]; [reflexivity|destruct e|reflexivity].
Qed.
