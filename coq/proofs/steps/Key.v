(* SKey::as_equal_slice: the body translated from src/key.rs on this run (a bounded `while` scan over
   the leading zero bytes, rounding the count up to an even number, then a slice) is the model's
   as_equal_slice, for every secret shorter than 2^64 - 1 bytes and any fuel above its length. *)
From Coq Require Import List NArith Arith Lia ZifyBool ZifyNat ZifyN.
From WS Require Import lib.Bytes lib.Res lib.StepLoop Consts Steps spec.Srp6 model.Bigint model.Key proofs.Key.
Import ListNotations.
Local Open Scope N_scope.
Ltac Zify.zify_post_hook ::= Z.div_mod_to_equations.

Definition res_view {A} (r : nres A) : option A := match r with Ok a => Some a | _ => None end.

Lemma lead_zeros_skipn_cons : forall (s : list N) n t,
  nth_error s n = Some t ->
  lead_zeros (skipn n s) = if t =? 0 then S (lead_zeros (skipn (S n) s)) else O.
Proof.
  induction s as [|x r IH]; intros [|n] t H; cbn in H; try discriminate.
  - injection H as ->. cbn [skipn lead_zeros]. destruct t; reflexivity.
  - cbn [skipn]. now apply IH.
Qed.

Lemma lead_zeros_le : forall s : list N, (lead_zeros s <= length s)%nat.
Proof. induction s as [|x r IH]; cbn; [lia|]. destruct x; cbn; lia. Qed.

Section Scan.
  Variable s : list N.
  Hypothesis Hlen : N.of_nat (length s) < 18446744073709551615.

  Let cond := fun v_lead : N =>
    if (v_lead <? N.of_nat (length s)) then
      match nth_error s (N.to_nat v_lead) with None => None | Some t1 => Some (t1 =? 0) end
    else Some false.
  Let body := fun v_lead : N =>
    if 18446744073709551615 <? v_lead + 1 then None else Some (v_lead + 1).

  Lemma scan_loop : forall fuel n,
    (n <= length s)%nat -> (length s - n < fuel)%nat ->
    while_loop fuel cond body (N.of_nat n) = Some (N.of_nat (n + lead_zeros (skipn n s))).
  Proof.
    induction fuel as [|f IH]; intros n Hn Hf; [lia|].
    cbn [while_loop]. unfold cond at 1.
    destruct (N.of_nat n <? N.of_nat (length s)) eqn:E.
    - assert (Hlt : (n < length s)%nat) by lia.
      rewrite Nat2N.id.
      destruct (nth_error s n) as [t|] eqn:Et; [|apply nth_error_None in Et; lia].
      rewrite (lead_zeros_skipn_cons s n t Et).
      destruct (t =? 0) eqn:Ez.
      + unfold body at 1.
        destruct (18446744073709551615 <? N.of_nat n + 1) eqn:Eo; [lia|].
        replace (N.of_nat n + 1) with (N.of_nat (S n)) by lia.
        rewrite IH by lia. f_equal. lia.
      + f_equal. lia.
    - assert (n = length s) by lia. subst n.
      rewrite skipn_all. cbn [lead_zeros]. f_equal. lia.
  Qed.
End Scan.

Lemma N_odd_mod2 : forall n : nat, negb (N.of_nat n mod 2 =? 0) = Nat.odd n.
Proof.
  intro n. rewrite <- Nat.negb_even. f_equal.
  destruct (Nat.even n) eqn:E.
  - apply Nat.even_spec in E. destruct E as [k ->]. apply N.eqb_eq. lia.
  - apply N.eqb_neq. intro H.
    assert (Nat.even n = true); [|congruence].
    apply Nat.even_spec. exists (N.to_nat (N.of_nat n / 2)). lia.
Qed.

Lemma skey_as_equal_slice_translated : forall (s : list N) fuel,
  N.of_nat (length s) < 18446744073709551615 -> (length s < fuel)%nat ->
  tr_skey_as_equal_slice fuel s = res_view (as_equal_slice s).
Proof.
  intros s fuel Hlen Hf. unfold tr_skey_as_equal_slice, as_equal_slice.
  pose proof (scan_loop s Hlen fuel 0 ltac:(lia) ltac:(lia)) as L.
  cbn [N.of_nat skipn Nat.add] in L. rewrite L. clear L.
  pose proof (lead_zeros_le s) as Hle.
  set (lead := lead_zeros s) in *.
  change (2 =? 0) with false. cbv iota.
  rewrite N_odd_mod2.
  destruct (Nat.odd lead) eqn:Eodd.
  - destruct (18446744073709551615 <? N.of_nat lead + 1) eqn:Eo; [lia|].
    destruct (N.of_nat (length s) <? N.of_nat lead + 1) eqn:E1;
    destruct (length s <? S lead)%nat eqn:E2; try lia; [reflexivity|].
    cbn [res_view]. do 2 f_equal. lia.
  - destruct (N.of_nat (length s) <? N.of_nat lead) eqn:E1;
    destruct (length s <? lead)%nat eqn:E2; try lia.
    cbn [res_view]. do 2 f_equal. lia.
Qed.

(* the 32-byte secret of the crate, with the fuel the obligations use *)
Corollary skey_as_equal_slice_translated_32 : forall s : list N,
  length s = 32%nat -> tr_skey_as_equal_slice 33 s = res_view (as_equal_slice s).
Proof. intros s H. apply skey_as_equal_slice_translated; rewrite H; [reflexivity | lia]. Qed.

(* property level, about the translated function: the 32-byte secret loses its low-order zero bytes
   and, if an odd number of bytes is left, one more; the all-zero secret gives the empty slice
   (no panic: the scan is bounded by the length) *)
Theorem skey_source_strip : forall s : list N, length s = 32%nat ->
  tr_skey_as_equal_slice 33 s = Some (strip s).
Proof.
  intros s H. rewrite skey_as_equal_slice_translated_32 by exact H.
  rewrite as_equal_slice_spec by (rewrite H; reflexivity). reflexivity.
Qed.
Theorem skey_source_zero_secret : tr_skey_as_equal_slice 33 (repeat 0 32) = Some [].
Proof. rewrite skey_source_strip by reflexivity. reflexivity. Qed.
