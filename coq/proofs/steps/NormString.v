(* NormalizedString::new: the body of its inner function translated from src/normalized_string.rs on this
   run (byte-length gate, the loop over s.chars().enumerate() with its early return on the first
   character that is not printable ASCII, upper-casing into the 16-byte array, length as u8) is the
   model's ns_new. *)
From Coq Require Import List NArith Lia ZifyBool ZifyN ZifyNat Bool.
From WS Require Import lib.Bytes lib.Res lib.StepLoop Consts Steps model.NormalizedString.
Import ListNotations.
Local Open Scope N_scope.

Definition ns_view (r : res nstr ns_error) : option (nstr_view + ns_error) :=
  match r with Ok t => Some (inl (ns_arr t, ns_len t)) | Err e => Some (inr e) | Panic => None end.

Lemma write_list_set : forall (l : list N) n v,
  write n v l = if (n <? length l)%nat then Some (list_set l n v) else None.
Proof.
  induction l as [|x r IH]; intros [|n] v; cbn [write list_set length]; try reflexivity.
  rewrite IH. change (S n <? S (length r))%nat with (n <? length r)%nat.
  destruct (n <? length r)%nat; reflexivity.
Qed.

Definition ns_body := fun (v_array : list N) '(v_i, v_c) =>
  if ((negb (is_ascii v_c)) || (is_ascii_control v_c)) then Some (inl (inr (A := nstr_view) (CharacterNotAllowed v_c)))
  else if N.of_nat (length v_array) <=? v_i then None
  else let v_array := list_set v_array (N.to_nat v_i) ((to_ascii_uppercase v_c) mod 256) in Some (inr v_array).

Lemma ns_loop_translated : forall cs i arr,
  for_loop ns_body arr (enumerate_from (N.of_nat i) cs)
  = match ns_loop i cs arr with
    | Ok a => Some (inr a)
    | Err e => Some (inl (inr e))
    | Panic => None
    end.
Proof.
  induction cs as [|c r IH]; intros i arr; [reflexivity|].
  cbn [enumerate_from for_loop ns_loop]. unfold ns_body at 1.
  destruct (negb (is_ascii c) || is_ascii_control c); [reflexivity|].
  rewrite write_list_set, Nat2N.id.
  destruct (N.of_nat (length arr) <=? N.of_nat i) eqn:E1; destruct (i <? length arr)%nat eqn:E2; try lia; [reflexivity|].
  replace (N.of_nat i + 1) with (N.of_nat (S i)) by lia. apply IH.
Qed.

Lemma normalized_string_new_translated : forall s,
  tr_normalized_string_new s = ns_view (ns_new s).
Proof.
  intro s. unfold tr_normalized_string_new, ns_new.
  destruct ((max_string_length <? N.of_nat (str_len s)) || (Nat.eqb (str_len s) 0)); [reflexivity|].
  change (enumerate_list s) with (enumerate_from (N.of_nat 0) s).
  match goal with |- context [for_loop ?b ?a ?l] => change (for_loop b a l) with (for_loop ns_body a l) end.
  rewrite ns_loop_translated.
  destruct (ns_loop 0 s _) as [a|e|]; reflexivity.
Qed.

(* the four other constructors and conversions, each translated from its own body: all delegate to new *)
Lemma normalized_string_constructors_translated : forall s,
  tr_normalized_string_from_str s = tr_normalized_string_new s /\
  tr_normalized_string_from_string s = tr_normalized_string_new s /\
  tr_normalized_string_try_from_str s = tr_normalized_string_new s /\
  tr_normalized_string_try_from_string s = tr_normalized_string_new s.
Proof.
  intro s. unfold tr_normalized_string_from_str, tr_normalized_string_from_string,
    tr_normalized_string_try_from_str, tr_normalized_string_try_from_string.
  destruct (tr_normalized_string_new s); repeat split; reflexivity.
Qed.

(* ---- the outer NormalizedString::new (its nested `inner` is the function translated above) and
   AsRef<str>::as_ref: `from_utf8(&self.s[..self.length as usize]).unwrap()` with the ASCII criterion ---- *)
Lemma normalized_string_new_outer_translated : forall s, tr_normalized_string_new_outer s = tr_normalized_string_new s.
Proof. intros s. unfold tr_normalized_string_new_outer. destruct (tr_normalized_string_new s); reflexivity. Qed.

Lemma normalized_string_as_ref_translated : forall t,
  tr_normalized_string_as_ref (ns_arr t) (ns_len t) = match ns_as_ref t with Ok x => Some x | _ => None end.
Proof.
  intros [arr len]. unfold tr_normalized_string_as_ref, ns_as_ref, ns_text. cbn [ns_arr ns_len].
  destruct (Nat.ltb_spec (length arr) (N.to_nat len)) as [H|H].
  - destruct (N.ltb_spec (N.of_nat (length arr)) len) as [_|H']; [reflexivity|lia].
  - destruct (N.ltb_spec (N.of_nat (length arr)) len) as [H'|_]; [lia|].
    destruct (N.ltb_spec len 0) as [H'|_]; [lia|].
    cbv zeta. rewrite N.sub_0_r. change (N.to_nat 0) with 0%nat. cbn [skipn].
    destruct (forallb _ _); reflexivity.
Qed.
