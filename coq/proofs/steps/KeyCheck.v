(* check_public_key: the body translated from src/key.rs on this run (whole-array comparison with
   zero, then with the prime, each with its own error) is the model's check_public_key. *)
From Coq Require Import List NArith ZArith.
From WS Require Import lib.Bytes lib.Res lib.StepLoop Consts Steps model.Bigint model.Key primes.NFacts proofs.Key.
Import ListNotations.

Definition check_view (r : res unit pk_error) : option (unit + pk_error) :=
  match r with Ok u => Some (inl u) | Err e => Some (inr e) | Panic => None end.

Lemma key_check_public_key_translated : forall key,
  tr_key_check_public_key key = check_view (check_public_key key).
Proof.
  intro key. unfold tr_key_check_public_key, check_public_key.
  destruct (list_eqb key (repeat 0%N (N.to_nat public_key_length))); [reflexivity|].
  destruct (list_eqb key n_le); reflexivity.
Qed.

(* property level, about the translated function: a 32-byte key is refused exactly when it is
   congruent to zero modulo N *)
Theorem key_source_check_iff : forall key, bytesn 32 key ->
  (tr_key_check_public_key key = Some (inl tt) <-> (le_to_Z key mod Nz <> 0)%Z).
Proof.
  intros key Hk. rewrite key_check_public_key_translated.
  pose proof (check_iff key Hk) as [H1 H2]. split.
  - intro H. apply H1. destruct (check_public_key key) as [[]|e|]; [reflexivity|discriminate|discriminate].
  - intro H. rewrite (H2 H). reflexivity.
Qed.

(* ---- PublicKey::from_le_bytes, try_from_bigint and client_try_from_bigint, translated from src/key.rs
   on this run (the padded copy `key[0..b.len()].clone_from_slice(&b)` with its range and length checks;
   the back end's to_bytes_le / % are the modelled dependency) ---- *)
From Coq Require Import Lia.
From WS Require Import model.Bigint.

Definition pk_view (r : res (list N) pk_error) : option (list N + pk_error) :=
  match r with Ok a => Some (inl a) | Err e => Some (inr e) | Panic => None end.

Lemma key_public_from_le_bytes_translated : forall key,
  tr_key_public_from_le_bytes key = pk_view (pk_from_le_bytes key).
Proof.
  intros key. unfold tr_key_public_from_le_bytes, pk_from_le_bytes. rewrite key_check_public_key_translated.
  destruct (check_public_key key) as [[]|e|]; reflexivity.
Qed.

Lemma skipn_repeat_N' : forall n m (x : N), skipn n (repeat x m) = repeat x (m - n).
Proof. induction n as [|n IH]; intros [|m] x; cbn [skipn repeat Nat.sub]; try reflexivity. apply IH. Qed.

(* the range / length checks of the padded copy are exactly pad_to's Panic condition *)
Lemma padded_copy : forall {R} len (v : list N) (k : list N -> option R),
  (let v_key := repeat 0%N len in
   if (N.of_nat (length v_key) <? N.of_nat (length v))%N then None else if (N.of_nat (length v) <? 0)%N then None else
   if negb (N.of_nat (length v) =? N.of_nat (length v) - 0)%N then None else
   let v_key := (firstn (N.to_nat 0) v_key ++ v ++ skipn (N.to_nat (N.of_nat (length v))) v_key) in
   k v_key)
  = match pad_to len v with Ok a => k a | _ => None end.
Proof.
  intros R len v k. cbv zeta. unfold pad_to. rewrite repeat_length.
  destruct (Nat.ltb_spec len (length v)) as [Hlt|Hge].
  - destruct (N.ltb_spec (N.of_nat len) (N.of_nat (length v))) as [_|H]; [reflexivity|lia].
  - destruct (N.ltb_spec (N.of_nat len) (N.of_nat (length v))) as [H|_]; [lia|].
    destruct (N.ltb_spec (N.of_nat (length v)) 0) as [H|_]; [lia|].
    rewrite N.sub_0_r, N.eqb_refl. cbn [negb firstn app]. rewrite Nat2N.id, skipn_repeat_N'. reflexivity.
Qed.

Lemma key_try_from_bigint_translated : forall be z,
  tr_key_try_from_bigint be z = pk_view (pk_try_from_bigint be z).
Proof.
  intros be z. unfold tr_key_try_from_bigint, pk_try_from_bigint.
  pose proof (padded_copy (N.to_nat public_key_length) (to_bytes_le be z)
             (fun v_key => match tr_key_public_from_le_bytes v_key with None => None | Some o1 => Some o1 end)) as P.
  cbv zeta in P. cbv zeta. rewrite P. clear P.
  destruct (pad_to _ _) as [key|e|]; [|destruct e|reflexivity].
  rewrite key_public_from_le_bytes_translated. destruct (pk_from_le_bytes key) as [a|e|]; reflexivity.
Qed.

Lemma key_client_try_from_bigint_translated : forall be z n',
  tr_key_client_try_from_bigint be z n' = pk_view (pk_client_try_from_bigint be z n').
Proof.
  intros be z n'. unfold tr_key_client_try_from_bigint, pk_client_try_from_bigint.
  destruct (is_zero z); [reflexivity|].
  destruct (rem z (from_bytes_le n')) as [r|e|]; [|destruct e|reflexivity].
  destruct (is_zero r); [reflexivity|].
  pose proof (padded_copy (N.to_nat public_key_length) (to_bytes_le be z) (fun v_key => @Some (list N + pk_error) (inl v_key))) as P.
  cbv zeta in P. cbv zeta. rewrite P. clear P.
  destruct (pad_to _ _) as [key|e|]; [reflexivity|destruct e|reflexivity].
Qed.

(* the From<Integer> body of the key_no_checks_initialization! macro: the padded copy to $size bytes *)
Lemma key_macro_from_bigint_translated : forall be size z,
  tr_key_macro_from_bigint be size z = match key_from_bigint be (N.to_nat size) z with Ok a => Some a | _ => None end.
Proof.
  intros be size z. unfold tr_key_macro_from_bigint, key_from_bigint.
  pose proof (padded_copy (N.to_nat size) (to_bytes_le be z) (fun v_key => Some v_key)) as P.
  cbv zeta in P. cbv zeta. rewrite P. reflexivity.
Qed.
