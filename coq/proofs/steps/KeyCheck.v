(* check_public_key: the body translated from src/key.rs on this run (whole-array comparison with
   zero, then with the prime, each with its own error) is the model's check_public_key. *)
From Coq Require Import List NArith ZArith.
From WS Require Import lib.Bytes lib.Res lib.StepLoop Consts Steps model.Bigint model.Key primes.NFacts proofs.Key.
Import ListNotations.

Definition check_view (r : res unit pk_error) : option (unit + pk_error) :=
  match r with Ok u => Some (inl u) | Err e => Some (inr e) | Panic => None end.

Lemma key_check_public_key_translated : forall key,
  tr_key_check_public_key key = check_view (check_public_key key).
Proof.
  intro key. unfold tr_key_check_public_key, check_public_key.
  destruct (list_eqb key (repeat 0%N (N.to_nat public_key_length))); [reflexivity|].
  destruct (list_eqb key n_le); reflexivity.
Qed.

(* property level, about the translated function: a 32-byte key is refused exactly when it is
   congruent to zero modulo N *)
Theorem key_source_check_iff : forall key, bytesn 32 key ->
  (tr_key_check_public_key key = Some (inl tt) <-> (le_to_Z key mod Nz <> 0)%Z).
Proof.
  intros key Hk. rewrite key_check_public_key_translated.
  pose proof (check_iff key Hk) as [H1 H2]. split.
  - intro H. apply H1. destruct (check_public_key key) as [[]|e|]; [reflexivity|discriminate|discriminate].
  - intro H. rewrite (H2 H). reflexivity.
Qed.
