From WS Require Import lib.Bytes lib.Res lib.Tape Consts model.Random.
From Coq Require Import ZifyN ZifyNat ZifyBool.
Local Open Scope N_scope.
Ltac Zify.zify_post_hook ::= Z.div_mod_to_equations.

Lemma le_to_N_bound l : bytes l -> le_to_N l < 256 ^ N.of_nat (length l).
Proof.
  induction 1 as [|b l Hb Hl IH]; cbn [le_to_N length]; [cbn; lia|].
  rewrite Nnat.Nat2N.inj_succ, N.pow_succ_r by lia. unfold byte_ok in Hb. lia.
Qed.

Lemma skipn_skipn_add {A} m n (l : list A) : skipn m (skipn n l) = skipn (n + m) l.
Proof.
  revert l; induction n as [|n IH]; intros l; [reflexivity|].
  destruct l as [|x l]; cbn [skipn Nat.add]; [now rewrite skipn_nil | apply IH].
Qed.

Theorem uniform_sample_range fuel : forall t d t', bytes t ->
  uniform_sample fuel 0 10 6 t = Some (d, t') -> d < 10 /\ exists k, t' = skipn (4 * k) t.
Proof.
  induction fuel as [|f IH]; intros t d t' Hb H; cbn [uniform_sample] in H; [discriminate|].
  destruct (length t <? 4)%nat eqn:E; [discriminate|].
  unfold next_u32, draw in H.
  assert (Hv : le_to_N (firstn 4 t) < 4294967296).
  { pose proof (le_to_N_bound (firstn 4 t) (bytes_firstn 4 t Hb)) as B.
    rewrite firstn_length in B. replace (Nat.min 4 (length t)) with 4%nat in B by lia. exact B. }
  remember (le_to_N (firstn 4 t)) as v eqn:Ev. remember (skipn 4 t) as t1 eqn:Et1.
  destruct (_ <=? _) in H.
  - injection H as Hd Ht. subst d t'. split.
    + assert (Q : v * 10 / 4294967296 < 10) by (apply N.div_lt_upper_bound; lia).
      rewrite N.mod_small; lia.
    + exists 1%nat. subst t1. reflexivity.
  - subst t1. destruct (IH (skipn 4 t) d t' (bytes_skipn 4 t Hb) H) as [Hd [k Hk]].
    split; [exact Hd|]. exists (S k). rewrite Hk, skipn_skipn_add. f_equal. lia.
Qed.

Theorem fill_range n : forall t ds t', bytes t ->
  fill_matrix_card_values n t = Some (ds, t') -> length ds = n /\ Forall (fun d => d < 10) ds.
Proof.
  induction n as [|n IH]; intros t ds t' Hb H; cbn [fill_matrix_card_values] in H.
  - inversion H; subst. split; [reflexivity|constructor].
  - change (uniform_range min_matrix_card_value max_matrix_card_value) with 10 in H.
    change (uniform_reject 10) with 6 in H. change min_matrix_card_value with 0 in H.
    destruct (uniform_sample (S (length t)) 0 10 6 t) as [[d t1]|] eqn:E; [|discriminate].
    destruct (uniform_sample_range _ _ _ _ Hb E) as [Hd [k Hk]].
    destruct (fill_matrix_card_values n t1) as [[ds1 t2]|] eqn:F; [|discriminate].
    inversion H; subst. assert (Hb1 : bytes (skipn (4 * k) t)) by now apply bytes_skipn.
    destruct (IH _ _ _ Hb1 F) as [L A]. split; [cbn [length]; lia | constructor; assumption].
Qed.
