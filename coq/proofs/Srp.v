(* C03: every model function of srp_internal.rs / srp_internal_client.rs equals the WoW SRP6
   specification (spec/Srp6.v), for all inputs. *)
From WS Require Import lib.Bytes lib.Res lib.Sha1 Consts model.Bigint model.Key model.Srp spec.Srp6
  proofs.Bigint proofs.Key primes.NFacts.
From Coq Require Import ZifyN ZifyNat ZifyBool Znumtheory Zpow_facts.
Local Open Scope Z_scope.

Lemma gz : generator_z = 7. Proof. reflexivity. Qed.
Lemma kz : k_z = 3. Proof. reflexivity. Qed.
Lemma lspz : lsp_z = Nz. Proof. reflexivity. Qed.

(* ---- interleave ---- *)
Lemma step2_evens l : step2 l = evens l.
Proof. reflexivity. Qed.

Lemma step2_tl_odds l : step2 (tl l) = odds l.
Proof.
  assert (H : forall n l, (length l <= n)%nat -> step2 (tl l) = odds l).
  { induction n as [|n IH]; intros [|a [|b r]] Hl; cbn [tl odds length] in *; try reflexivity; try lia.
    destruct r as [|c r']; [reflexivity|]. cbn [step2]. f_equal.
    specialize (IH (c :: r') ltac:(cbn [length] in *; lia)). cbn [tl] in IH. exact IH. }
  apply (H (length l)). lia.
Qed.

Lemma evens_odds_length l : Nat.even (length l) = true ->
  length (evens l) = (length l / 2)%nat /\ length (odds l) = (length l / 2)%nat.
Proof.
  assert (H : forall n l, (length l <= n)%nat -> Nat.even (length l) = true ->
            length (evens l) = (length l / 2)%nat /\ length (odds l) = (length l / 2)%nat).
  { induction n as [|n IH]; intros [|a [|b r]] Hl He; cbn [length evens odds] in *; try (split; reflexivity); try lia; try discriminate.
    destruct (IH r ltac:(lia) He) as [E O]. rewrite E, O.
    replace (S (S (length r))) with (length r + 1 * 2)%nat by lia. rewrite Nat.div_add by lia. lia. }
  apply (H (length l)). lia.
Qed.

Lemma zip_write_zip2 g h : zip_write g h = zip2 g h.
Proof. reflexivity. Qed.

Lemma zip2_length g h : length g = length h -> length (zip2 g h) = (2 * length g)%nat.
Proof.
  revert h; induction g as [|x g IH]; intros [|y h] Hl; cbn [length zip2] in *; try lia.
  rewrite IH by lia. lia.
Qed.

Lemma zip2_bytes g h : bytes g -> bytes h -> bytes (zip2 g h).
Proof.
  intros Hg; revert h; induction Hg as [|x g Hx Hg IH]; intros [|y h] Hh; cbn [zip2]; try constructor; auto.
  - inversion Hh; subst. constructor; auto. apply IH. assumption.
Qed.

Lemma interleave_length s : length (interleave s) = 40%nat.
Proof. unfold interleave. rewrite zip2_length; rewrite !sha1_length; reflexivity. Qed.

Lemma interleave_bytes s : bytes (interleave s).
Proof. unfold interleave. apply zip2_bytes; apply sha1_bytes. Qed.

Theorem calculate_interleaved_spec s : length s = 32%nat ->
  calculate_interleaved s = Ok (interleave (strip s)).
Proof.
  intros Hl. unfold calculate_interleaved.
  rewrite as_equal_slice_spec by (rewrite Hl; reflexivity). cbn [bind].
  pose proof (strip_length_even s) as Hev. pose proof (strip_length_le s) as Hle. rewrite Hl in Hle.
  destruct (evens_odds_length (strip s) Hev) as [HE HO].
  rewrite step2_evens, step2_tl_odds.
  assert (Hh : (length (strip s) / 2 <= 16)%nat) by (apply Nat.div_le_upper_bound; lia).
  unfold fill16. change (N.to_nat s_length / 2)%nat with 16%nat.
  replace (16 <? length (evens (strip s)))%nat with false by lia.
  replace (16 <? length (odds (strip s)))%nat with false by lia.
  cbn [bind].
  assert (E1 : firstn (length (strip s) / 2) (evens (strip s) ++ repeat 0%N (16 - length (evens (strip s)))) = evens (strip s)).
  { rewrite <- HE. rewrite firstn_app, firstn_all, Nat.sub_diag, firstn_O, app_nil_r. reflexivity. }
  assert (E2 : firstn (length (strip s) / 2) (odds (strip s) ++ repeat 0%N (16 - length (odds (strip s)))) = odds (strip s)).
  { rewrite <- HO. rewrite firstn_app, firstn_all, Nat.sub_diag, firstn_O, app_nil_r. reflexivity. }
  rewrite E1, E2. rewrite zip_write_zip2. fold (interleave (strip s)).
  change (N.to_nat session_key_length) with 40%nat. rewrite interleave_length.
  change (40 <? 40)%nat with false. change (40 - 40)%nat with 0%nat. cbn [repeat]. now rewrite app_nil_r.
Qed.

(* the zero secret: both sides derive K from two empty hashes, no panic (after repair 0562141) *)
Corollary calculate_interleaved_zero :
  calculate_interleaved (repeat 0%N 32) = Ok (interleave []).
Proof. rewrite calculate_interleaved_spec by reflexivity. reflexivity. Qed.

(* ---- big-integer formulas, default back end ---- *)
Lemma x_nonneg U P salt : 0 <= from_bytes_le (calculate_x U P salt).
Proof. apply le_to_Z_nonneg. Qed.

Lemma calculate_x_spec U P salt : from_bytes_le (calculate_x U P salt) = sp_x U P salt.
Proof. reflexivity. Qed.

Lemma calculate_x_value U P salt : le_to_Z (calculate_x U P salt) = sp_x U P salt.
Proof. reflexivity. Qed.
Lemma calculate_u_value A B : le_to_Z (calculate_u A B) = sp_u A B.
Proof. reflexivity. Qed.

Theorem verifier_spec U P salt :
  calculate_password_verifier Default U P salt = Ok (LE32 (sp_v 7 Nz (sp_x U P salt))).
Proof.
  unfold calculate_password_verifier. rewrite gz, lspz, calculate_x_spec.
  rewrite modpow_default by (try apply Nz_pos; apply le_to_Z_nonneg). cbn [bind].
  apply to_padded_32. unfold sp_v. pose proof (Z.mod_pos_bound (7 ^ sp_x U P salt) Nz Nz_pos). pose proof Nz_lt. lia.
Qed.

Theorem server_public_key_spec v b :
  let B := sp_B 3 7 Nz (le_to_Z v) (le_to_Z b) in
  (B <> 0 -> calculate_server_public_key Default v b = Ok (LE32 B)) /\
  (B = 0 -> calculate_server_public_key Default v b = Err PublicKeyIsZero).
Proof.
  cbn zeta. unfold calculate_server_public_key. rewrite gz, kz, lspz. unfold from_bytes_le.
  rewrite modpow_default by (try apply Nz_pos; apply le_to_Z_nonneg).
  pose proof (Z.mod_pos_bound (7 ^ le_to_Z b) Nz Nz_pos). pose proof (le_to_Z_nonneg v).
  rewrite rem_nonneg by (try apply Nz_pos; lia).
  fold (sp_B 3 7 Nz (le_to_Z v) (le_to_Z b)).
  apply try_from_bigint_spec. unfold sp_B. apply Z.mod_pos_bound. apply Nz_pos.
Qed.

Theorem S_spec A v u b :
  calculate_S Default A v u b = Ok (LE32 (sp_S_server Nz (le_to_Z A) (le_to_Z v) (le_to_Z u) (le_to_Z b))).
Proof.
  unfold calculate_S. rewrite lspz. unfold from_bytes_le.
  rewrite modpow_default by (try apply Nz_pos; apply le_to_Z_nonneg). cbn [bind].
  rewrite modpow_default by (try apply Nz_pos; apply le_to_Z_nonneg). cbn [bind].
  unfold key_from_bigint. change (N.to_nat s_length) with 32%nat. fold (sp_S_server Nz (le_to_Z A) (le_to_Z v) (le_to_Z u) (le_to_Z b)).
  apply pad_to_value; [| |lia].
  - unfold sp_S_server. apply Z.mod_pos_bound, Nz_pos.
  - change (256 ^ Z.of_nat 32) with (2 ^ 256). unfold sp_S_server.
    pose proof (Z.mod_pos_bound ((le_to_Z A * (le_to_Z v ^ le_to_Z u mod Nz)) ^ le_to_Z b) Nz Nz_pos). pose proof Nz_lt. lia.
Qed.

Theorem session_key_spec A B v b : length A = 32%nat ->
  calculate_session_key Default A B v b =
  Ok (sp_K (sp_S_server Nz (le_to_Z A) (le_to_Z v) (sp_u A B) (le_to_Z b))).
Proof.
  intros HA. unfold calculate_session_key. rewrite S_spec. cbn [bind].
  rewrite calculate_interleaved_spec by apply Z_to_le_length. reflexivity.
Qed.

(* ---- client, arbitrary announced group (g', N'): primality of N' is not needed ---- *)
Theorem client_public_key_spec a g n' : 0 < le_to_Z n' -> le_to_Z n' < 2 ^ 256 ->
  let A := sp_A (Z.of_N g) (le_to_Z n') (le_to_Z a) in
  (A <> 0 -> calculate_client_public_key Default a g n' = Ok (LE32 A)) /\
  (A = 0 -> calculate_client_public_key Default a g n' = Err PublicKeyIsZero).
Proof.
  intros Hn Hlt. cbn zeta. unfold calculate_client_public_key, from_bytes_le.
  rewrite modpow_default by (try assumption; apply le_to_Z_nonneg).
  fold (sp_A (Z.of_N g) (le_to_Z n') (le_to_Z a)).
  pose proof (Z.mod_pos_bound (Z.of_N g ^ le_to_Z a) (le_to_Z n') Hn) as Hb. fold (sp_A (Z.of_N g) (le_to_Z n') (le_to_Z a)) in Hb.
  destruct (client_try_from_bigint_spec Default (sp_A (Z.of_N g) (le_to_Z n') (le_to_Z a)) n' Hn ltac:(lia)) as (H1 & H2 & H3).
  split; [|exact H2]. intros Hne. apply H1. rewrite Z.mod_small by lia. exact Hne.
Qed.

Theorem client_S_spec B x a u g n' : 0 < le_to_Z n' -> le_to_Z n' < 2 ^ 256 ->
  calculate_client_S Default B x a u g n' =
  Ok (LE32 (sp_S_client 3 (Z.of_N g) (le_to_Z n') (le_to_Z B) (le_to_Z x) (le_to_Z a) (le_to_Z u))).
Proof.
  intros Hn Hlt. unfold calculate_client_S, from_bytes_le. rewrite kz.
  rewrite modpow_default by (try assumption; apply le_to_Z_nonneg). cbn [bind].
  pose proof (le_to_Z_nonneg a). pose proof (le_to_Z_nonneg u). pose proof (le_to_Z_nonneg x).
  rewrite modpow_default by (try assumption; nia). cbn [bind].
  unfold sp_S_client. rewrite <- Zpower_mod by lia.
  apply to_padded_32.
  pose proof (Z.mod_pos_bound ((le_to_Z B - 3 * (Z.of_N g ^ le_to_Z x mod le_to_Z n')) ^ (le_to_Z a + le_to_Z u * le_to_Z x)) (le_to_Z n') Hn). lia.
Qed.

(* the precomputed xor hash is H(N) xor H(g) for the built-in pair *)
Theorem xor_hash_correct : xor_hash = calculate_xor_hash n_le generator.
Proof. vm_compute. reflexivity. Qed.

Theorem client_proof_spec U K A B salt :
  calculate_client_proof U K A B salt = sp_M1 generator n_le U salt A B K.
Proof. unfold calculate_client_proof, sp_M1. rewrite xor_hash_correct. reflexivity. Qed.

Theorem client_proof_custom_spec U K A B salt n' g :
  calculate_client_proof_with_custom_value U K A B salt n' g = sp_M1 g n' U salt A B K.
Proof. reflexivity. Qed.

Theorem server_proof_spec A M1 K : calculate_server_proof A M1 K = sp_M2 A M1 K.
Proof. reflexivity. Qed.

Theorem reconnect_proof_spec U cd sd K : calculate_reconnect_proof U cd sd K = sp_reconnect_proof U cd sd K.
Proof. reflexivity. Qed.

(* ---- algebra: the two secrets agree (any modulus > 1, any g, k) ---- *)
Section Agree.
Variables (n g k : Z).
Hypothesis Hn : 1 < n.

Theorem secrets_agree a b x u : 0 <= a -> 0 <= b -> 0 <= x -> 0 <= u ->
  sp_S_client k g n (sp_B k g n (sp_v g n x) b) x a u = sp_S_server n (sp_A g n a) (sp_v g n x) u b.
Proof.
  intros Ha Hb Hx Hu. unfold sp_S_client, sp_S_server, sp_B, sp_A, sp_v.
  assert (Hn0 : 0 < n) by lia.
  replace (((k * (g ^ x mod n) + g ^ b mod n) mod n - k * (g ^ x mod n)) mod n) with ((g ^ b) mod n).
  2:{ rewrite Zminus_mod, Zmod_mod, <- Zminus_mod.
      replace (k * (g ^ x mod n) + g ^ b mod n - k * (g ^ x mod n)) with (g ^ b mod n) by ring.
      now rewrite Zmod_mod. }
  rewrite <- Zpower_mod by lia.
  rewrite (Zpower_mod (g ^ a mod n * ((g ^ x mod n) ^ u mod n))) by lia.
  replace ((g ^ a mod n * ((g ^ x mod n) ^ u mod n)) mod n) with ((g ^ (a + x * u)) mod n).
  2:{ rewrite <- (Zpower_mod (g ^ x)) by lia. rewrite <- Zmult_mod.
      rewrite <- Z.pow_mul_r, <- Z.pow_add_r by lia. reflexivity. }
  rewrite <- Zpower_mod by lia.
  rewrite <- !Z.pow_mul_r by lia. f_equal. f_equal. ring.
Qed.
End Agree.
