(* The accelerated evaluator used by the correspondence runner (back end tag DefaultBig) computes
   the same function as the plain-Z model the property theorems are about.
   THIS FILE (and only this file) depends on the Uint63 primitive axioms of Coq's standard library,
   through Bignums' BigZ specification lemmas; see Print Assumptions at the end. *)
From WS Require Import lib.Bytes lib.Res lib.Tape lib.BigPow Consts model.Bigint model.Key model.Srp model.Server model.Client
  proofs.Bigint.
From Bignums Require Import BigZ.
From Coq Require Import ZifyN ZifyNat ZifyBool.
Local Open Scope Z_scope.

Lemma powmod_big_pos_spec b e m :
  BigZ.to_Z (powmod_big_pos b e m) = powmod_pos (BigZ.to_Z b) e (BigZ.to_Z m).
Proof.
  induction e as [e IH|e IH|]; cbn [powmod_big_pos powmod_pos].
  - rewrite BigZ.spec_modulo, BigZ.spec_mul, BigZ.spec_modulo, BigZ.spec_mul, IH. reflexivity.
  - rewrite BigZ.spec_modulo, BigZ.spec_mul, IH. reflexivity.
  - apply BigZ.spec_modulo.
Qed.

Theorem powmod_big_eq b e m : powmod_big b e m = powmod b e m.
Proof.
  destruct e as [|p|p]; cbn [powmod_big powmod]; try reflexivity.
  rewrite powmod_big_pos_spec, !BigZ.spec_of_Z. reflexivity.
Qed.

Theorem modpow_big_agree b e m : modpow DefaultBig b e m = modpow Default b e m.
Proof. unfold modpow. now rewrite powmod_big_eq. Qed.

Lemma to_bytes_le_big z : to_bytes_le DefaultBig z = to_bytes_le Default z.
Proof. reflexivity. Qed.

(* every function of the API model: DefaultBig = Default *)
Theorem verifier_big U P salt : calculate_password_verifier DefaultBig U P salt = calculate_password_verifier Default U P salt.
Proof. unfold calculate_password_verifier. now rewrite modpow_big_agree. Qed.
Theorem server_public_key_big v b : calculate_server_public_key DefaultBig v b = calculate_server_public_key Default v b.
Proof. unfold calculate_server_public_key. now rewrite modpow_big_agree. Qed.
Theorem S_big A v u b : calculate_S DefaultBig A v u b = calculate_S Default A v u b.
Proof. unfold calculate_S. rewrite modpow_big_agree. destruct (modpow Default _ _ _); cbn [bind]; try reflexivity. now rewrite modpow_big_agree. Qed.
Theorem session_key_big A B v b : calculate_session_key DefaultBig A B v b = calculate_session_key Default A B v b.
Proof. unfold calculate_session_key. now rewrite S_big. Qed.
Theorem client_public_key_big a g n' : calculate_client_public_key DefaultBig a g n' = calculate_client_public_key Default a g n'.
Proof. unfold calculate_client_public_key. now rewrite modpow_big_agree. Qed.
Theorem client_S_big B x a u g n' : calculate_client_S DefaultBig B x a u g n' = calculate_client_S Default B x a u g n'.
Proof. unfold calculate_client_S. rewrite modpow_big_agree. destruct (modpow Default _ _ _); cbn [bind]; try reflexivity. now rewrite modpow_big_agree. Qed.
Theorem register_big U P t : from_username_and_password DefaultBig U P t = from_username_and_password Default U P t.
Proof. unfold from_username_and_password, with_specific_salt. destruct (draw _ t). now rewrite verifier_big. Qed.
Theorem into_proof_big vf t : into_proof DefaultBig vf t = into_proof Default vf t.
Proof. unfold into_proof, with_specific_private_key. destruct (draw _ t). now rewrite server_public_key_big. Qed.
Theorem into_server_big p A m t : into_server DefaultBig p A m t = into_server Default p A m t.
Proof. unfold into_server. now rewrite session_key_big. Qed.
Theorem client_new_big U P g n' B salt t : client_new DefaultBig U P g n' B salt t = client_new Default U P g n' B salt t.
Proof.
  unfold client_new. destruct (draw _ t) as [a t']. rewrite client_public_key_big.
  destruct (calculate_client_public_key Default a g n'); try reflexivity. now rewrite client_S_big.
Qed.

Print Assumptions client_new_big.
