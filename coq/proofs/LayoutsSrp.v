(* The hand-written SRP model feeds SHA-1 exactly the field sequences that tools/extract_layouts.py
   read off the Rust chains (Layouts.v, regenerated on every run; parameters are listed in
   the order of the Rust fn signature, then of its let-definitions).  A reordered, added, dropped or duplicated field in
   the source breaks one of these obligations. *)
From WS Require Import lib.Bytes lib.Sha1 Consts Layouts model.Bigint model.Key model.Srp model.WorldProof.
Local Opaque sha1.

Lemma layout_calculate_x U P salt :
  calculate_x U P salt = sha1 (lay_srp_internal_calculate_x_1 salt (sha1 (lay_srp_internal_calculate_x_0 U P))).
Proof. reflexivity. Qed.

Lemma layout_calculate_u A B : calculate_u A B = sha1 (lay_srp_internal_calculate_u_0 A B).
Proof. reflexivity. Qed.

Lemma layout_interleaved_halves E F :
  lay_srp_internal_calculate_interleaved_0 E = E /\ lay_srp_internal_calculate_interleaved_1 F = F.
Proof. split; reflexivity. Qed.

Lemma layout_server_proof A M1 K :
  calculate_server_proof A M1 K = sha1 (lay_srp_internal_calculate_server_proof_0 A M1 K).
Proof. reflexivity. Qed.

Lemma layout_xor_hash n g :
  calculate_xor_hash n g = xor_bytes (sha1 (lay_srp_internal_calculate_xor_hash_0 n)) (sha1 (lay_srp_internal_calculate_xor_hash_1 [g])).
Proof. reflexivity. Qed.

Lemma layout_client_proof U K A B salt :
  calculate_client_proof U K A B salt =
  sha1 (lay_srp_internal_calculate_client_proof_1 K A B salt (sha1 (lay_srp_internal_calculate_client_proof_0 U)) xor_hash).
Proof. reflexivity. Qed.

Lemma layout_reconnect_proof U cd sd K :
  calculate_reconnect_proof U cd sd K = sha1 (lay_srp_internal_calculate_reconnect_proof_0 U cd sd K).
Proof. reflexivity. Qed.

Lemma layout_client_proof_custom U K A B salt n' g :
  calculate_client_proof_with_custom_value U K A B salt n' g =
  sha1 (lay_srp_internal_client_calculate_client_proof_with_custom_value_1 K A B salt (calculate_xor_hash n' g)
          (sha1 (lay_srp_internal_client_calculate_client_proof_with_custom_value_0 U))).
Proof. reflexivity. Qed.

Lemma layout_world_proof U K ss cs :
  calculate_world_server_proof U K ss cs =
  sha1 (lay_vanilla_header_internal_calculate_world_server_proof_0 U K ss cs).
Proof. reflexivity. Qed.

Print Assumptions layout_client_proof.
