(* C07: the Vanilla halves follow the whole-stream recurrence for any partition into calls,
   never panic, and the decrypter inverts the encrypter with independent chunkings. *)
From WS Require Import lib.Bytes lib.Res lib.Calls Consts spec.HeaderCipher model.HeaderCipher model.Vanilla
  proofs.HeaderCipher.
From Coq Require Import ZifyN ZifyNat ZifyBool.
Local Open Scope N_scope.
Ltac Zify.zify_post_hook ::= Z.div_mod_to_equations.

Definition mk_half (K : list N) (i p : N) : half := {| h_key := K; h_st := {| c_idx := i; c_prev := p |} |}.

Lemma skl : session_key_length = N.of_nat 40. Proof. reflexivity. Qed.

Lemma encrypt_spec K n p data : length K = 40%nat ->
  encrypt (mk_half K (N.of_nat (n mod 40)) p) data =
  Ok (mk_half K (N.of_nat ((n + length data) mod 40)) (last (enc_stream K n p data) p),
      enc_stream K n p data).
Proof.
  intros HK. unfold encrypt, mk_half. cbn [h_key h_st]. rewrite skl.
  rewrite (enc_loop_spec 40 K HK ltac:(lia) ltac:(lia) _ data n) by reflexivity.
  reflexivity.
Qed.

Lemma decrypt_spec K n p data : length K = 40%nat ->
  decrypt (mk_half K (N.of_nat (n mod 40)) p) data =
  Ok (mk_half K (N.of_nat ((n + length data) mod 40)) (last data p), dec_stream K n p data).
Proof.
  intros HK. unfold decrypt, mk_half. cbn [h_key h_st]. rewrite skl.
  rewrite (dec_loop_spec 40 K HK ltac:(lia) ltac:(lia) _ data n) by reflexivity.
  reflexivity.
Qed.

Lemma enc_calls_gen K chunks : length K = 40%nat -> forall n p,
  run_calls encrypt (mk_half K (N.of_nat (n mod 40)) p) chunks =
  Ok (mk_half K (N.of_nat ((n + length (concat chunks)) mod 40))
              (last (enc_stream K n p (concat chunks)) p),
      enc_stream K n p (concat chunks)).
Proof.
  intros HK. induction chunks as [|c r IH]; intros n p; cbn [run_calls concat].
  - cbn [length enc_stream last]. now rewrite Nat.add_0_r.
  - rewrite encrypt_spec by exact HK. rewrite IH.
    rewrite enc_stream_app, app_length, Nat.add_assoc. f_equal. f_equal.
    unfold mk_half. f_equal. f_equal.
    set (a := enc_stream K n p c). set (b := enc_stream K (n + length c) (last a p) (concat r)).
    destruct b as [|z l] eqn:Eb; [now rewrite app_nil_r|].
    rewrite last_last_app. reflexivity.
Qed.

Lemma dec_calls_gen K chunks : length K = 40%nat -> forall n p,
  run_calls decrypt (mk_half K (N.of_nat (n mod 40)) p) chunks =
  Ok (mk_half K (N.of_nat ((n + length (concat chunks)) mod 40)) (last (concat chunks) p),
      dec_stream K n p (concat chunks)).
Proof.
  intros HK. induction chunks as [|c r IH]; intros n p; cbn [run_calls concat].
  - cbn [length dec_stream last]. now rewrite Nat.add_0_r.
  - rewrite decrypt_spec by exact HK. rewrite IH.
    rewrite dec_stream_app, app_length, Nat.add_assoc. f_equal. f_equal.
    unfold mk_half. f_equal. f_equal.
    destruct (concat r) as [|z l] eqn:Eb; [now rewrite app_nil_r|].
    apply last_last_app.
Qed.

Theorem enc_calls K chunks : length K = 40%nat ->
  run_calls encrypt (half_new K) chunks =
  Ok (mk_half K (N.of_nat (length (concat chunks) mod 40)) (last (encrypt_stream K (concat chunks)) 0),
      encrypt_stream K (concat chunks)).
Proof. intros HK. exact (enc_calls_gen K chunks HK 0%nat 0). Qed.

Theorem dec_calls K chunks : length K = 40%nat ->
  run_calls decrypt (half_new K) chunks =
  Ok (mk_half K (N.of_nat (length (concat chunks) mod 40)) (last (concat chunks) 0),
      decrypt_stream K (concat chunks)).
Proof. intros HK. exact (dec_calls_gen K chunks HK 0%nat 0). Qed.

(* sender and receiver chunk independently; both end in the same (index, previous) *)
Theorem roundtrip K xs cs1 cs2 : bytesn 40 K -> bytes xs ->
  concat cs1 = xs -> concat cs2 = encrypt_stream K xs ->
  exists he hd,
    run_calls encrypt (half_new K) cs1 = Ok (he, encrypt_stream K xs) /\
    run_calls decrypt (half_new K) cs2 = Ok (hd, xs) /\
    h_st hd = h_st he /\ h_key hd = K /\ h_key he = K.
Proof.
  intros [HK HKb] Hxs H1 H2.
  eexists; eexists. rewrite enc_calls, dec_calls by exact HK. rewrite H1, H2.
  split; [reflexivity|]. split.
  - f_equal. f_equal. unfold decrypt_stream, encrypt_stream.
    apply dec_enc_stream; [assumption|assumption|lia|]. intros ->; discriminate.
  - cbn [h_st h_key mk_half]. unfold encrypt_stream. rewrite enc_stream_length. auto.
Qed.

(* zero-length calls change nothing, in any state *)
Theorem empty_call h : encrypt h [] = Ok (h, []) /\ decrypt h [] = Ok (h, []).
Proof. destruct h as [k [i p]]. split; reflexivity. Qed.

(* invariant form: from ANY state with index < 40 (not only reachable ones) a call of any length
   returns without panic, keeps the key and keeps index < 40; the output has the input's length *)
Theorem no_panic_inv h data : length (h_key h) = 40%nat -> c_idx (h_st h) < 40 ->
  (exists h' out, encrypt h data = Ok (h', out) /\ h_key h' = h_key h /\ c_idx (h_st h') < 40 /\
                  length out = length data /\ bytes out) /\
  (exists h' out, decrypt h data = Ok (h', out) /\ h_key h' = h_key h /\ c_idx (h_st h') < 40 /\
                  length out = length data).
Proof.
  destruct h as [K [i p]]. cbn [h_key h_st c_idx]. intros HK Hi.
  assert (E : i = N.of_nat (N.to_nat i mod 40)).
  { rewrite Nat.mod_small by lia. lia. }
  change {| h_key := K; h_st := {| c_idx := i; c_prev := p |} |} with (mk_half K i p).
  rewrite E. split.
  - rewrite encrypt_spec by exact HK. eexists; eexists. split; [reflexivity|]. cbn [mk_half h_key h_st c_idx].
    split; [reflexivity|]. split; [|split; [apply enc_stream_length | apply enc_stream_bytes]].
    pose proof (Nat.mod_upper_bound (N.to_nat i + length data) 40). lia.
  - rewrite decrypt_spec by exact HK. eexists; eexists. split; [reflexivity|]. cbn [mk_half h_key h_st c_idx].
    split; [reflexivity|]. split; [|apply dec_stream_length].
    pose proof (Nat.mod_upper_bound (N.to_nat i + length data) 40). lia.
Qed.

(* the exhaustive step table the property names: every (position, previous, input) *)
Theorem step_table K i p x : length K = 40%nat -> (i < 40)%nat -> 
  encrypt (mk_half K (N.of_nat i) p) [x] =
    Ok (mk_half K (N.of_nat (S i mod 40)) ((N.lxor x (nth i K 0) + p) mod 256),
        [(N.lxor x (nth i K 0) + p) mod 256]) /\
  decrypt (mk_half K (N.of_nat i) p) [x] =
    Ok (mk_half K (N.of_nat (S i mod 40)) x, [N.lxor ((x + 256 - p) mod 256) (nth i K 0)]).
Proof.
  intros HK Hi.
  pose proof (encrypt_spec K i p [x] HK) as E. pose proof (decrypt_spec K i p [x] HK) as D.
  rewrite (Nat.mod_small i 40) in E, D by lia.
  cbn [enc_stream dec_stream length last] in E, D.
  rewrite HK, Nat.add_1_r, (Nat.mod_small i 40) in E, D by lia. split; assumption.
Qed.
