(* Proofs for the Vanilla/TBC header cipher: model loop = whole-stream spec, exact inverse,
   chunking irrelevance.  Generic in the key length kl (40 for Vanilla, 20 for TBC). *)
From WS Require Import lib.Bytes lib.Res lib.Calls spec.HeaderCipher model.HeaderCipher.
From Coq Require Import ZifyN ZifyNat ZifyBool.
Local Open Scope N_scope.
Ltac Zify.zify_post_hook ::= Z.div_mod_to_equations.

Lemma last_cons_ne {A} (x : A) l d : l <> [] -> last (x :: l) d = last l d.
Proof. destruct l; [congruence|reflexivity]. Qed.

Lemma last_cons_default {A} (x : A) l d : last (x :: l) d = last l x.
Proof. revert x; induction l as [|y l IH]; intros x; [reflexivity|]. cbn [last] in *. destruct l; [reflexivity|]. apply IH. Qed.

Lemma last_nonempty_default {A} (x : A) l d d' : last (x :: l) d = last (x :: l) d'.
Proof. revert x; induction l as [|y l IH]; intros x; [reflexivity|]. cbn [last] in *. apply IH. Qed.

(* ---- stream-level facts ---- *)
Lemma enc_stream_length key n c xs : length (enc_stream key n c xs) = length xs.
Proof. revert n c; induction xs; intros; cbn; auto. Qed.

Lemma dec_stream_length key n c ys : length (dec_stream key n c ys) = length ys.
Proof. revert n c; induction ys; intros; cbn; auto. Qed.

Lemma enc_stream_bytes key n c xs : bytes (enc_stream key n c xs).
Proof.
  revert n c; induction xs as [|x r IH]; intros; cbn [enc_stream]; constructor; [|apply IH].
  unfold byte_ok. lia.
Qed.

Lemma enc_stream_app key n c a b :
  enc_stream key n c (a ++ b) =
  enc_stream key n c a ++ enc_stream key (n + length a) (last (enc_stream key n c a) c) b.
Proof.
  revert n c; induction a as [|x a IH]; intros n c; cbn [app enc_stream length].
  - now rewrite Nat.add_0_r.
  - rewrite IH. cbn [app]. f_equal. rewrite last_cons_default.
    replace (S n + length a)%nat with (n + S (length a))%nat by lia. reflexivity.
Qed.

Lemma dec_stream_app key n c a b :
  dec_stream key n c (a ++ b) = dec_stream key n c a ++ dec_stream key (n + length a) (last a c) b.
Proof.
  revert n c; induction a as [|y a IH]; intros n c; cbn [app dec_stream length].
  - now rewrite Nat.add_0_r.
  - rewrite IH. cbn [app]. f_equal. rewrite last_cons_default.
    replace (S n + length a)%nat with (n + S (length a))%nat by lia. reflexivity.
Qed.

Lemma step_inv x k c : x < 256 -> k < 256 -> c < 256 ->
  N.lxor (((N.lxor x k + c) mod 256 + 256 - c) mod 256) k = x.
Proof.
  intros Hx Hk Hc. pose proof (lxor_byte x k Hx Hk) as Hb.
  replace (((N.lxor x k + c) mod 256 + 256 - c) mod 256) with (N.lxor x k) by lia.
  apply lxor_cancel_r.
Qed.

Theorem dec_enc_stream key n c xs : bytes key -> bytes xs -> c < 256 -> key <> [] ->
  dec_stream key n c (enc_stream key n c xs) = xs.
Proof.
  intros Hk Hxs; revert n c; induction Hxs as [|x r Hx Hr IH]; intros n c Hc Hne;
    cbn [enc_stream dec_stream]; [reflexivity|].
  assert (Hkb : nth (n mod length key) key 0 < 256) by (apply bytes_nth; [assumption|lia]).
  f_equal; [apply step_inv; assumption|].
  apply IH; [lia|assumption].
Qed.

(* the reverse composition: encrypting what was decrypted gives the ciphertext back *)
Lemma step_inv' y k c : y < 256 -> k < 256 -> c < 256 ->
  (N.lxor (N.lxor ((y + 256 - c) mod 256) k) k + c) mod 256 = y.
Proof. intros. rewrite lxor_cancel_r. lia. Qed.

Theorem enc_dec_stream key n c ys : bytes key -> bytes ys -> c < 256 -> key <> [] ->
  enc_stream key n c (dec_stream key n c ys) = ys.
Proof.
  intros Hk Hys; revert n c; induction Hys as [|y r Hy Hr IH]; intros n c Hc Hne;
    cbn [enc_stream dec_stream]; [reflexivity|].
  assert (Hkb : nth (n mod length key) key 0 < 256) by (apply bytes_nth; [assumption|lia]).
  unfold byte_ok in Hy. rewrite step_inv' by assumption.
  f_equal. apply IH; assumption.
Qed.

Lemma succ_mod_N n kl : (0 < kl)%nat ->
  N.of_nat (S n mod kl) = (N.of_nat (n mod kl) + 1) mod N.of_nat kl.
Proof.
  intros H. rewrite <- Nat.add_1_r, <- (Nat.add_mod_idemp_l n 1 kl) by lia.
  rewrite Nnat.Nat2N.inj_mod, Nnat.Nat2N.inj_add. reflexivity.
Qed.

(* ---- the model loops equal the spec on every chunk and track (index, previous) ---- *)
Section Loop.
Variables (kl : nat) (key : list N).
Hypothesis Hlen : length key = kl.
Hypothesis Hpos : (0 < kl)%nat.
Hypothesis Hmax : (kl <= 255)%nat.

Theorem enc_loop_spec s data n :
  c_idx s = N.of_nat (n mod kl) ->
  enc_loop (N.of_nat kl) key s data =
    Some ({| c_idx := N.of_nat ((n + length data) mod kl);
             c_prev := last (enc_stream key n (c_prev s) data) (c_prev s) |},
          enc_stream key n (c_prev s) data).
Proof.
  revert s n; induction data as [|x r IH]; intros s n Hidx; cbn [enc_loop enc_stream length last].
  - rewrite Nat.add_0_r, <- Hidx. destruct s; reflexivity.
  - assert (Hlt : (n mod kl < kl)%nat) by (apply Nat.mod_upper_bound; lia).
    rewrite Hidx, Nnat.Nat2N.id, Hlen.
    destruct (nth_error key (n mod kl)) as [k|] eqn:Hk.
    2:{ apply nth_error_None in Hk. lia. }
    rewrite (nth_error_nth _ _ 0 Hk).
    replace (255 <? N.of_nat (n mod kl) + 1) with false by lia.
    replace (N.of_nat kl =? 0) with false by lia.
    set (y := (N.lxor x k + c_prev s) mod 256).
    rewrite (IH {| c_idx := (N.of_nat (n mod kl) + 1) mod N.of_nat kl; c_prev := y |} (S n)).
    2:{ cbn [c_idx]. symmetry. apply succ_mod_N. exact Hpos. }
    cbn [c_prev]. replace (S n + length r)%nat with (n + S (length r))%nat by lia.
    f_equal. f_equal. f_equal.
    destruct (enc_stream key (S n) y r) as [|z l] eqn:E; [reflexivity|].
    apply last_nonempty_default.
Qed.

Theorem dec_loop_spec s data n :
  c_idx s = N.of_nat (n mod kl) ->
  dec_loop (N.of_nat kl) key s data =
    Some ({| c_idx := N.of_nat ((n + length data) mod kl); c_prev := last data (c_prev s) |},
          dec_stream key n (c_prev s) data).
Proof.
  revert s n; induction data as [|y r IH]; intros s n Hidx; cbn [dec_loop dec_stream length last].
  - rewrite Nat.add_0_r, <- Hidx. destruct s; reflexivity.
  - assert (Hlt : (n mod kl < kl)%nat) by (apply Nat.mod_upper_bound; lia).
    rewrite Hidx, Nnat.Nat2N.id, Hlen.
    destruct (nth_error key (n mod kl)) as [k|] eqn:Hk.
    2:{ apply nth_error_None in Hk. lia. }
    rewrite (nth_error_nth _ _ 0 Hk).
    replace (255 <? N.of_nat (n mod kl) + 1) with false by lia.
    replace (N.of_nat kl =? 0) with false by lia.
    rewrite (IH {| c_idx := (N.of_nat (n mod kl) + 1) mod N.of_nat kl; c_prev := y |} (S n)).
    2:{ cbn [c_idx]. symmetry. apply succ_mod_N. exact Hpos. }
    cbn [c_prev]. replace (S n + length r)%nat with (n + S (length r))%nat by lia.
    f_equal. f_equal. f_equal.
    destruct r as [|z l]; [reflexivity|].
    apply last_nonempty_default.
Qed.
End Loop.

Lemma last_app_nonempty {A} (a : list A) z l d d' : last (a ++ z :: l) d = last (z :: l) d'.
Proof.
  induction a as [|x a IH]; cbn [app]; [apply last_nonempty_default|].
  rewrite last_cons_ne; [exact IH|]. destruct a; discriminate.
Qed.

Lemma last_last_app {A} (a : list A) z l d : last (z :: l) (last a d) = last (a ++ z :: l) d.
Proof. symmetry. apply last_app_nonempty. Qed.
