(* C19: the model parametrised by the GMP back end equals the model with the pure-Rust back end,
   function by function, for all inputs. *)
From WS Require Import lib.Bytes lib.Res lib.Tape Consts model.Bigint model.Key model.Srp model.Server model.Client
  proofs.Bigint.
From Coq Require Import ZifyN ZifyNat ZifyBool.
Local Open Scope Z_scope.

Lemma to_bytes_le_backend z : z <> 0 -> to_bytes_le Fast z = to_bytes_le Default z.
Proof. intros H. unfold to_bytes_le. replace (Z.abs z =? 0) with false by lia. reflexivity. Qed.

(* the only difference between the encodings ([0] vs [] for zero) vanishes in every padded copy *)
Theorem pad_to_backend n z : (1 <= n)%nat -> pad_to n (to_bytes_le Fast z) = pad_to n (to_bytes_le Default z).
Proof.
  intros Hn. destruct (Z.eq_dec z 0) as [->|Hz]; [|now rewrite to_bytes_le_backend].
  unfold to_bytes_le, pad_to. cbn [Z.abs Z.eqb length app].
  replace (n <? 0)%nat with false by lia. replace (n <? 1)%nat with false by lia.
  destruct n as [|n]; [lia|]. cbn [Nat.sub repeat app]. now rewrite Nat.sub_0_r.
Qed.

Lemma from_bytes_le_nonneg v : 0 <= from_bytes_le v. Proof. apply le_to_Z_nonneg. Qed.

Lemma lsp_nonneg : 0 <= lsp_z. Proof. apply le_to_Z_nonneg. Qed.
Ltac nn := first [apply from_bytes_le_nonneg | apply lsp_nonneg | apply le_to_Z_nonneg].

Section Agree.

Theorem verifier_agree U P salt :
  calculate_password_verifier Fast U P salt = calculate_password_verifier Default U P salt.
Proof.
  unfold calculate_password_verifier. rewrite modpow_backends_agree by nn.
  destruct (modpow Default _ _ _) as [v| |]; cbn [bind]; try reflexivity.
  unfold to_padded_32_byte_array_le. apply pad_to_backend. lia.
Qed.

Lemma try_from_bigint_agree z : pk_try_from_bigint Fast z = pk_try_from_bigint Default z.
Proof. unfold pk_try_from_bigint. rewrite pad_to_backend by (change (N.to_nat public_key_length) with 32%nat; lia). reflexivity. Qed.

Lemma client_try_from_bigint_agree z n' : pk_client_try_from_bigint Fast z n' = pk_client_try_from_bigint Default z n'.
Proof. unfold pk_client_try_from_bigint. rewrite pad_to_backend by (change (N.to_nat public_key_length) with 32%nat; lia). reflexivity. Qed.

Theorem server_public_key_agree v b :
  calculate_server_public_key Fast v b = calculate_server_public_key Default v b.
Proof.
  unfold calculate_server_public_key. rewrite modpow_backends_agree by nn.
  destruct (modpow Default _ _ _) as [g| |]; try reflexivity.
  destruct (rem _ _) as [r| |]; try reflexivity. apply try_from_bigint_agree.
Qed.

Theorem S_agree A v u b : calculate_S Fast A v u b = calculate_S Default A v u b.
Proof.
  unfold calculate_S. rewrite modpow_backends_agree by nn.
  destruct (modpow Default _ _ _) as [vu| |]; cbn [bind]; try reflexivity.
  rewrite modpow_backends_agree by nn.
  destruct (modpow Default _ _ _) as [s| |]; cbn [bind]; try reflexivity.
  unfold key_from_bigint. apply pad_to_backend. change (N.to_nat s_length) with 32%nat. lia.
Qed.

Theorem session_key_agree A B v b : calculate_session_key Fast A B v b = calculate_session_key Default A B v b.
Proof. unfold calculate_session_key. now rewrite S_agree. Qed.

Theorem client_public_key_agree a g n' :
  calculate_client_public_key Fast a g n' = calculate_client_public_key Default a g n'.
Proof.
  unfold calculate_client_public_key. rewrite modpow_backends_agree by nn.
  destruct (modpow Default _ _ _) as [A| |]; try reflexivity. apply client_try_from_bigint_agree.
Qed.

Theorem client_S_agree B x a u g n' :
  calculate_client_S Fast B x a u g n' = calculate_client_S Default B x a u g n'.
Proof.
  unfold calculate_client_S. rewrite modpow_backends_agree by nn.
  destruct (modpow Default _ _ _) as [gx| |]; cbn [bind]; try reflexivity.
  rewrite modpow_backends_agree.
  2:{ pose proof (from_bytes_le_nonneg a). pose proof (from_bytes_le_nonneg u). pose proof (from_bytes_le_nonneg x). nia. }
  2: nn.
  destruct (modpow Default _ _ _) as [s| |]; cbn [bind]; try reflexivity.
  unfold to_padded_32_byte_array_le. apply pad_to_backend. lia.
Qed.

(* ---- the typestate API ---- *)
Theorem register_agree U P t : from_username_and_password Fast U P t = from_username_and_password Default U P t.
Proof. unfold from_username_and_password, with_specific_salt. destruct (draw _ t). now rewrite verifier_agree. Qed.

Theorem into_proof_agree vf t : into_proof Fast vf t = into_proof Default vf t.
Proof. unfold into_proof, with_specific_private_key. destruct (draw _ t). now rewrite server_public_key_agree. Qed.

Theorem into_server_agree p A m t : into_server Fast p A m t = into_server Default p A m t.
Proof. unfold into_server. now rewrite session_key_agree. Qed.

Theorem client_new_agree U P g n' B salt t : client_new Fast U P g n' B salt t = client_new Default U P g n' B salt t.
Proof.
  unfold client_new. destruct (draw _ t) as [a t']. rewrite client_public_key_agree.
  destruct (calculate_client_public_key Default a g n') as [A| |]; try reflexivity.
  now rewrite client_S_agree.
Qed.
End Agree.
